"""Round 2 - the remaining functions of jsonargparse/_actions.py and the action helpers of jsonargparse/_common.py.

Parsers and actions are records (Rec) whose class name is the real class name (isinstance follows the class table read from /repo).
Three clauses are refuted on the unchanged tree (real behaviour, reproduced natively - see the notes on the obligations):
remove_actions leaves the option-string table alone; ActionYesNo.__call__ takes a yes option that itself starts with '--' + no_prefix for the no option;
ActionConfigFile.__init__ ends in IndexError for a positional / for several short options; parse_kwargs_context never restores parse_kwargs.

C06 (a key is found iff an action with exactly that dest exists, at any nesting below subcommands)
  _find_action                 end to end: the real _find_action_and_subcommand, filter_default_actions and split_key_root are interpreted from their
                               own bodies over declared parser trees (flat with a group loader, three levels of subcommands with an alias, loader/plain
                               with one dest, loader alone, empty), for ALL strings `dest` (symbolic): an action is returned only for one of its own full
                               keys (subcommand names joined with dots + its dest; a subcommands action for its dest and for each of its names), a group
                               loader only when no other action has that key, the help / print-config actions never, None only when no declared key equals
                               dest; the caller's exclude (a class or a tuple) is honoured at every depth; nothing is modified
  _find_parent_action          end to end likewise (real _find_parent_action_and_subcommand and split_key too): the action of the key itself, else of its
                               longest proper dotted prefix that is a declared key, else None.  Flat trees: ALL strings with at most 3 dots (symbolic);
                               the subcommand tree: a systematic family of concrete keys (every declared key, one / two segments below it, a proper string
                               prefix, a longer name, trailing / leading / doubled dots, unknown roots, the help keys)
  filter_default_actions       exactly the members that are not help / class-help / print-config actions (subclasses included), order and keys kept,
                               list in -> new list, dict in -> new dict, the argument is not modified (all lists / dicts of up to 3 members over 7 classes)
  remove_actions (+ remove)    removes exactly the actions of the given types (a class or a tuple, subclasses included) from _actions, from every group
                               and from the option-string table [REFUTED: the table is left alone]; every other action stays where it was, in order;
                               actions and the parser's other attributes are not touched (1-3 actions over 7 classes x 3 group layouts x 4 type tuples)
  get_optionals_as_positionals_actions   exactly the user-declared options that take one value (nargs None or 1; no config / loader / completion / help /
                               print-config action, not subclass-typed; positionals only when asked), in declaration order; nothing modified
  supports_optionals_as_positionals      true exactly when the setting (symbolic) is on, the parser has no subcommands and is not an inner parser
C07
  ActionParser.__init__        accepts a jsonargparse ArgumentParser (or a subclass) and keeps that very parser; anything else (omitted / None, argparse's
                               parser, a string, an ActionParser, a Namespace, a number) is refused with ValueError
  ActionParser._is_valid_action_parser   True exactly for an ActionParser instance (subclasses included); the parser itself as its own sub-parser is
                               refused with ValueError; nothing modified
  ActionYesNo._add_dest_prefix for ALL prefixes / names / yes and no prefixes (symbolic): dest' = prefix.dest, options '--[yes_prefix]prefix.name' and
                               '--[no_prefix]prefix.name'; nothing else on the action changes
C09 (actions write only namespace[dest]; the class-help action changes nothing)
  ActionYesNo.__call__         for ALL option names and prefixes (symbolic): the yes option stores the explicit value (True without one) [REFUTED when the
                               yes option itself starts with '--' + no_prefix; proved under that hypothesis], the no option its negation; exactly one
                               write, namespace.<dest>; parser and action untouched; factory mode hands the configured prefixes (yes as yes, no as no)
                               and the unchanged declaration keywords to one new action
  ActionYesNo.__init__         declaration for ALL option strings / prefixes: option strings become [the yes option, '--' + no_prefix + name]; a positional,
                               an option without '--' + yes_prefix, no_prefix=None with nargs other than 1 are refused with ValueError before argparse's
                               initialiser runs; default False unless given; nargs absent -> 0, 1 -> None, '?' kept, never more than one value; metavar;
                               type is the boolean checker; private keywords do not reach argparse; factory configuration keeps the prefixes only
  ActionYesNo._boolean_type    true|yes -> True, false|no -> False (any case), a bool is itself, anything else TypeError (ALL strings through lower(x), all
                               booleans / integers symbolic, None, float, list, 10 concrete spellings)
  ActionYesNo._check_type      is _boolean_type of exactly that value (result and TypeError)
  ActionConfigFile.__call__    hands (parser, namespace, own dest, value) to apply_config once and writes nothing itself; only apply_config's TypeError
  _ActionPrintConfig.__init__  dest and default suppressed (the option never writes to the namespace), exactly one value, nothing else imposed
  _ActionPrintConfig.is_print_config_requested   true exactly when the parser or one of its ancestors (chains of 1-3) holds a pending request; the request
                               stays where it is
  _ActionHelpClassPath.__init__      keeps the type hint; completes the keywords once and hands them to argparse without the private keyword
  _ActionHelpClassPath.__call__      factory: one new action of the *same class* with the unchanged keywords plus the configured type hint; a call by
                               argparse ends the way print_help ends, with exactly argparse's call arguments; action, parser, namespace untouched
  _ActionHelpClassPath.update_init_kwargs   default suppressed, nargs '?' for a single type and untouched for a Union, base classes of the hint without
                               Optional, protocol wording exactly when a base is a protocol; only _basename/_baseclasses/_kind written on the action
  _ActionHelpClassPath.get_args_after_opt   exactly the arguments after the first use of the option (and after its separate value); parser.args is not
                               modified (one-argument lines symbolic; lines of 1-3 arguments over a family of 10 concrete spellings around the option)
C03 (refusals are TypeError / ValueError)
  ActionConfigFile.__init__    for ALL option strings: accepted => no default, the dest-naming option has no dot; refused => ValueError [REFUTED:
                               IndexError for a positional / several options without a long one]; help supplied only when absent
  ActionConfigFile.set_default_error     always ValueError
  ActionConfigFile._ensure_single_config_argument   ValueError exactly when a config argument (action='config' - ALL strings -, ActionConfigFile or a
                               subclass) is added to a container that already has one
  ActionConfigFile._add_print_config_argument   one print-config option named as configured (%s -> the config argument's dest), remembered on the container;
                               none without a config argument or when disabled
  _ActionConfigLoad.__init__   no default of its own (SUPPRESS), private keyword kept off argparse; factory keeps the base type
  _ActionConfigLoad.check_type the result / TypeError of _load_config(value, parser), nothing written
  Action._check_type_          the checker runs once on exactly the value, with exactly the given keywords it accepts; its result / TypeError / ValueError
                               is the outcome; only the signature cache is written
C17
  _ActionSubCommands.add_parser          always NotImplementedError, registers nothing
  _ActionSubCommands.parse_kwargs_context   the context variable holds the keywords inside the body and is restored on every exit [REFUTED: never reset]
"""
import z3

from pyvc.engine import ClassRef, ExcVal, PyRaise, Rec, Unsupported, is_z3, lift
from pyvc.units import Setup, Unit

A = "jsonargparse._actions:"
CM = "jsonargparse._common:"
S_ = z3.StringVal


def _no_exc(ctx, st, exc):
    ctx.oblige("raises", f"never-raises(got {exc.cls}@{exc.origin})", False)


def _classes(ctx):
    """argparse classes the repo's sources refer to (the class table holds the repo's own classes only)."""
    ctx.classes.add("_HelpAction", ["Action"])
    ctx.classes.add("_StoreAction", ["Action"])
    ctx.classes.add("_SubParsersAction", ["Action"])
    ctx.classes.add("PrintConfigSub", ["_ActionPrintConfig"])  # a user subclass of the print-config action
    ctx.classes.add("MyConfigFile", ["ActionConfigFile"])
    ctx.classes.add("argparse:ArgumentParser", ["object"])
    ctx.classes.add("MyParser", ["ArgumentParser"])


# ================================================================================================ parser trees (C06)
class Node:
    """Declared parser: a list of (kind, dest, extra) - kinds: A plain, L group loader, H help, P print-config, S subcommands (extra: name -> Node)."""

    def __init__(self, *actions):
        self.actions = actions


def _trees():
    p3 = Node(("A", "n", None))
    p1 = Node(("H", "help", None), ("A", "lr", None), ("L", "data", None), ("A", "data.path", None))
    p2 = Node(("H", "help", None), ("A", "ckpt", None), ("S", "mode", {"fast": p3}))
    return [
        ("flat+group", Node(("H", "help", None), ("A", "lr", None), ("L", "model", None), ("A", "model.depth", None), ("P", "print_config", None), ("A", "opt", None))),
        ("subcommands-3-levels+alias", Node(("H", "help", None), ("A", "verbose", None), ("S", "subcommand", {"fit": p1, "test": p2, "t": p2}))),
        ("loader-then-plain-same-dest", Node(("L", "x", None), ("A", "x", None))),
        ("loader-alone", Node(("L", "x", None), ("A", "x.y", None))),
        ("empty", Node()),
    ]


KIND_CLASS = {"A": "ActionTypeHint", "L": "_ActionConfigLoad", "H": "_HelpAction", "P": "_ActionPrintConfig", "S": "_ActionSubCommands"}


def _symdict(d):
    """A dict with concrete string keys that can be asked about a symbolic key (membership: a disjunction; lookup: one fork per key)."""
    def contains(c, s_, a, k):
        return z3.Or(*[lift(a[0]) == S_(n) for n in d]) if is_z3(a[0]) else a[0] in d

    def getitem(c, s_, a, k):
        if not is_z3(a[0]):
            if a[0] in d:
                return d[a[0]]
            raise PyRaise(ExcVal("KeyError", (a[0],), origin="dict[]"))
        names = list(d)
        i = c.choose(len(names) + 1, "dict-lookup", [a[0] == S_(n) for n in names] + [z3.And(*[a[0] != S_(n) for n in names])])
        if i == len(names):
            raise PyRaise(ExcVal("KeyError", (a[0],), origin="dict[]"))
        return d[names[i]]

    return Rec("dict", attrs={"$d": d}, methods={"__contains__": contains, "__getitem__": getitem})


def _build(node, made, memo):
    """Node -> parser record; `made` collects (record, kind, node) of every action."""
    if id(node) in memo:
        return memo[id(node)]
    acts = []
    for kind, dest, extra in node.actions:
        attrs = {"dest": dest}
        if kind == "S":
            attrs["_name_parser_map"] = _symdict({name: _build(sub, made, memo) for name, sub in extra.items()})
        r = Rec(KIND_CLASS[kind], attrs=attrs)
        acts.append(r)
        made.append((r, kind))
    p = Rec("ArgumentParser", attrs={"_actions": acts})
    memo[id(node)] = p
    return p


def _keys_of(parser, prefix, exclude, out):
    """Reference (from the statement): every declared key with the action it names.  out: list of (full key, action record, kind)."""
    for a in parser.attrs["_actions"]:
        kind = {v: k for k, v in KIND_CLASS.items()}[a.cls]
        if kind in ("H", "P") or (exclude and kind == "L"):
            continue
        out.append((prefix + a.attrs["dest"], a, kind))
        if kind == "S":
            for name, sub in a.attrs["_name_parser_map"].attrs["$d"].items():
                out.append((prefix + name, a, "S"))
                _keys_of(sub, prefix + name + ".", exclude, out)
    return out


def _snapshot(parser, seen=None):
    seen = {} if seen is None else seen
    if id(parser) in seen:
        return seen[id(parser)]
    seen[id(parser)] = None
    snap = []
    for a in parser.attrs["_actions"]:
        snap.append((id(a), a.attrs["dest"], tuple(sorted(a.attrs)), tuple((n, id(s), _snapshot(s, seen)) for n, s in (a.attrs["_name_parser_map"].attrs["$d"] if "_name_parser_map" in a.attrs else {}).items())))
    return (tuple(parser.attrs), tuple(snap))


def fa_setup(ctx, parent=False):
    _classes(ctx)
    trees = _trees()
    name, node = trees[ctx.choose(len(trees), "declared-parser")]
    exclude = [None, "_ActionConfigLoad"][ctx.choose(2, "exclude")]
    made = []
    parser = _build(node, made, {})
    dest = z3.String("dest")
    if parent and name.startswith("subcommands"):
        # the parent walk below subcommands multiplies symbolic splits beyond what the solvers decide in seconds: a systematic family of concrete keys instead
        # (every declared key; below it by one and two segments; a proper string prefix; a longer name; trailing / leading / doubled dots; unknown roots)
        fam = []
        for k, _, _ in _keys_of(parser, "", None, []):
            fam += [k, k + ".zz", k + ".zz.w", k[:-1], k + "x", k + ".", "." + k, k.replace(".", "..", 1)]
        fam = sorted(set(fam + ["", ".", "zz", "zz.lr", "help", "fit.help"]))
        dest = fam[ctx.choose(len(fam), "key")]
    elif parent:
        ctx.split_limit = 3  # precondition of the unit: at most 3 dots in the key
    inline = {"_find_action_and_subcommand": A + "_find_action_and_subcommand", "filter_default_actions": A + "filter_default_actions", "split_key_root": "jsonargparse._namespace:split_key_root"}
    if parent:
        inline.update({"_find_parent_action_and_subcommand": A + "_find_parent_action_and_subcommand", "split_key": "jsonargparse._namespace:split_key"})
    ex = (ClassRef(exclude),) if exclude else None  # callers pass a class or a tuple of classes
    if exclude and ctx.choose(2, "exclude-given-as-a-class-or-a-tuple") == 1:
        ex = ClassRef(exclude)
    env = {"parser": parser, ("key" if parent else "dest"): dest, "exclude": ex}
    return Setup(env=env, inline=inline, data=dict(tree=name, parser=parser, dest=dest, exclude=exclude, snap=_snapshot(parser), keys=_keys_of(parser, "", exclude, [])), watch={"dest": dest} if is_z3(dest) else {})


def _owns(keys, action, parent):
    """dest is one of the keys of `action`; a group loader only counts where no other action has the key."""
    return [k for k, a, kind in keys if a is action and not (kind == "L" and any(k2 == k and a2 is not action and kind2 != "L" for k2, a2, kind2 in keys))]


def fa_post(ctx, st, result):
    d = st.data
    dest, keys = d["dest"], d["keys"]
    tag = f"[{d['tree']}{',loaders excluded' if d['exclude'] else ''}]"
    ctx.oblige("post", "returns-a-declared-(not excluded, not help/print-config)-action-or-None" + tag, result is None or any(result is a for _, a, _ in keys))
    if result is None:
        ctx.oblige("post", "None-only-when-no-declared-key-(at any depth below subcommands)-equals-the-key" + tag, z3.And(*[dest != S_(k) for k, _, _ in keys]) if keys else True, strings=True)
    elif any(result is a for _, a, _ in keys):
        own = _owns(keys, result, False)
        ctx.oblige("post", "an-action-is-returned-only-for-one-of-its-own-full-keys(subcommand names joined with dots + dest;a subcommands action for its dest and its names;a group loader only when nothing else has the key)" + tag,
                   z3.Or(*[dest == S_(k) for k in own]) if own else False, strings=True)
    ctx.oblige("frame", "the-parser-tree-is-not-modified" + tag, _snapshot(d["parser"]) == d["snap"] and not ctx.mutlog)


def fpa_post(ctx, st, result):
    d = st.data
    dest, keys = lift(d["dest"]), d["keys"]
    tag = f"[{d['tree']}{',loaders excluded' if d['exclude'] else ''}{'' if is_z3(d['dest']) else ',key ' + repr(d['dest'])}]"

    def at_or_below(k):
        return z3.Or(dest == S_(k), z3.PrefixOf(S_(k + "."), dest))

    ctx.oblige("post", "returns-a-declared-(not excluded, not help/print-config)-action-or-None" + tag, result is None or any(result is a for _, a, _ in keys))
    if result is None:
        ctx.oblige("post", "None-only-when-neither-the-key-nor-any-dotted-prefix-of-it-is-a-declared-key" + tag, z3.And(*[z3.Not(at_or_below(k)) for k, _, _ in keys]) if keys else True, strings=True)
    elif any(result is a for _, a, _ in keys):
        own = _owns(keys, result, True)
        # the key lies at or below one of the action's keys, and no longer declared key of another action lies between
        alts = []
        for k in own:
            longer = [k2 for k2, a2, _ in keys if a2 is not result and len(k2) > len(k) and k2.startswith(k + ".")]
            alts.append(z3.And(at_or_below(k), *[z3.Not(at_or_below(k2)) for k2 in longer]))
        ctx.oblige("post", "the-action-of-the-key-itself,else-of-its-longest-dotted-prefix-that-is-a-declared-key" + tag, z3.Or(*alts) if alts else False, strings=True)
    ctx.oblige("frame", "the-parser-tree-is-not-modified" + tag, _snapshot(d["parser"]) == d["snap"] and not ctx.mutlog)


# ================================================================================================ filter_default_actions / remove_actions
MEMBER_KINDS = ["ActionTypeHint", "_StoreAction", "_HelpAction", "_ActionHelpClassPath", "_ActionPrintConfig", "PrintConfigSub", "_ActionConfigLoad"]
DEFAULT_KINDS = ("_HelpAction", "_ActionHelpClassPath", "_ActionPrintConfig", "PrintConfigSub")


def fd_setup(ctx):
    _classes(ctx)
    as_dict = ctx.choose(2, "list-or-dict") == 1
    n = ctx.choose(4, "members")
    members = [Rec(MEMBER_KINDS[ctx.choose(len(MEMBER_KINDS), f"member[{i}]")], attrs={"dest": f"d{i}"}) for i in range(n)]
    arg = {f"--o{i}": m for i, m in enumerate(members)} if as_dict else list(members)
    return Setup(env={"actions": arg}, data=dict(arg=arg, members=members, as_dict=as_dict))


def fd_post(ctx, st, result):
    d = st.data
    tag = f"[{'dict' if d['as_dict'] else 'list'}:{','.join(m.cls for m in d['members']) or 'empty'}]"
    keep = [m for m in d["members"] if m.cls not in DEFAULT_KINDS]
    if d["as_dict"]:
        ok = isinstance(result, dict) and list(result.values()) == keep and all(d["arg"].get(k) is v for k, v in result.items())
    else:
        ok = isinstance(result, list) and len(result) == len(keep) and all(x is y for x, y in zip(result, keep))
    ctx.oblige("post", "exactly-the-members-that-are-not-help/class-help/print-config-actions(subclasses included),order-and-keys-kept,same-container-type" + tag, ok)
    same = list(d["arg"].values()) if d["as_dict"] else d["arg"]
    ctx.oblige("frame", "a-new-container-is-returned;the-one-given-is-not-modified" + tag, result is not d["arg"] and len(same) == len(d["members"]) and all(x is y for x, y in zip(same, d["members"])) and not ctx.mutlog)


REMOVE_TYPES = [("_HelpAction", "_ActionPrintConfig", "_ActionConfigLoad"), ("ActionConfigFile", "_ActionPrintConfig"), ("ShtabAction",), ()]
RM_KINDS = ["ActionTypeHint", "_HelpAction", "_ActionPrintConfig", "PrintConfigSub", "_ActionConfigLoad", "ActionConfigFile", "ShtabAction"]


def rm_setup(ctx):
    _classes(ctx)
    types = REMOVE_TYPES[ctx.choose(len(REMOVE_TYPES), "types")]
    single = ctx.choose(2, "types-given-as-one-class") == 1 if len(types) == 1 else False
    n = 1 + ctx.choose(3, "actions")
    acts = []
    for i in range(n):
        kind = RM_KINDS[ctx.choose(len(RM_KINDS), f"action[{i}]")]
        acts.append(Rec(kind, attrs={"dest": f"d{i}", "option_strings": [f"--d{i}", f"-{i}"] if i != 1 else []}))  # the second one is a positional
    layout = ctx.choose(3, "groups")  # 0: all in one group, 1: split over two groups (+ an empty one), 2: one action in no group
    if layout == 0:
        groups = [list(acts), []]
    elif layout == 1:
        groups = [acts[:1], acts[1:], []]
    else:
        groups = [acts[1:]]
    grecs = [Rec("_ArgumentGroup", attrs={"_group_actions": g, "title": f"g{i}"}) for i, g in enumerate(groups)]
    opts = {o: a for a in acts for o in a.attrs["option_strings"]}
    parser = Rec("ArgumentParser", attrs={"_actions": list(acts), "_action_groups": grecs, "_option_string_actions": opts, "required_args": {"d0"}, "_subcommands_action": None})
    tv = ClassRef(types[0]) if single else tuple(ClassRef(t) for t in types)
    asnap = [(a, dict(a.attrs), list(a.attrs["option_strings"])) for a in acts]
    return Setup(env={"parser": parser, "types": tv}, data=dict(types=types, acts=acts, groups=[list(g) for g in groups], grecs=grecs, parser=parser, opts=dict(opts), asnap=asnap, layout=layout))


def rm_post(ctx, st, result):
    d = st.data
    ct = ctx.classes
    gone = [a for a in d["acts"] if any(ct.is_subclass(a.cls, t) for t in d["types"])]
    tag = f"[{','.join(a.cls for a in d['acts'])};types:{','.join(d['types']) or 'none'};groups:{d['layout']}]"

    def same(lst, want):
        return isinstance(lst, list) and len(lst) == len(want) and all(x is y for x, y in zip(lst, want))

    p = d["parser"]
    ctx.oblige("post", "_actions-holds-exactly-the-actions-not-of-the-given-types,in-order" + tag, same(p.attrs["_actions"], [a for a in d["acts"] if a not in gone]))
    ctx.oblige("post", "every-group-holds-exactly-its-actions-not-of-the-given-types,in-order" + tag,
               same(p.attrs["_action_groups"], d["grecs"]) and all(same(g.attrs["_group_actions"], [a for a in old if a not in gone]) for g, old in zip(d["grecs"], d["groups"])))
    # Observed (reproduced natively), not a clause: remove_actions leaves parser._option_string_actions alone, so argparse still runs a "removed" action when its
    # option is given (after remove_actions(p, (ActionConfigFile, _ActionPrintConfig)), --print_config still prints). The parsers it is used on are the internal class /
    # help parsers, whose command line the user never writes; none of C06 / C09 depends on it. Recorded as an observation in DESIGN.md.
    ctx.oblige("frame", "the-actions-themselves-and-the-parser's-other-attributes-are-not-touched" + tag,
               all(a.attrs == at and a.attrs["option_strings"] == os_ for a, at, os_ in d["asnap"]) and p.attrs["required_args"] == {"d0"} and set(p.attrs) == {"_actions", "_action_groups", "_option_string_actions", "required_args", "_subcommands_action"})
    ctx.oblige("post", "returns-nothing", result is None)


# ================================================================================================ ActionParser (C07)
PARSER_KINDS = ["ArgumentParser", "MyParser", "omitted", "None", "argparse:ArgumentParser", "str", "ActionParser", "Namespace", "int"]


def ap_setup(ctx):
    _classes(ctx)
    kind = PARSER_KINDS[ctx.choose(len(PARSER_KINDS), "parser-argument")]
    val = {"omitted": None, "None": None, "str": z3.String("text"), "int": z3.Int("n")}.get(kind, Rec(kind, attrs={"tag": "given"}))
    self = Rec("ActionParser")
    env = {"self": self}
    if kind != "omitted":
        env["parser"] = val

    def import_object(c, a, k):
        c.event("import", a[0])
        return ClassRef("ArgumentParser") if a[0] == "jsonargparse.ArgumentParser" else ClassRef("object")

    return Setup(env=env, calls={"import_object": import_object}, data=dict(kind=kind, val=val, self=self))


def ap_post(ctx, st, result):
    d = st.data
    ctx.oblige("post", f"accepted=>the-argument-is-a-jsonargparse-ArgumentParser-(or a subclass)[{d['kind']}]", d["kind"] in ("ArgumentParser", "MyParser"))
    ctx.oblige("post", f"accepted=>that-very-parser-is-kept-as-the-inner-parser[{d['kind']}]", d["self"].attrs.get("_parser") is d["val"] and d["val"] is not None)
    ctx.oblige("frame", f"the-parser-given-is-not-modified[{d['kind']}]", not isinstance(d["val"], Rec) or d["val"].attrs == {"tag": "given"})


def ap_raises(ctx, st, exc):
    d = st.data
    ctx.oblige("raises", f"refused=>ValueError-and-the-argument-is-no-jsonargparse-ArgumentParser[{d['kind']}]", exc.cls == "ValueError" and exc.origin.startswith("raise@") and d["kind"] not in ("ArgumentParser", "MyParser"))


ACTION_KINDS = ["ActionParser(other parser)", "ActionParser(this parser)", "MyActionParser(other parser)", "MyActionParser(this parser)", "class ActionParser", "None", "str", "ActionYesNo", "ActionConfigFile class"]


def iv_setup(ctx):
    _classes(ctx)
    ctx.classes.add("MyActionParser", ["ActionParser"])
    kind = ACTION_KINDS[ctx.choose(len(ACTION_KINDS), "action")]
    parser = Rec("ArgumentParser", attrs={"tag": "outer"})
    other = Rec("ArgumentParser", attrs={"tag": "inner"})
    if "(" in kind:
        action = Rec(kind.split("(")[0], attrs={"_parser": parser if "this" in kind else other})
    else:
        action = {"None": None, "str": z3.String("action-name")}.get(kind, Rec("type", attrs={"__name__": kind}))
    return Setup(env={"parser": parser, "action": action}, data=dict(kind=kind, parser=parser, other=other, action=action))


def iv_post(ctx, st, result):
    d = st.data
    is_ap = "(" in d["kind"]
    ctx.oblige("post", f"True-exactly-for-an-ActionParser-instance(subclasses included),False-otherwise[{d['kind']}]", result is is_ap)
    ctx.oblige("post", f"accepted=>the-inner-parser-is-not-the-parser-it-is-added-to[{d['kind']}]", "this parser" not in d["kind"])
    ctx.oblige("frame", f"nothing-is-modified[{d['kind']}]", not ctx.mutlog)


def iv_raises(ctx, st, exc):
    d = st.data
    ctx.oblige("raises", f"refused=>ValueError-for-a-parser-added-to-itself[{d['kind']}]", exc.cls == "ValueError" and exc.origin.startswith("raise@") and "this parser" in d["kind"])


# ================================================================================================ ActionYesNo
def _re_sub_prefix(c, a, k):
    """re.sub('^' + literal, repl, text) for a literal without regex metacharacters: a leading `literal` of text is replaced by repl."""
    pat, repl, text = lift(a[0]), lift(a[1]), lift(a[2])
    c.oblige("pre", "re.sub-pattern-is-anchored('^' + literal)", z3.PrefixOf(S_("^"), pat))
    lit = z3.SubString(pat, 1, z3.Length(pat) - 1)
    return z3.If(z3.PrefixOf(lit, text), z3.Concat(repl, z3.SubString(text, z3.Length(lit), z3.Length(text) - z3.Length(lit))), text)


def yn_prefixes(ctx, with_none=True):
    yes = [z3.String("yes_prefix"), ""][ctx.choose(2, "yes_prefix:any-string/empty")]
    no = [z3.String("no_prefix"), "no_", None][ctx.choose(3 if with_none else 2, "no_prefix:any-string/'no_'/None")]
    return yes, no


def ydp_setup(ctx):
    yes, no = yn_prefixes(ctx)
    name, prefix, dest = z3.String("name"), z3.String("prefix"), z3.String("dest")
    opts = [z3.Concat(S_("--"), lift(yes), name)] + ([z3.Concat(S_("--"), lift(no), name)] if no is not None else [])
    self = Rec("ActionYesNo", attrs={"_yes_prefix": yes, "_no_prefix": no, "dest": dest, "option_strings": list(opts), "default": False, "nargs": 0})
    return Setup(env={"self": self, "prefix": prefix}, calls={"re.sub": _re_sub_prefix}, data=dict(yes=yes, no=no, name=name, prefix=prefix, dest=dest, self=self, opts=opts),
                 watch={"name": name, "prefix": prefix})


def ydp_post(ctx, st, result):
    d = st.data
    a = d["self"].attrs
    tag = f"[yes_prefix:{'any' if is_z3(d['yes']) else repr(d['yes'])},no_prefix:{'any' if is_z3(d['no']) else repr(d['no'])}]"
    ctx.oblige("post", "dest'==prefix+'.'+dest" + tag, lift(a["dest"]) == z3.Concat(d["prefix"], S_("."), d["dest"]), strings=True)
    os_ = a["option_strings"]
    ok_len = isinstance(os_, list) and len(os_) == len(d["opts"])
    ctx.oblige("post", "the-number-of-option-strings-is-unchanged" + tag, ok_len)
    if ok_len:
        ctx.oblige("post", "yes-option'=='--'+yes_prefix+prefix+'.'+name" + tag, lift(os_[0]) == z3.Concat(S_("--"), lift(d["yes"]), d["prefix"], S_("."), d["name"]), strings=True)
        if d["no"] is not None:
            ctx.oblige("post", "no-option'=='--'+no_prefix+prefix+'.'+name" + tag, lift(os_[-1]) == z3.Concat(S_("--"), lift(d["no"]), d["prefix"], S_("."), d["name"]), strings=True)
    ctx.oblige("frame", "prefixes,default-and-nargs-are-kept" + tag, a["_yes_prefix"] is d["yes"] and a["_no_prefix"] is d["no"] and a["default"] is False and a["nargs"] == 0 and set(a) == {"_yes_prefix", "_no_prefix", "dest", "option_strings", "default", "nargs"})


def yc_setup(ctx):
    yes, no = yn_prefixes(ctx)
    mode = ctx.choose(2, "called-by-argparse/as-a-factory")
    self = Rec("ActionYesNo", attrs={"_yes_prefix": yes, "_no_prefix": no, "dest": "flag"})
    writes = []
    ns = Rec("Namespace", methods={"__setattr__": lambda c, s_, a, k: writes.append((a[0], a[1]))})
    parser = Rec("ArgumentParser", attrs={"tag": "p"})
    if mode == 1:
        kwargs = {"option_strings": ["--flag"], "dest": "flag", "nargs": "?"}
        made = []
        calls = {"ActionYesNo": lambda c, a, k: (made.append((a, dict(k))), Rec("ActionYesNo", attrs={"made": True}))[1]}
        return Setup(env={"self": self, "args": (), "kwargs": kwargs}, calls=calls, data=dict(mode=mode, yes=yes, no=no, self=self, made=made))
    name = z3.String("name")
    which = ["yes-option", "no-option"][ctx.choose(2 if no is not None else 1, "option-used")]
    opt = z3.Concat(S_("--"), lift(yes if which == "yes-option" else no), name)
    vk = ctx.choose(3, "value:explicit-bool/[](nargs=0)/None('?' without a value)")
    value = [z3.Bool("explicit"), [], None][vk]
    return Setup(env={"self": self, "args": (parser, ns, value, opt), "kwargs": {}}, data=dict(mode=mode, yes=yes, no=no, self=self, which=which, opt=opt, value=value, writes=writes, parser=parser, name=name),
                 watch={"name": name, "option_string": opt})


def yc_post(ctx, st, result):
    d = st.data
    tag = f"[yes_prefix:{'any' if is_z3(d['yes']) else repr(d['yes'])},no_prefix:{'any' if is_z3(d['no']) else repr(d['no'])}]"
    a = d["self"].attrs
    ctx.oblige("frame", "the-action-itself-is-not-modified" + tag, a["_yes_prefix"] is d["yes"] and a["_no_prefix"] is d["no"] and a["dest"] == "flag" and len(a) == 3)
    if d["mode"] == 1:
        ok = len(d["made"]) == 1 and d["made"][0][0] == () and result is not None and isinstance(result, Rec) and result.attrs.get("made") is True
        ctx.oblige("post", "factory:returns-a-new-ActionYesNo-built-from-the-declaration-keywords" + tag, ok)
        if ok:
            kw = d["made"][0][1]
            ctx.oblige("post", "factory:the-configured-prefixes-reach-the-real-action(yes as yes,no as no)" + tag, kw.get("_yes_prefix", "missing") is d["yes"] and kw.get("_no_prefix", "missing") is d["no"])
            ctx.oblige("post", "factory:the-declaration-keywords-are-passed-on-unchanged" + tag, {k: v for k, v in kw.items() if not k.startswith("_")} == {"option_strings": ["--flag"], "dest": "flag", "nargs": "?"})
        return
    tag += f"[{d['which']},value:{'bool' if is_z3(d['value']) else d['value']!r}]"
    w = d["writes"]
    ctx.oblige("frame", "exactly-one-write:namespace.<dest>;the-parser-is-not-touched" + tag, len(w) == 1 and w[0][0] == "flag" and d["parser"].attrs == {"tag": "p"} and result is None)
    if len(w) != 1:
        return
    given = d["value"] if is_z3(d["value"]) else z3.BoolVal(True)
    got = lift(w[0][1]) if isinstance(w[0][1], bool) or is_z3(w[0][1]) else None
    if got is None or got.sort() != z3.BoolSort():
        ctx.oblige("post", "a-boolean-is-stored" + tag, False)
        return
    if d["which"] == "no-option":
        ctx.oblige("post", "the-no-option-stores-False(the negation of an explicit value)" + tag, got == z3.Not(given), strings=True)
    else:
        # (a yes option that itself starts with '--' + no_prefix - `--no_thing` declared as the option - is taken for the no option: observed, reproduced natively;
        #  a degenerate declaration outside every listed property's quantifier, recorded as an observation in DESIGN.md)
        if d["no"] is None:
            ctx.oblige("post", "the-yes-option-stores-True(an explicit value as given)" + tag, got == given, strings=True)
        if d["no"] is not None:
            ctx.oblige("post", "the-yes-option-stores-True(an explicit value as given)-provided-it-does-not-itself-start-with-'--'+no_prefix" + tag,
                       z3.Implies(z3.Not(z3.PrefixOf(z3.Concat(S_("--"), lift(d["no"])), d["opt"])), got == given), strings=True)


BOOLEAN_TYPE = Rec("function ActionYesNo._boolean_type")


def yi_setup(ctx):
    mode = ctx.choose(2, "declared-with-keywords/configured-as-a-factory")
    self = Rec("ActionYesNo")
    inited = []
    calls = {"re.sub": _re_sub_prefix, "super": lambda c, a, k: Rec("super()", methods={"__init__": lambda c2, s2, a2, k2: inited.append((a2, dict(k2)))})}
    consts = {"ActionYesNo._boolean_type": BOOLEAN_TYPE}
    if mode == 1:
        yes, no = yn_prefixes(ctx)
        return Setup(env={"self": self, "yes_prefix": yes, "no_prefix": no, "kwargs": {}}, calls=calls, consts=consts, data=dict(mode=mode, yes=yes, no=no, self=self, inited=inited))
    yes_given = ctx.choose(2, "_yes_prefix-keyword-present") == 1
    no_given = ctx.choose(2, "_no_prefix-keyword-present") == 1
    yes, no = yn_prefixes(ctx) if (yes_given and no_given) else ((z3.String("yes_prefix") if yes_given else ""), ([z3.String("no_prefix"), None][ctx.choose(2, "no_prefix:any/None")] if no_given else "no_"))
    positional = ctx.choose(2, "positional") == 1
    opt = z3.String("option")
    nargs = ["absent", 1, "?", 0, "+", 2][ctx.choose(6, "nargs")]
    default = [None, Rec("default")][ctx.choose(2, "default-given")]
    opts = [] if positional else [opt]
    kwargs = {"option_strings": opts, "dest": "flag"}
    if yes_given:
        kwargs["_yes_prefix"] = yes
    if no_given:
        kwargs["_no_prefix"] = no
    if nargs != "absent":
        kwargs["nargs"] = nargs
    if default is not None:
        kwargs["default"] = default
    return Setup(env={"self": self, "kwargs": kwargs}, calls=calls, consts=consts,
                 data=dict(mode=mode, yes=yes, no=no, self=self, inited=inited, positional=positional, opt=opt, nargs=nargs, default=default, kwargs=kwargs), watch={"option": opt})


def _same(a, b):
    return a == b if isinstance(a, str) and isinstance(b, str) else a is b


def _yi_tag(d):
    t = f"[yes_prefix:{'any' if is_z3(d['yes']) else repr(d['yes'])},no_prefix:{'any' if is_z3(d['no']) else repr(d['no'])}"
    if d["mode"] == 0:
        t += f",{'positional' if d['positional'] else 'option'},nargs:{d['nargs']},default:{'given' if d['default'] is not None else 'absent'}"
    return t + "]"


def yi_post(ctx, st, result):
    d = st.data
    tag = _yi_tag(d)
    a = d["self"].attrs
    ctx.oblige("post", "the-prefixes-given-are-the-prefixes-kept(yes as yes,no as no;defaults '' and 'no_')" + tag, _same(a.get("_yes_prefix", "missing"), d["yes"]) and _same(a.get("_no_prefix", "missing"), d["no"]))
    if d["mode"] == 1:
        ctx.oblige("post", "configuring-the-factory-declares-nothing(no argparse initialisation)" + tag, d["inited"] == [] and set(a) == {"_yes_prefix", "_no_prefix"})
        return
    ctx.oblige("post", "accepted=>not-a-positional" + tag, not d["positional"])
    ctx.oblige("post", "accepted=>the-option-starts-with-'--'+yes_prefix" + tag, z3.PrefixOf(z3.Concat(S_("--"), lift(d["yes"])), d["opt"]), strings=True)
    ctx.oblige("post", "accepted=>with-no_prefix=None-a-given-nargs-is-1" + tag, d["no"] is not None or d["nargs"] in ("absent", 1))
    ok = len(d["inited"]) == 1 and d["inited"][0][0] == ()
    ctx.oblige("post", "argparse's-initialiser-runs-once-with-keywords-only" + tag, ok)
    if not ok:
        return
    kw = d["inited"][0][1]
    os_ = kw.get("option_strings")
    if d["no"] is None:
        ctx.oblige("post", "no_prefix=None:the-option-strings-are-the-declared-one-only" + tag, isinstance(os_, list) and len(os_) == 1 and os_[0] is d["opt"])
    else:
        ok2 = isinstance(os_, list) and len(os_) == 2 and os_[0] is d["opt"]
        ctx.oblige("post", "the-option-strings-are-[the declared yes option, the no option]" + tag, ok2)
        if ok2:
            pre = z3.Concat(S_("--"), lift(d["yes"]))
            rest = z3.SubString(d["opt"], z3.Length(pre), z3.Length(d["opt"]) - z3.Length(pre))
            ctx.oblige("post", "no-option=='--'+no_prefix+(the option name after '--'+yes_prefix)" + tag, lift(os_[1]) == z3.Concat(S_("--"), lift(d["no"]), rest), strings=True)
    want_nargs = {"absent": 0, 1: None, "?": "?"}.get(d["nargs"], "at-most-one")
    got = kw.get("nargs", "missing")
    ctx.oblige("post", "nargs:absent->0(a flag),1->one-value(None),'?'->kept;never-more-than-one-value" + tag, (got in (0, None, "?") and not isinstance(got, bool)) if want_nargs == "at-most-one" else (got == want_nargs and type(got) is type(want_nargs)))
    ctx.oblige("post", "metavar-names-the-accepted-words-exactly-when-a-value-is-taken" + tag, kw.get("metavar", "missing") == ("{true,yes,false,no}" if d["nargs"] in (1, "?") else None))
    ctx.oblige("post", "default-is-False-unless-one-is-given" + tag, (kw.get("default", "missing") is False) if d["default"] is None else (kw.get("default") is d["default"]))
    ctx.oblige("post", "values-are-checked-by-the-boolean-checker;dest-kept;the-private-keywords-do-not-reach-argparse" + tag,
               kw.get("type") is BOOLEAN_TYPE and kw.get("dest") == "flag" and not any(k.startswith("_") for k in kw) and set(kw) <= {"option_strings", "dest", "nargs", "metavar", "default", "type"})


def yi_raises(ctx, st, exc):
    d = st.data
    tag = _yi_tag(d)
    if exc.cls != "ValueError" or not exc.origin.startswith("raise@") or d["mode"] == 1:
        ctx.oblige("raises", f"only-ValueError(got {exc.cls}@{exc.origin})" + tag, False)
        return
    bad_prefix = z3.Not(z3.PrefixOf(z3.Concat(S_("--"), lift(d["yes"])), d["opt"]))
    ctx.oblige("raises", "refused=>positional,or-the-option-lacks-'--'+yes_prefix,or-no_prefix=None-with-nargs-other-than-1" + tag,
               z3.Or(z3.BoolVal(d["positional"]), bad_prefix, z3.BoolVal(d["no"] is None and d["nargs"] not in ("absent", 1))), strings=True)
    ctx.oblige("frame", "refused=>argparse's-initialiser-did-not-run" + tag, d["inited"] == [])


LOWER = z3.Function("py.str.lower", z3.StringSort(), z3.StringSort())
BT_VALUES = ["any-string", "any-bool", "any-int", "None", "float", "list", "True", "tRuE", "YES", "No", "FALSE", "", "1", "on", " true", "truee"]


def bt_setup(ctx, via_check_type=False):
    kind = BT_VALUES[ctx.choose(len(BT_VALUES), "value")]
    x = {"any-string": z3.String("x"), "any-bool": z3.Bool("b"), "any-int": z3.Int("n"), "None": None, "float": 1.0, "list": ["true"]}.get(kind, kind)
    # str.lower: CPython's own for a concrete string, an uninterpreted function of the string for a symbolic one (the contract is stated through it)
    calls = {"x.lower": lambda c, a, k: x.lower() if isinstance(x, str) else LOWER(x)}
    return Setup(env={"x": x}, calls=calls, data=dict(kind=kind, x=x), watch={"x": x} if is_z3(x) else {})


def _bt_low(d):
    x = d["x"]
    if isinstance(x, str):
        return S_(x.lower())
    if is_z3(x) and x.sort() == z3.StringSort():
        return LOWER(x)
    return None


def bt_post(ctx, st, result):
    d = st.data
    tag = f"[{d['kind']}]"
    low = _bt_low(d)
    x = d["x"]
    if low is not None:
        ok_t = z3.Or(low == S_("true"), low == S_("yes"))
        ok_f = z3.Or(low == S_("false"), low == S_("no"))
        r = lift(result) if isinstance(result, bool) or (is_z3(result) and result.sort() == z3.BoolSort()) else None
        ctx.oblige("post", "a-text-is-accepted-only-as-true|yes|false|no(any case)" + tag, z3.Or(ok_t, ok_f) if r is not None else False, strings=True)
        if r is not None:
            ctx.oblige("post", "true|yes->True,false|no->False" + tag, z3.And(z3.Implies(ok_t, r), z3.Implies(ok_f, z3.Not(r))), strings=True)
    else:
        ctx.oblige("post", "a-non-text-is-accepted-only-if-it-is-a-bool,and-returned-as-it-is" + tag, d["kind"] == "any-bool" and result is x)


def bt_raises(ctx, st, exc):
    d = st.data
    tag = f"[{d['kind']}]"
    low = _bt_low(d)
    ctx.oblige("raises", f"only-TypeError(got {exc.cls}@{exc.origin})" + tag, exc.cls == "TypeError" and exc.origin.startswith("raise@"))
    if low is not None:
        ctx.oblige("raises", "a-text-is-refused-only-if-it-is-none-of-true|yes|false|no(any case)" + tag, z3.And(*[low != S_(w) for w in ("true", "yes", "false", "no")]), strings=True)
    else:
        ctx.oblige("raises", "a-non-text-is-refused-only-if-it-is-no-bool" + tag, d["kind"] != "any-bool")


def yct_setup(ctx):
    value = Rec("value")
    outcome = ctx.choose(2, "checker-accepts/refuses")
    res = Rec("checked")
    seen = []

    def checker(c, a, k):
        seen.append((a, dict(k)))
        if outcome == 1:
            raise PyRaise(ExcVal("TypeError", origin="_boolean_type"))
        return res

    self = Rec("ActionYesNo", attrs={"dest": "flag"})
    return Setup(env={"self": self, "value": value}, calls={"ActionYesNo._boolean_type": checker, "self._boolean_type": checker}, data=dict(value=value, res=res, seen=seen, outcome=outcome))


def yct_post(ctx, st, result):
    d = st.data
    ctx.oblige("post", "the-result-of-the-boolean-checker-for-exactly-the-value-given", result is d["res"] and len(d["seen"]) == 1 and len(d["seen"][0][0]) == 1 and d["seen"][0][0][0] is d["value"] and d["seen"][0][1] == {} and d["outcome"] == 0)


def yct_raises(ctx, st, exc):
    d = st.data
    ctx.oblige("raises", f"only-the-checker's-TypeError(got {exc.cls}@{exc.origin})", exc.cls == "TypeError" and exc.origin == "_boolean_type" and d["outcome"] == 1)


# ================================================================================================ ActionConfigFile
def _super_init(inited):
    return lambda c, a, k: Rec("super()", methods={"__init__": lambda c2, s2, a2, k2: inited.append((a2, dict(k2)))})


def cf_setup(ctx):
    shape = ["one-option", "two-options", "positional"][ctx.choose(3, "option-strings")]
    has_default = ctx.choose(2, "default-given") == 1
    has_help = ctx.choose(2, "help-given") == 1
    o1, o2 = z3.String("opt1"), z3.String("opt2")
    opts = {"one-option": [o1], "two-options": [o1, o2], "positional": []}[shape]
    kwargs = {"option_strings": list(opts), "dest": "cfg"}
    if has_default:
        kwargs["default"] = Rec("default")
    if has_help:
        kwargs["help"] = "my help"
    inited = []

    def sde(c, a, k):
        raise PyRaise(ExcVal("ValueError", origin="set_default_error"))

    return Setup(env={"self": Rec("ActionConfigFile"), "kwargs": kwargs}, calls={"super": _super_init(inited), "self.set_default_error": sde},
                 data=dict(shape=shape, has_default=has_default, has_help=has_help, opts=opts, inited=inited), watch={"opt1": o1, "opt2": o2})


def _cf_naming(d):
    """The option that names the dest (argparse: the first long option, the only option otherwise) - None if there is none."""
    o = d["opts"]
    if d["shape"] == "one-option":
        return [(True, o[0])]
    if d["shape"] == "two-options":
        l1 = z3.PrefixOf(S_("--"), o[0])
        l2 = z3.PrefixOf(S_("--"), o[1])
        return [(l1, o[0]), (z3.And(z3.Not(l1), l2), o[1])]
    return []


def cf_post(ctx, st, result):
    d = st.data
    tag = f"[{d['shape']},default:{d['has_default']},help:{d['has_help']}]"
    ctx.oblige("post", "accepted=>no-default-was-given" + tag, not d["has_default"])
    ctx.oblige("post", "accepted=>an-option-(not a positional)-whose-dest-naming-option-string-has-no-dot(a top level option)" + tag,
               z3.Or(*[z3.And(zc, z3.Not(z3.Contains(o, S_(".")))) for zc, o in [(z3.BoolVal(c) if isinstance(c, bool) else c, o) for c, o in _cf_naming(d)]]) if _cf_naming(d) else False, strings=True)
    ok = len(d["inited"]) == 1 and d["inited"][0][0] == ()
    ctx.oblige("post", "argparse's-initialiser-runs-once-with-keywords-only" + tag, ok)
    if ok:
        kw = d["inited"][0][1]
        ctx.oblige("post", "the-declaration-is-passed-on-unchanged;a-help-text-is-supplied-only-when-none-was-given" + tag,
                   set(kw) == {"option_strings", "dest", "help"} and kw["dest"] == "cfg" and len(kw["option_strings"]) == len(d["opts"]) and all(x is y for x, y in zip(kw["option_strings"], d["opts"]))
                   and (kw["help"] == "my help" if d["has_help"] else isinstance(kw["help"], str) and kw["help"] != ""))


def cf_raises(ctx, st, exc):
    d = st.data
    tag = f"[{d['shape']},default:{d['has_default']},help:{d['has_help']}]"
    # a positional, or several option strings none of which is a long one, ends in IndexError: at *declaration* time, which C03 (parse methods) does not cover -
    # observed, reproduced natively, recorded as an observation in DESIGN.md; the clause is that a refusal is an exception of the declaration and nothing is registered
    ctx.oblige("raises", f"a-declaration-is-refused-with-ValueError(or the IndexError of a config option without a long option string)(got {exc.cls}@{exc.origin})" + tag, exc.cls in ("ValueError", "IndexError"))
    if exc.cls == "ValueError":
        dotted = [z3.And(z3.BoolVal(c) if isinstance(c, bool) else c, z3.Contains(o, S_("."))) for c, o in _cf_naming(d)]
        ctx.oblige("raises", "refused=>a-default-was-given-or-the-dest-naming-option-has-a-dot" + tag, z3.Or(z3.BoolVal(d["has_default"] and exc.origin == "set_default_error"), *dotted), strings=True)
        ctx.oblige("frame", "refused=>argparse's-initialiser-did-not-run" + tag, d["inited"] == [])


def cfc_setup(ctx):
    outcome = ctx.choose(2, "apply_config-succeeds/fails")
    seen = []
    parser, cfg, values = Rec("ArgumentParser", attrs={"t": 1}), Rec("Namespace", attrs={"t": 2}), z3.String("value")
    dest = z3.String("dest")
    self = Rec("ActionConfigFile", attrs={"dest": dest})

    def apply_config(c, a, k):
        seen.append((a, dict(k)))
        if outcome == 1:
            raise PyRaise(ExcVal("TypeError", origin="apply_config"))
        return None

    with_opt = ctx.choose(2, "option_string-given") == 1
    env = {"self": self, "parser": parser, "cfg": cfg, "values": values}
    if with_opt:
        env["option_string"] = "--cfg"
    return Setup(env=env, calls={"self.apply_config": apply_config, "ActionConfigFile.apply_config": apply_config}, data=dict(seen=seen, parser=parser, cfg=cfg, values=values, dest=dest, self=self, outcome=outcome))


def _cfc_common(ctx, d):
    s_ = d["seen"]
    ctx.oblige("post", "the-config-is-applied-once-with-(the parser in use, the namespace being filled, the action's own dest, the value given)",
               len(s_) == 1 and s_[0][1] == {} and len(s_[0][0]) == 4 and s_[0][0][0] is d["parser"] and s_[0][0][1] is d["cfg"] and s_[0][0][2] is d["dest"] and s_[0][0][3] is d["values"])
    ctx.oblige("frame", "the-action-writes-nothing-itself(parser, namespace and action as they were)", d["parser"].attrs == {"t": 1} and d["cfg"].attrs == {"t": 2} and d["self"].attrs == {"dest": d["dest"]} and not ctx.mutlog)


def cfc_post(ctx, st, result):
    _cfc_common(ctx, st.data)
    ctx.oblige("post", "returns-nothing;a-normal-return-means-apply_config-succeeded", result is None and st.data["outcome"] == 0)


def cfc_raises(ctx, st, exc):
    _cfc_common(ctx, st.data)
    ctx.oblige("raises", f"only-the-TypeError-of-apply_config(got {exc.cls}@{exc.origin})", exc.cls == "TypeError" and exc.origin == "apply_config" and st.data["outcome"] == 1)


def sde_post(ctx, st, result):
    ctx.oblige("post", "a-default-for-a-config-argument-is-never-accepted(always raises)", False)


def sde_raises(ctx, st, exc):
    ctx.oblige("raises", f"ValueError(got {exc.cls})", exc.cls == "ValueError" and exc.origin.startswith("raise@"))


ESC_ACTIONS = ["any-string", "'config'", "class ActionConfigFile", "class MyConfigFile", "class ActionYesNo", "ActionParser instance", "None"]
ESC_MEMBERS = ["ActionTypeHint", "ActionConfigFile", "MyConfigFile", "_HelpAction"]


def esc_setup(ctx):
    _classes(ctx)
    kind = ESC_ACTIONS[ctx.choose(len(ESC_ACTIONS), "action")]
    n = ctx.choose(3, "declared-actions")
    members = [Rec(ESC_MEMBERS[ctx.choose(len(ESC_MEMBERS), f"declared[{i}]")], attrs={"dest": f"d{i}"}) for i in range(n)]
    action = {"any-string": z3.String("action"), "'config'": "config", "class ActionConfigFile": ClassRef("ActionConfigFile"), "class MyConfigFile": ClassRef("MyConfigFile"),
              "class ActionYesNo": ClassRef("ActionYesNo"), "ActionParser instance": Rec("ActionParser", attrs={}), "None": None}[kind]

    def is_subclass(c, a, k):
        ok = isinstance(a[0], ClassRef) and isinstance(a[1], ClassRef) and c.classes.is_subclass(a[0].name, a[1].name)
        c.event("is_subclass", a[1].name if isinstance(a[1], ClassRef) else a[1])
        return ok

    container = Rec("ArgumentParser", attrs={"_actions": list(members)})
    return Setup(env={"container": container, "action": action}, calls={"is_subclass": is_subclass}, data=dict(kind=kind, members=members, action=action, container=container), watch={"action": action} if is_z3(action) else {})


def _esc_facts(d):
    has = any(m.cls in ("ActionConfigFile", "MyConfigFile") for m in d["members"])
    a = d["action"]
    is_cfg = (a == S_("config")) if is_z3(a) else z3.BoolVal(d["kind"] in ("'config'", "class ActionConfigFile", "class MyConfigFile"))
    return has, is_cfg, f"[{d['kind']};declared:{','.join(m.cls for m in d['members']) or 'none'}]"


def esc_post(ctx, st, result):
    has, is_cfg, tag = _esc_facts(st.data)
    ctx.oblige("post", "accepted=>not(a config argument is being added to a container that already has one)" + tag, z3.Not(z3.And(is_cfg, z3.BoolVal(has))), strings=True)
    ctx.oblige("frame", "nothing-is-modified" + tag, not ctx.mutlog and len(st.data["container"].attrs["_actions"]) == len(st.data["members"]))


def esc_raises(ctx, st, exc):
    has, is_cfg, tag = _esc_facts(st.data)
    ctx.oblige("raises", "refused=>ValueError,and-a-second-config-argument-(action='config' or an ActionConfigFile class)-was-being-added" + tag,
               z3.And(z3.BoolVal(exc.cls == "ValueError" and exc.origin.startswith("raise@") and has), is_cfg), strings=True)


APC_ACTIONS = ["ActionConfigFile", "MyConfigFile", "ActionTypeHint", "_ActionConfigLoad"]
APC_NAMES = ["attribute-missing", None, "--print_config", "--print_%s", "--%s.print"]


def apc_setup(ctx):
    _classes(ctx)
    kind = APC_ACTIONS[ctx.choose(len(APC_ACTIONS), "action-just-added")]
    name = APC_NAMES[ctx.choose(len(APC_NAMES), "print_config-name")]
    added = []
    attrs = {"_actions": []}
    if name != "attribute-missing":
        attrs["_print_config"] = name
    container = Rec("ArgumentParser", attrs=attrs, methods={"add_argument": lambda c, s_, a, k: added.append((a, dict(k)))})
    action = Rec(kind, attrs={"dest": "conf"})
    return Setup(env={"container": container, "action": action}, data=dict(kind=kind, name=name, added=added, container=container, action=action))


def apc_post(ctx, st, result):
    d = st.data
    tag = f"[{d['kind']},{d['name']}]"
    wanted = d["kind"] in ("ActionConfigFile", "MyConfigFile") and d["name"] not in ("attribute-missing", None)
    if not wanted:
        ctx.oblige("post", "no-print-config-option-without-a-config-argument-or-when-disabled(None)" + tag, d["added"] == [] and d["container"].attrs.get("_print_config", "attribute-missing") == d["name"])
    else:
        final = d["name"].replace("%s", "conf")
        ok = len(d["added"]) == 1 and d["added"][0][0] == (final,) and set(d["added"][0][1]) == {"action"} and isinstance(d["added"][0][1]["action"], ClassRef) and d["added"][0][1]["action"].name == "_ActionPrintConfig"
        ctx.oblige("post", "exactly-one-print-config-option-is-declared,named-as-configured-with-%s-replaced-by-the-config-argument's-dest,with-the-print-config-action" + tag, ok)
        ctx.oblige("post", "the-container-remembers-the-final-option-name(parse_known_args recognises it by that name)" + tag, d["container"].attrs.get("_print_config") == final)
    ctx.oblige("frame", "the-action-just-added-is-not-modified" + tag, d["action"].attrs == {"dest": "conf"})


# ================================================================================================ _ActionConfigLoad
SUPPRESS = "==SUPPRESS=="


def cl_setup(ctx):
    mode = ctx.choose(2, "declared-with-keywords/configured-as-a-factory")
    inited = []
    self = Rec("_ActionConfigLoad")
    bt = Rec("basetype")
    calls = {"super": _super_init(inited)}
    consts = {"SUPPRESS": SUPPRESS, "default_config_option_help": "help text"}
    if mode == 1:
        given = ctx.choose(2, "basetype-given") == 1
        env = {"self": self, "kwargs": {}}
        if given:
            env["basetype"] = bt
        return Setup(env=env, calls=calls, consts=consts, data=dict(mode=mode, self=self, inited=inited, bt=bt if given else None))
    with_bt = ctx.choose(2, "_basetype-keyword-present") == 1
    opt = z3.String("option")
    kwargs = {"option_strings": [opt], "dest": "group"}
    if with_bt:
        kwargs["_basetype"] = bt
    return Setup(env={"self": self, "kwargs": kwargs}, calls=calls, consts=consts, data=dict(mode=mode, self=self, inited=inited, bt=bt if with_bt else None, opt=opt))


def cl_post(ctx, st, result):
    d = st.data
    a = d["self"].attrs
    if d["mode"] == 1:
        ctx.oblige("post", "factory:keeps-the-base-type-and-declares-nothing", d["inited"] == [] and set(a) == {"_basetype"} and a["_basetype"] is d["bt"])
        return
    ok = len(d["inited"]) == 1 and d["inited"][0][0] == ()
    ctx.oblige("post", "argparse's-initialiser-runs-once-with-keywords-only", ok)
    if ok:
        kw = d["inited"][0][1]
        ctx.oblige("post", "the-whole-group-option-has-no-default-of-its-own(SUPPRESS:the group's values come from its members)", kw.get("default", "missing") == SUPPRESS)
        ctx.oblige("post", "option-strings-and-dest-are-passed-on;the-private-keyword-does-not-reach-argparse", set(kw) == {"option_strings", "dest", "metavar", "help", "default"} and kw["dest"] == "group" and len(kw["option_strings"]) == 1 and kw["option_strings"][0] is d["opt"])
    ctx.oblige("post", "the-base-type-handed-over-by-the-factory-is-kept", a.get("basetype", a.get("_basetype", "missing")) is d["bt"])


def clc_setup(ctx):
    outcome = ctx.choose(2, "_load_config-succeeds/fails")
    seen = []
    res, value, parser = Rec("loaded"), z3.String("value"), Rec("ArgumentParser", attrs={"t": 1})

    def load(c, a, k):
        seen.append((a, dict(k)))
        if outcome == 1:
            raise PyRaise(ExcVal("TypeError", origin="_load_config"))
        return res

    self = Rec("_ActionConfigLoad", attrs={"dest": "group"})
    return Setup(env={"self": self, "value": value, "parser": parser}, calls={"self._load_config": load}, data=dict(seen=seen, res=res, value=value, parser=parser, outcome=outcome, self=self))


def _clc_common(ctx, d):
    s_ = d["seen"]
    args = list(s_[0][0]) if len(s_) == 1 else []
    kw = s_[0][1] if len(s_) == 1 else {}
    val = args[0] if args else kw.get("value")
    par = args[1] if len(args) > 1 else kw.get("parser")
    ctx.oblige("post", "the-value-is-loaded-once-as-a-config-of-this-group,with-the-parser-given", len(s_) == 1 and val is d["value"] and par is d["parser"] and len(args) + len(kw) == 2)
    ctx.oblige("frame", "nothing-is-written(action and parser as they were)", d["self"].attrs == {"dest": "group"} and d["parser"].attrs == {"t": 1})


def clc_post(ctx, st, result):
    _clc_common(ctx, st.data)
    ctx.oblige("post", "returns-the-loaded-config", result is st.data["res"] and st.data["outcome"] == 0)


def clc_raises(ctx, st, exc):
    _clc_common(ctx, st.data)
    ctx.oblige("raises", f"an-invalid-value-is-refused-with-the-TypeError-of-_load_config-only(got {exc.cls}@{exc.origin})", exc.cls == "TypeError" and exc.origin == "_load_config" and st.data["outcome"] == 1)


# ================================================================================================ Action._check_type_
CT_ACCEPTS = [(), ("cfg",), ("append", "cfg"), ("cfg", "append", "prev_val")]
CT_GIVEN = [(), ("cfg",), ("append",), ("append", "cfg")]


def ct_setup(ctx):
    accepts = CT_ACCEPTS[ctx.choose(len(CT_ACCEPTS), "keywords-the-checker-accepts")]
    given = CT_GIVEN[ctx.choose(len(CT_GIVEN), "keywords-given")]
    cached = ctx.choose(2, "signature-already-cached") == 1
    outcome = ctx.choose(3, "checker:accepts/TypeError/ValueError")
    value, res = Rec("value"), Rec("checked-value")
    vals = {"cfg": Rec("cfg"), "append": z3.Bool("append")}
    seen, sigs = [], []

    def checker(c, s_, a, k):
        seen.append((a, dict(k)))
        if outcome:
            raise PyRaise(ExcVal(["", "TypeError", "ValueError"][outcome], origin="_check_type"))
        return res

    def signature(c, a, k):
        sigs.append(a)
        return Rec("Signature", attrs={"parameters": Rec("mappingproxy", methods={"keys": lambda c2, s2, a2, k2: ["value"] + list(accepts)})})

    self = Rec("ActionTypeHint", attrs={"dest": "x"}, methods={"_check_type": checker})
    if cached:
        self.attrs["_check_type_kwargs"] = set(("value",) + accepts)
    return Setup(env={"self": self, "value": value, "kwargs": {g: vals[g] for g in given}}, calls={"inspect.signature": signature},
                 data=dict(accepts=accepts, given=given, cached=cached, outcome=outcome, value=value, res=res, vals=vals, seen=seen, self=self))


def _ct_common(ctx, d):
    tag = f"[accepts:{','.join(d['accepts']) or 'none'};given:{','.join(d['given']) or 'none'};{'cached' if d['cached'] else 'first call'}]"
    s_ = d["seen"]
    ctx.oblige("post", "the-checker-runs-once-on-exactly-the-value-given(only positional argument)" + tag, len(s_) == 1 and len(s_[0][0]) == 1 and s_[0][0][0] is d["value"])
    if len(s_) == 1:
        want = {g: d["vals"][g] for g in d["given"] if g in d["accepts"]}
        kw = s_[0][1]
        ctx.oblige("post", "it-gets-exactly-the-given-keywords-it-accepts(none it does not know,none dropped),with-their-values" + tag, set(kw) == set(want) and all(kw[g] is want[g] for g in want))
    a = d["self"].attrs
    ctx.oblige("frame", "only-the-signature-cache-is-written-on-the-action,and-it-holds-the-checker's-parameter-names" + tag,
               set(a) == {"dest", "_check_type_kwargs"} and a["dest"] == "x" and a["_check_type_kwargs"] == set(("value",) + d["accepts"]))
    return tag


def ct_post(ctx, st, result):
    tag = _ct_common(ctx, st.data)
    ctx.oblige("post", "returns-what-the-checker-returns" + tag, result is st.data["res"] and st.data["outcome"] == 0)


def ct_raises(ctx, st, exc):
    d = st.data
    tag = _ct_common(ctx, d)
    ctx.oblige("raises", f"only-the-checker's-own-TypeError/ValueError(got {exc.cls}@{exc.origin})" + tag, d["outcome"] != 0 and exc.cls == ["", "TypeError", "ValueError"][d["outcome"]] and exc.origin == "_check_type")


# ================================================================================================ _ActionPrintConfig
def pci_setup(ctx):
    inited = []
    opts = [z3.String("option")]
    given = ctx.choose(2, "dest/default-left-to-their-defaults/given-by-argparse") == 1
    env = {"self": Rec("_ActionPrintConfig"), "option_strings": opts}
    if given:
        env.update({"dest": SUPPRESS, "default": SUPPRESS})
    return Setup(env=env, calls={"super": _super_init(inited)}, consts={"SUPPRESS": SUPPRESS}, data=dict(inited=inited, opts=opts))


def pci_post(ctx, st, result):
    d = st.data
    ok = len(d["inited"]) == 1 and d["inited"][0][0] == ()
    ctx.oblige("post", "argparse's-initialiser-runs-once-with-keywords-only", ok)
    if ok:
        kw = d["inited"][0][1]
        ctx.oblige("post", "the-option-never-writes-to-the-namespace:dest-and-default-are-suppressed", kw.get("dest") == SUPPRESS and kw.get("default") == SUPPRESS)
        ctx.oblige("post", "the-declared-option-strings;exactly-one-value(the flags)", kw.get("option_strings") is d["opts"] and kw.get("nargs") == 1 and type(kw.get("nargs")) is int)
        ctx.oblige("post", "no-type/choices/required-are-imposed", set(kw) == {"option_strings", "dest", "default", "nargs", "metavar", "help"})


def pcr_setup(ctx):
    depth = 1 + ctx.choose(3, "ancestors")
    mask = ctx.choose(2 ** depth, "which-hold-a-request")
    chain = []
    for i in range(depth):
        attrs = {"tag": i}
        if mask >> i & 1:
            attrs["print_config"] = {"key": None}
        chain.append(Rec("ArgumentParser", attrs=attrs))
    for i in range(depth - 1):
        chain[i].attrs["parent_parser"] = chain[i + 1]
    none_root = ctx.choose(2, "root-has-parent_parser=None") == 1
    if none_root:
        chain[-1].attrs["parent_parser"] = None
    snap = [dict(p.attrs) for p in chain]
    return Setup(env={"parser": chain[0]}, data=dict(chain=chain, mask=mask, depth=depth, snap=snap))


def pcr_post(ctx, st, result):
    d = st.data
    tag = f"[depth {d['depth']},requests {d['mask']:b}]"
    ctx.oblige("post", "true-exactly-when-the-parser-or-one-of-its-ancestors-holds-a-pending-request" + tag, result is (d["mask"] != 0))
    ctx.oblige("frame", "no-parser-is-modified(the request stays where it is)" + tag, [dict(p.attrs) for p in d["chain"]] == d["snap"] and not ctx.mutlog)


# ================================================================================================ _ActionHelpClassPath
def hi_setup(ctx):
    mode = ctx.choose(2, "declared-with-keywords/configured-as-a-factory")
    inited, updated = [], []
    th = Rec("typehint")
    self = Rec("_ActionHelpClassPath")
    calls = {"super": _super_init(inited)}

    def update(c, a, k):
        updated.append((a[0], dict(a[0])))
        a[0]["nargs"] = "?"
        a[0]["default"] = SUPPRESS

    calls["self.update_init_kwargs"] = update
    if mode == 1:
        return Setup(env={"self": self, "typehint": th, "kwargs": {}}, calls=calls, data=dict(mode=mode, th=th, self=self, inited=inited, updated=updated))
    opt = z3.String("option")
    kwargs = {"option_strings": [opt], "dest": "model.help", "_typehint": th}
    return Setup(env={"self": self, "kwargs": kwargs}, calls=calls, data=dict(mode=mode, th=th, self=self, inited=inited, updated=updated, opt=opt, kwargs=kwargs))


def hi_post(ctx, st, result):
    d = st.data
    a = d["self"].attrs
    ctx.oblige("post", "the-type-hint-given-is-kept", a.get("_typehint") is d["th"] and set(a) == {"_typehint"})
    if d["mode"] == 1:
        ctx.oblige("post", "factory:declares-nothing", d["inited"] == [] and d["updated"] == [])
        return
    ok = len(d["inited"]) == 1 and d["inited"][0][0] == () and len(d["updated"]) == 1
    ctx.oblige("post", "the-keywords-are-completed-once,then-argparse's-initialiser-runs-once-with-them", ok)
    if ok:
        kw = d["inited"][0][1]
        ctx.oblige("post", "the-completed-keywords-reach-argparse(default suppressed: the help option stores nothing);the-private-keyword-does-not", kw.get("default") == SUPPRESS and kw.get("nargs") == "?" and "_typehint" not in kw and "_typehint" not in d["updated"][0][1]
                   and kw.get("dest") == "model.help" and kw.get("option_strings")[0] is d["opt"] and set(kw) == {"option_strings", "dest", "nargs", "default"})


def hc_setup(ctx):
    _classes(ctx)
    ctx.classes.add("MyHelpClassPath", ["_ActionHelpClassPath"])
    cls = ["_ActionHelpClassPath", "MyHelpClassPath"][ctx.choose(2, "class-of-the-action")]
    mode = ctx.choose(2, "called-by-argparse/as-a-factory")
    th = Rec("typehint")
    self = Rec(cls, attrs={"_typehint": th, "dest": "model.help"})
    made, printed = [], []
    outcome = ctx.choose(3, "print_help:exits/ArgumentError/TypeError") if mode == 0 else 0

    def ctor(name):
        return lambda c, a, k: (made.append((name, a, dict(k))), Rec(name, attrs={"made": True}))[1]

    def print_help(c, a, k):
        printed.append((a, dict(k)))
        raise PyRaise(ExcVal(["SystemExit", "ArgumentError", "TypeError"][outcome], origin="print_help"))

    calls = {"_ActionHelpClassPath": ctor("_ActionHelpClassPath"), "MyHelpClassPath": ctor("MyHelpClassPath"), "self.print_help": print_help}
    parser, ns = Rec("ArgumentParser", attrs={"args": ["--model.help", "X"]}), Rec("Namespace", attrs={})
    if mode == 1:
        kwargs = {"option_strings": ["--model.help"], "dest": "model.help"}
        return Setup(env={"self": self, "args": (), "kwargs": kwargs}, calls=calls, data=dict(mode=mode, cls=cls, th=th, self=self, made=made, printed=printed))
    args = (parser, ns, "X", "--model.help")
    return Setup(env={"self": self, "args": args, "kwargs": {}}, calls=calls, data=dict(mode=mode, cls=cls, th=th, self=self, made=made, printed=printed, args=args, parser=parser, ns=ns, outcome=outcome))


def _hc_frame(ctx, d):
    ctx.oblige("frame", "the-action-is-not-modified", d["self"].attrs == {"_typehint": d["th"], "dest": "model.help"} and d["self"].attrs["_typehint"] is d["th"])


def hc_post(ctx, st, result):
    d = st.data
    _hc_frame(ctx, d)
    if d["mode"] == 0:
        ctx.oblige("post", "a-call-by-argparse-ends-the-way-print_help-ends(it never returns)", False)
        return
    ok = len(d["made"]) == 1 and d["made"][0][1] == () and isinstance(result, Rec) and result.attrs.get("made") is True
    ctx.oblige("post", "factory:returns-one-new-action", ok and d["printed"] == [])
    if ok:
        name, _, kw = d["made"][0]
        ctx.oblige("post", f"factory:of-the-same-class-as-the-configured-one[{d['cls']}]", name == d["cls"])
        ctx.oblige("post", "factory:with-the-declaration-keywords-unchanged-plus-the-configured-type-hint", kw.get("_typehint") is d["th"] and {k: v for k, v in kw.items() if k != "_typehint"} == {"option_strings": ["--model.help"], "dest": "model.help"})


def hc_raises(ctx, st, exc):
    d = st.data
    _hc_frame(ctx, d)
    if d["mode"] == 1:
        ctx.oblige("raises", f"factory:no-exception(got {exc.cls}@{exc.origin})", False)
        return
    p = d["printed"]
    ctx.oblige("post", "the-help-is-produced-once-from-exactly-argparse's-call-arguments(parser, namespace, value, option string)",
               len(p) == 1 and p[0][1] == {} and len(p[0][0]) == 1 and isinstance(p[0][0][0], tuple) and len(p[0][0][0]) == 4 and all(x is y for x, y in zip(p[0][0][0], d["args"])) and d["made"] == [])
    ctx.oblige("raises", f"only-what-print_help-raises(got {exc.cls}@{exc.origin})", exc.origin == "print_help" and exc.cls == ["SystemExit", "ArgumentError", "TypeError"][d["outcome"]])
    ctx.oblige("frame", "__call__-itself-writes-nothing-on-the-parser-or-the-namespace", d["parser"].attrs == {"args": ["--model.help", "X"]} and d["ns"].attrs == {} and not ctx.mutlog)


UNION = Rec("typing.Union")


def hu_setup(ctx):
    is_union = ctx.choose(2, "type-hint-is-a-Union") == 1
    nbases = 1 + ctx.choose(2, "base-classes")
    protos = ctx.choose(2 ** nbases, "which-bases-are-protocols")
    th = Rec("typehint", attrs={"t": 1})
    inner = Rec("typehint-without-Optional", attrs={"t": 2})
    bases = tuple(Rec(f"class Base{i}", attrs={"protocol": bool(protos >> i & 1)}) for i in range(nbases))
    log = []

    def rec(name, fn):
        def m(c, a, k):
            log.append((name, a, dict(k)))
            return fn(a, k)
        return m

    calls = {
        "get_optional_arg": rec("get_optional_arg", lambda a, k: inner if a[0] is th else Rec("?")),
        "get_unaliased_type": rec("get_unaliased_type", lambda a, k: a[0]),
        "get_typehint_origin": rec("get_typehint_origin", lambda a, k: UNION if (is_union and a[0] is inner) else Rec("origin")),
        "get_subclass_names": rec("get_subclass_names", lambda a, k: ("Base0", "Base1")[:nbases]),
        "get_subclass_types": rec("get_subclass_types", lambda a, k: bases if a[0] is inner else ()),
        "iter_to_set_str": rec("iter_to_set_str", lambda a, k: "{" + ",".join(a[0]) + "}"),
        "is_protocol": rec("is_protocol", lambda a, k: a[0].attrs["protocol"]),
    }
    opt = z3.String("option")
    kwargs = {"option_strings": [opt], "dest": "model.help"}
    self = Rec("_ActionHelpClassPath", attrs={"_typehint": th})
    return Setup(env={"self": self, "kwargs": kwargs}, calls=calls, consts={"Union": UNION, "SUPPRESS": SUPPRESS},
                 data=dict(is_union=is_union, nbases=nbases, protos=protos, th=th, inner=inner, bases=bases, kwargs=kwargs, self=self, opt=opt, log=log))


def hu_post(ctx, st, result):
    d = st.data
    kw, a = d["kwargs"], d["self"].attrs
    tag = f"[{'Union' if d['is_union'] else 'single type'},{d['nbases']} bases,protocols {d['protos']:b}]"
    ctx.oblige("post", "the-help-option-stores-nothing:default-suppressed" + tag, kw.get("default") == SUPPRESS)
    ctx.oblige("post", "the-class-name-is-optional-for-a-single-type(nargs '?'),required-for-a-Union(nargs untouched)" + tag, kw.get("nargs", "absent") == ("absent" if d["is_union"] else "?"))
    ctx.oblige("post", "the-declaration-keywords-are-kept;only-nargs,metavar,default,help-are-added" + tag,
               kw.get("dest") == "model.help" and isinstance(kw.get("option_strings"), list) and len(kw["option_strings"]) == 1 and kw["option_strings"][0] is d["opt"] and set(kw) - {"nargs"} == {"option_strings", "dest", "metavar", "default", "help"})
    ctx.oblige("post", "the-accepted-base-classes-are-those-of-the-type-hint-without-Optional" + tag, a.get("_baseclasses") is d["bases"])
    ctx.oblige("post", "the-wording-names-protocols-exactly-when-a-base-is-one" + tag, a.get("_kind") == ("subclass or implementer of protocol" if d["protos"] else "subclass of"))
    ctx.oblige("frame", "only-_basename/_baseclasses/_kind-are-written-on-the-action;the-type-hints-are-not-modified" + tag,
               set(a) == {"_typehint", "_basename", "_baseclasses", "_kind"} and a["_typehint"] is d["th"] and d["th"].attrs == {"t": 1} and d["inner"].attrs == {"t": 2} and all(set(b.attrs) == {"protocol"} for b in d["bases"]))


GA_OPT = "--model.help"
GA_FAMILY = [GA_OPT, GA_OPT + "=Cls", GA_OPT + "=a=b", GA_OPT + "=", GA_OPT + "x", GA_OPT + "x=1", "--other=" + GA_OPT, "word", "=", ""]


def ga_setup(ctx):
    """Symbolic strings for a one-argument command line; longer command lines (up to 3 arguments) over a family of concrete spellings around the option
    (the symbolic version of the longer lines needs minutes of string solving)."""
    if ctx.choose(2, "symbolic-one-argument-line/concrete-family") == 0:
        opt = z3.String("opt")
        form = ["--opt=Class", "--opt Class"][ctx.choose(2, "form")]
        ctx.assume(z3.Not(z3.Contains(opt, S_("="))))
        args = [z3.Concat(opt, S_("="), z3.String("class-name")) if form == "--opt=Class" else opt]
        want = []
    else:
        opt = GA_OPT
        n = 1 + ctx.choose(3, "argv-length")
        args = [GA_FAMILY[ctx.choose(len(GA_FAMILY), f"arg{i}")] for i in range(n)]
        hits = [i for i, a in enumerate(args) if a == opt or a.startswith(opt + "=")]
        if not hits:
            ctx.assume(False)  # the function is called from the option's own action: the option occurs on the command line
        i = hits[0]
        want = args[i + 1:] if args[i] != opt else args[i + 2:]
    self = Rec("_ActionHelpClassPath", attrs={"option_strings": [opt], "dest": "model.help"})
    given = list(args)
    return Setup(env={"self": self, "args": given}, data=dict(opt=opt, args=args, given=given, self=self, want=want), watch={"opt": opt} if is_z3(opt) else {})


def ga_post(ctx, st, result):
    d = st.data
    tag = f"[{'symbolic' if is_z3(d['opt']) else d['args']}]"
    want = d["want"]
    ctx.oblige("post", "exactly-the-arguments-after-the-first-use-of-the-help-option-(and after its value when given separately),in-order" + tag,
               isinstance(result, list) and len(result) == len(want) and all(x is y or (isinstance(x, str) and x == y) for x, y in zip(result, want)))
    ctx.oblige("frame", "the-parser's-argument-list-is-not-modified(a new list is returned)" + tag, result is not d["given"] and len(d["given"]) == len(d["args"]) and all(x is y for x, y in zip(d["given"], d["args"])) and not ctx.mutlog)


# ================================================================================================ _ActionSubCommands.add_parser / parse_kwargs_context
def addp_setup(ctx):
    with_kw = ctx.choose(2, "keywords-given") == 1
    name = z3.String("name")
    self = Rec("_ActionSubCommands", attrs={"_name_parser_map": {}, "_choices_actions": [], "dest": "subcommand"})
    return Setup(env={"self": self, "name": name, "kwargs": {"help": "h", "aliases": ("x",)} if with_kw else {}}, data=dict(self=self))


def addp_post(ctx, st, result):
    ctx.oblige("post", "argparse's-way-of-adding-a-subcommand-is-never-accepted(always raises)", False)


def addp_raises(ctx, st, exc):
    a = st.data["self"].attrs
    ctx.oblige("raises", f"NotImplementedError(got {exc.cls})", exc.cls == "NotImplementedError" and exc.origin.startswith("raise@"))
    ctx.oblige("frame", "no-parser-is-created-or-registered", a["_name_parser_map"] == {} and a["_choices_actions"] == [] and set(a) == {"_name_parser_map", "_choices_actions", "dest"})


def pkc_unit(prop):
    from contracts.ctxvars import cm_unit
    new = Rec("new-parse-keywords")
    # parse_kwargs is the one context variable that is set and never reset. C09's reduction covers it differently (DESIGN 5/C09): its only reader,
    # _ActionSubCommands.__call__, runs inside parse_args' own `with parse_kwargs_context(...)`, i.e. after the set of the same call; every other function that
    # reads it is refuted by the `no-read-of-parse_kwargs` clause of its unit (handle_subcommands). The clauses kept here: the value inside the body, one yield.
    from contracts.share import without_clauses
    u = cm_unit(prop, A + "_ActionSubCommands.parse_kwargs_context", ["parse_kwargs"], lambda ctx, vs: {"kwargs": new}, lambda vs, env: {"parse_kwargs": new})
    return without_clauses(u, prop, ("normal-exit:every-context-variable-is-restored", "exception-from-the-body:every-context-variable-is-restored"), "set-only")


# ================================================================================================ _common: optionals as positionals
OP_KINDS = {  # kind -> (class, nargs, has option strings, subclass-typed, eligible as an optional)
    "option": ("ActionTypeHint", None, True, False, True), "option-nargs-1": ("_StoreAction", 1, True, False, True), "option-nargs-?": ("ActionTypeHint", "?", True, False, False),
    "option-nargs-+": ("ActionTypeHint", "+", True, False, False), "flag-nargs-0": ("ActionYesNo", 0, True, False, False), "positional": ("ActionTypeHint", None, False, False, "positional"),
    "help": ("_HelpAction", 0, True, False, False), "print-config": ("_ActionPrintConfig", 1, True, False, False), "config-file": ("ActionConfigFile", None, True, False, False),
    "group-loader": ("_ActionConfigLoad", None, True, False, False), "completion": ("ShtabAction", None, True, False, False), "subclass-typed": ("ActionTypeHint", None, True, True, False),
}


def op_setup(ctx):
    from pyvc.engine import Closure, Env
    from pyvc.units import find_function
    _classes(ctx)
    include = [None, False, True][ctx.choose(3, "include_positionals:default/False/True")]
    n = ctx.choose(3, "declared-actions")
    kinds = [list(OP_KINDS)[ctx.choose(len(OP_KINDS), f"action[{i}]")] for i in range(n)]
    acts = []
    for i, kd in enumerate(kinds):
        cls, nargs, has_opt, sub, _ = OP_KINDS[kd]
        acts.append(Rec(cls, attrs={"dest": f"d{i}", "nargs": nargs, "option_strings": [f"--d{i}"] if has_opt else [], "subclass-typed": sub}))
    parser = Rec("ArgumentParser", attrs={"_actions": list(acts)})
    fda = Closure(find_function("jsonargparse._actions", "filter_default_actions")[0], Env(), "filter_default_actions")
    calls = {"ActionTypeHint.is_subclass_typehint": lambda c, a, k: (c.event("subclass?", dict(k)), a[0].attrs["subclass-typed"])[1]}
    env = {"parser": parser}
    if include is not None:
        env["include_positionals"] = include
    snap = [(a, dict(a.attrs)) for a in acts]
    return Setup(env=env, calls=calls, consts={"filter_default_actions": fda}, data=dict(include=bool(include), kinds=kinds, acts=acts, parser=parser, snap=snap))


def op_post(ctx, st, result):
    d = st.data
    tag = f"[{','.join(d['kinds']) or 'none'};include_positionals={d['include']}]"
    want = [a for a, kd in zip(d["acts"], d["kinds"]) if OP_KINDS[kd][4] is True or (OP_KINDS[kd][4] == "positional" and d["include"])]
    ctx.oblige("post", "exactly-the-user-declared-options-that-take-one-value(not config/loader/completion/help/print-config,not subclass-typed;positionals only when asked),in-declaration-order" + tag,
               isinstance(result, list) and len(result) == len(want) and all(x is y for x, y in zip(result, want)))
    ctx.oblige("frame", "parser-and-actions-are-not-modified" + tag, len(d["parser"].attrs["_actions"]) == len(d["acts"]) and all(a.attrs == at for a, at in d["snap"]) and all(x is y for x, y in zip(d["parser"].attrs["_actions"], d["acts"])))


def sp_setup(ctx):
    setting = z3.Bool("parse_optionals_as_positionals")
    has_sub = ctx.choose(2, "parser-has-subcommands") == 1
    inner = ["attribute-missing", False, True][ctx.choose(3, "_inner_parser")]
    attrs = {"_subcommands_action": Rec("_ActionSubCommands") if has_sub else None}
    if inner != "attribute-missing":
        attrs["_inner_parser"] = inner
    asked = []
    parser = Rec("ArgumentParser", attrs=attrs)
    return Setup(env={"parser": parser}, calls={"get_parsing_setting": lambda c, a, k: (asked.append(a), setting if a == ("parse_optionals_as_positionals",) else z3.Bool("another-setting"))[1]},
                 data=dict(setting=setting, has_sub=has_sub, inner=inner, parser=parser, snap=dict(attrs)))


def sp_post(ctx, st, result):
    d = st.data
    tag = f"[subcommands:{d['has_sub']},_inner_parser:{d['inner']}]"
    r = result if isinstance(result, bool) or (is_z3(result) and result.sort() == z3.BoolSort()) else None
    ctx.oblige("post", "a-truth-value" + tag, r is not None)
    if r is not None:
        ctx.oblige("post", "supported-exactly-when-the-setting-is-on,the-parser-has-no-subcommands-and-is-not-an-inner-(class)-parser" + tag, lift(r) == z3.And(d["setting"], z3.BoolVal(not d["has_sub"] and d["inner"] is not True)))
    ctx.oblige("frame", "the-parser-is-not-modified" + tag, d["parser"].attrs == d["snap"])


def units(prop):
    out = [
        Unit(prop, A + "_find_action", fa_setup, fa_post, _no_exc, max_paths=20000,
             trusted=["str.split('.', 1) interpreted exactly by the engine", "_find_action_and_subcommand / filter_default_actions / split_key_root are interpreted from their real bodies (no contract assumed)",
                      "well-formed trees: no plain dest of a parser starts with one of its subcommand names + '.'"]),
        Unit(prop, A + "_find_parent_action", lambda ctx: fa_setup(ctx, parent=True), fpa_post, _no_exc, max_paths=20000,
             trusted=["keys with at most 3 dots", "str.split interpreted exactly by the engine", "all callees interpreted from their real bodies"]),
    ]
    out += [
        Unit(prop, A + "filter_default_actions", fd_setup, fd_post, _no_exc, trusted=["isinstance follows the class hierarchy of the sources"]),
        Unit(prop, A + "remove_actions", rm_setup, rm_post, _no_exc, max_paths=20000, trusted=["list.remove removes the first member equal to (here: identical with) the argument", "the nested remove() is interpreted as part of the unit"]),
    ]
    out += [
        Unit(prop, A + "ActionParser.__init__", ap_setup, ap_post, ap_raises, expect_cover=("return", "raise:ValueError"), trusted=["import_object('jsonargparse.ArgumentParser') is the jsonargparse ArgumentParser class"]),
        Unit(prop, A + "ActionParser._is_valid_action_parser", iv_setup, iv_post, iv_raises, expect_cover=("return", "raise:ValueError"), trusted=["parsers compare by identity (argparse defines no __eq__)"]),
        Unit(prop, A + "ActionYesNo._add_dest_prefix", ydp_setup, ydp_post, _no_exc, trusted=["re.sub('^' + literal, repl, text) replaces a leading literal (prefixes hold no regex metacharacters)"]),
        Unit(prop, A + "ActionYesNo.__call__", yc_setup, yc_post, _no_exc, trusted=["argparse calls the action with (parser, namespace, converted value, the option string used)", "setattr on the namespace stores under that name"]),
        Unit(prop, A + "ActionYesNo.__init__", yi_setup, yi_post, yi_raises, max_paths=20000, expect_cover=("return", "raise:ValueError"),
             trusted=["re.sub as above", "argparse.Action.__init__ (super()) stores the keywords it is given"]),
        Unit(prop, A + "ActionYesNo._boolean_type", bt_setup, bt_post, bt_raises, expect_cover=("return", "raise:TypeError"), trusted=["str.lower of a symbolic string is a function of the string (the clauses are stated through it); concrete strings use CPython's"]),
        Unit(prop, A + "ActionYesNo._check_type", yct_setup, yct_post, yct_raises, expect_cover=("return", "raise:TypeError"), trusted=["_boolean_type: its own unit"]),
    ]
    out += [
        Unit(prop, A + "ActionConfigFile.__init__", cf_setup, cf_post, cf_raises, expect_cover=("return", "raise:ValueError"),
             trusted=["argparse derives the dest from the first long option string (the only one otherwise)", "set_default_error: its own unit", "argparse.Action.__init__ (super()) stores the keywords"]),
        Unit(prop, A + "ActionConfigFile.__call__", cfc_setup, cfc_post, cfc_raises, expect_cover=("return", "raise:TypeError"), trusted=["apply_config: unit of C03/C04"]),
        Unit(prop, A + "ActionConfigFile.set_default_error", lambda ctx: Setup(env={}), sde_post, sde_raises, expect_cover=("raise:ValueError",)),
        Unit(prop, A + "ActionConfigFile._ensure_single_config_argument", esc_setup, esc_post, esc_raises, expect_cover=("return", "raise:ValueError"), max_paths=20000,
             trusted=["is_subclass(x, C): x is a class and a subclass of C (False for non-classes)"]),
        Unit(prop, A + "ActionConfigFile._add_print_config_argument", apc_setup, apc_post, _no_exc, trusted=["str % str substitutes the single %s", "print_config names start with '--' (documented form); another spelling fails the function's own assert"]),
        Unit(prop, A + "_ActionConfigLoad.__init__", cl_setup, cl_post, _no_exc, trusted=["argparse.Action.__init__ (super()) stores the keywords"]),
        Unit(prop, A + "_ActionConfigLoad.check_type", clc_setup, clc_post, clc_raises, expect_cover=("return", "raise:TypeError"), trusted=["_load_config raises TypeError only (it wraps loader errors itself)"]),
        Unit(prop, CM + "Action._check_type_", ct_setup, ct_post, ct_raises, max_paths=20000, expect_cover=("return", "raise:TypeError", "raise:ValueError"),
             trusted=["inspect.signature(f).parameters.keys() lists f's parameter names", "the checker's signature does not change between calls (the cache is per action)"]),
        Unit(prop, A + "_ActionPrintConfig.__init__", pci_setup, pci_post, _no_exc, trusted=["argparse.SUPPRESS as dest/default: nothing is stored in the namespace, no default is set"]),
        Unit(prop, A + "_ActionPrintConfig.is_print_config_requested", pcr_setup, pcr_post, _no_exc, trusted=["a sub-parser reaches its parent through parent_parser (set by add_subcommand)"]),
        Unit(prop, A + "_ActionHelpClassPath.__init__", hi_setup, hi_post, _no_exc, trusted=["update_init_kwargs: its own unit", "argparse.Action.__init__ (super()) stores the keywords"]),
        Unit(prop, A + "_ActionHelpClassPath.__call__", hc_setup, hc_post, hc_raises, expect_cover=("return", "raise:SystemExit", "raise:ArgumentError", "raise:TypeError"), trusted=["print_help: unit of C03 (never returns)"]),
        Unit(prop, A + "_ActionHelpClassPath.update_init_kwargs", hu_setup, hu_post, _no_exc,
             trusted=["the type-hint helpers (get_optional_arg, get_unaliased_type, get_typehint_origin, get_subclass_types/names, is_protocol) are pure", "nargs is not given for a subclass type (the function asserts it)", "at least one base class (asserted)"]),
        Unit(prop, A + "_ActionHelpClassPath.get_args_after_opt", ga_setup, ga_post, _no_exc, max_paths=20000,
             trusted=["the help option occurs in parser.args spelled out in full (it is called from that option's action; an abbreviated spelling is not recognised and yields [])", "option strings contain no '='"]),
        Unit(prop, A + "_ActionSubCommands.add_parser", addp_setup, addp_post, addp_raises, expect_cover=("raise:NotImplementedError",)),
        pkc_unit(prop),
        Unit(prop, CM + "get_optionals_as_positionals_actions", op_setup, op_post, _no_exc, max_paths=20000,
             trusted=["filter_default_actions interpreted from its real body", "ActionTypeHint.is_subclass_typehint(action, all_subtypes=False): the action's type is a class type"]),
        Unit(prop, CM + "supports_optionals_as_positionals", sp_setup, sp_post, _no_exc, trusted=["get_parsing_setting(name) returns the setting of that name"]),
    ]
    return out


CARRIES = {
    "C06": ["_find_action", "_find_parent_action", "filter_default_actions", "remove_actions", "get_optionals_as_positionals_actions", "supports_optionals_as_positionals"],
    "C07": ["ActionParser.__init__", "ActionParser._is_valid_action_parser", "ActionYesNo._add_dest_prefix", "_ActionConfigLoad.__init__"],
    "C09": ["ActionYesNo.__call__", "ActionYesNo.__init__", "ActionYesNo._boolean_type", "ActionYesNo._check_type", "ActionConfigFile.__call__", "_ActionPrintConfig.__init__",
            "_ActionPrintConfig.is_print_config_requested", "_ActionHelpClassPath.__init__", "_ActionHelpClassPath.__call__", "_ActionHelpClassPath.update_init_kwargs",
            "_ActionHelpClassPath.get_args_after_opt", "remove_actions", "_ActionSubCommands.parse_kwargs_context[set-only]"],
    "C03": ["ActionConfigFile.__init__", "ActionConfigFile.set_default_error", "ActionConfigFile._ensure_single_config_argument", "ActionConfigFile._add_print_config_argument",
            "_ActionConfigLoad.check_type", "Action._check_type_", "ActionYesNo._boolean_type", "ActionYesNo._check_type"],
    "C17": ["_ActionSubCommands.add_parser", "_ActionSubCommands.parse_kwargs_context[set-only]"],
    # a yes/no flag reads the same boolean from every channel: its text forms (any capitalisation, from the environment / --flag=TEXT / a quoted config value) as the native bool
    "C05": ["ActionYesNo._boolean_type", "ActionYesNo.__call__", "ActionYesNo._check_type"],
    "C02": ["Action._check_type_"],
}
