"""Small functions that several properties lean on (jsonargparse/_typehints.py, _actions.py).

adapt_classes_any: what an `Any`-typed option does with class specs inside a value: a spec is normalised, its init_args members are
  adapted first (not when instantiating), and the whole is handed to adapt_class_type with the caller's (serialize,
  instantiate_classes, sub_add_kwargs); a spec that adapt_class_type refuses comes back as the *original* value; lists and dicts are
  adapted element by element in place (same container), any other value is returned as it is.
ActionTypeHint.parse_argv_item: `--key.sub=value` is claimed for a typed parent action iff it starts with `--`, the part before the
  first `=` contains a dot, is not itself a declared option string, and the parent action found for it is typed; the pieces handed to
  argparse recompose the item.
is_subclass_spec: exactly dicts / Namespaces that hold class_path and nothing beyond class_path, init_args, dict_kwargs, __path__.
_is_action_value_list: a list-valued option is one with nargs '*', '+' or a non-zero integer.
"""
import z3

from pyvc.engine import ExcVal, PyRaise, Rec
from pyvc.units import Setup, Unit

VAL_KINDS = ["spec", "spec-with-init_args", "spec-refused", "list", "dict", "scalar", "none"]


def aca_setup(ctx):
    kind = VAL_KINDS[ctx.choose(len(VAL_KINDS), "value")]
    serialize = ctx.choose(2, "serialize") == 1
    instantiate = ctx.choose(2, "instantiate_classes") == 1
    sak = Rec("sub_add_kwargs")
    members = {"m": Rec("member m"), "n": Rec("member n")}
    init_args = Rec("Namespace(init_args)", attrs={"__dict__": members})
    init_args.methods["__setitem__"] = lambda c, s_, a, k: (c.event("init_args[]=", a[0], a[1]), members.__setitem__(a[0], a[1]))[0]
    init_args.methods["__bool__"] = lambda c, s_, a, k: True
    ns_store = {"class_path": "pkg.Cls"}
    if kind == "spec-with-init_args":
        ns_store["init_args"] = init_args
    as_ns = Rec("Namespace(spec)")
    as_ns.methods["get"] = lambda c, s_, a, k: ns_store.get(a[0])
    as_ns.methods["__setitem__"] = lambda c, s_, a, k: (c.event("spec[]=", a[0], a[1]), ns_store.__setitem__(a[0], a[1]))[0]
    orig_spec = Rec("dict(spec given)")
    elems = [Rec("elem0"), Rec("elem1")]
    if kind.startswith("spec"):
        val = orig_spec
    elif kind == "list":
        val = list(elems)
    elif kind == "dict":
        val = {"p": elems[0], "q": elems[1]}
    elif kind == "scalar":
        val = z3.Int("scalar")
    else:
        val = None

    def adapt_class_type(c, a, k):
        c.event("adapt_class_type", a[0], a[1], a[2], a[3], dict(members))
        if kind == "spec-refused":
            raise PyRaise(ExcVal(["ValueError", "TypeError", "ImportError", "KeyError"][c.choose(4, "refusal-class")], args=("no",), origin="adapt_class_type"))
        return ("adapted-spec", a[0])

    calls = {"is_subclass_spec": lambda c, a, k: a[0] is orig_spec, "subclass_spec_as_namespace": lambda c, a, k: (c.event("normalise", a[0]), as_ns)[1], "adapt_class_type": adapt_class_type,
             "adapt_classes_any": lambda c, a, k: (c.event("recursive", a[0], a[1], a[2], a[3]), ("adapted", a[0]))[1]}
    return Setup(env={"val": val, "serialize": serialize, "instantiate_classes": instantiate, "sub_add_kwargs": sak}, calls=calls,
                 data=dict(kind=kind, serialize=serialize, instantiate=instantiate, sak=sak, members=members, orig=dict(members), init_args=init_args, as_ns=as_ns, orig_spec=orig_spec, elems=elems, val=val, ns_store=ns_store))


def aca_post(ctx, st, result):
    d = st.data
    tag = f"[{d['kind']},serialize={d['serialize']},instantiate={d['instantiate']}]"
    ev = ctx.events
    rec = [e for e in ev if e[0] == "recursive"]
    settings_ok = all(e[2] is d["serialize"] and e[3] is d["instantiate"] and e[4] is d["sak"] for e in rec)
    k = d["kind"]
    if k.startswith("spec"):
        act = [e for e in ev if e[0] == "adapt_class_type"]
        ok = len(act) == 1 and act[0][1] is d["as_ns"] and act[0][2] is d["serialize"] and act[0][3] is d["instantiate"] and act[0][4] is d["sak"]
        ctx.oblige("post", "a-class-spec-is-normalised-and-handed-to-adapt_class_type-with-the-caller's-settings" + tag, ok and [e[1] for e in ev if e[0] == "normalise"] == [d["orig_spec"]])
        if k == "spec-with-init_args":
            if d["instantiate"]:
                ctx.oblige("post", "when-instantiating,the-members-are-left-to-the-class's-own-parser" + tag, not rec and len(act) == 1 and act[0][5] == d["orig"])
            else:
                want = {m: ("adapted", v) for m, v in d["orig"].items()}
                ctx.oblige("post", "every-init_args-member-is-adapted-first(same settings)-and-stored-back-before-the-class-is-checked" + tag,
                           settings_ok and [e[1] for e in rec] == list(d["orig"].values()) and len(act) == 1 and act[0][5] == want and d["ns_store"].get("init_args") is d["init_args"])
        if k == "spec-refused":
            ctx.oblige("post", "a-spec-that-the-class-check-refuses-comes-back-as-the-original-value(Any accepts it as plain data)" + tag, result is d["orig_spec"])
        else:
            ctx.oblige("post", "accepted-spec=>the-result-of-adapt_class_type" + tag, result == ("adapted-spec", d["as_ns"]))
    elif k == "list":
        ctx.oblige("post", "a-list-is-adapted-element-by-element,in-order,in-the-same-list" + tag,
                   settings_ok and result is d["val"] and [e[1] for e in rec] == d["elems"] and list(result) == [("adapted", x) for x in d["elems"]])
    elif k == "dict":
        ctx.oblige("post", "a-dict-is-adapted-value-by-value-under-the-same-keys,in-the-same-dict" + tag,
                   settings_ok and result is d["val"] and list(result.items()) == [("p", ("adapted", d["elems"][0])), ("q", ("adapted", d["elems"][1]))])
    else:
        ctx.oblige("post", "any-other-value-is-returned-as-it-is" + tag, result is d["val"] and not ev)


def adapt_classes_any_unit(prop):
    return Unit(prop, "jsonargparse._typehints:adapt_classes_any", aca_setup, aca_post, None, expect_cover=("return",),
                trusted=["is_subclass_spec: its own unit", "subclass_spec_as_namespace normalises the spec (C14 unit)", "adapt_class_type: unit of its own", "the recursive call by contract"])


# ------------------------------------------------------------------------------------- is_subclass_spec
KEYSETS = [("class_path",), ("class_path", "init_args"), ("class_path", "init_args", "dict_kwargs", "__path__"), ("class_path", "extra"), ("init_args",), (), ("class_path", "init_args", "Init_args")]


def iss_setup(ctx):
    container = ["dict", "Namespace", "list", "str", "None"][ctx.choose(5, "container")]
    keys = KEYSETS[ctx.choose(len(KEYSETS), "keys")] if container in ("dict", "Namespace") else ()
    ctx.classes.add("Namespace", [])
    if container == "dict":
        val = {k: z3.Int(f"v_{k}") for k in keys}
    elif container == "Namespace":
        store = {k: z3.Int(f"v_{k}") for k in keys}
        val = Rec("Namespace", attrs={"__dict__": store}, methods={"__contains__": lambda c, s_, a, k: a[0] in store})
    else:
        val = {"list": ["class_path"], "str": "class_path", "None": None}[container]
    return Setup(env={"val": val}, data=dict(container=container, keys=keys))


def iss_post(ctx, st, result):
    d = st.data
    want = d["container"] in ("dict", "Namespace") and "class_path" in d["keys"] and set(d["keys"]) <= {"class_path", "init_args", "dict_kwargs", "__path__"}
    ctx.oblige("post", f"a-class-spec-is-exactly-a-dict/Namespace-holding-class_path-and-nothing-beyond(class_path,init_args,dict_kwargs,__path__)[{d['container']},{d['keys']}]", result is want)


def is_subclass_spec_unit(prop):
    return Unit(prop, "jsonargparse._typehints:is_subclass_spec", iss_setup, iss_post, None, expect_cover=("return",))


# ------------------------------------------------------------------------------------- parse_argv_item
ITEMS = ["--a.b=1", "--a.b", "--a=1.5", "-a.b=1", "--a.b=c=d", "--a.b.c=", "pos.x", "--a.b+=3", "--opt.declared=2", "--=x.y", "--a"]


def pai_setup(ctx):
    item = ITEMS[ctx.choose(len(ITEMS), "argv-item")]
    parent = ["typed", "untyped", "none"][ctx.choose(3, "parent-action")]
    nret = [4, 3, 1][ctx.choose(3, "argparse-version(parse_optional_num_return)")]
    ctx.classes.add("ActionTypeHint", ["Action"])
    action = None if parent == "none" else Rec("ActionTypeHint", attrs={"_typehint": "List[int]"}) if parent == "typed" else Rec("Action", attrs={})
    parser = Rec("ArgumentParser", attrs={"_option_string_actions": {"--opt.declared": Rec("Action"), "--a": Rec("Action")}})
    calls = {"subclass_arg_parser.get": lambda c, a, k: parser, "_find_parent_action": lambda c, a, k: (c.event("fpa", a[0], a[1]), action)[1]}
    return Setup(env={"arg_string": item}, calls=calls, consts={"parse_optional_num_return": nret}, inline={"typehint_from_action": "jsonargparse._typehints:typehint_from_action"},
                 data=dict(item=item, parent=parent, nret=nret, action=action, parser=parser))


def pai_post(ctx, st, result):
    d = st.data
    item = d["item"]
    base, sep, expl = item.partition("=") if "=" in item else (item, None, None)
    eligible = item.startswith("--") and "." in base and base not in ("--opt.declared", "--a")
    ev = [e for e in ctx.events if e[0] == "fpa"]
    tag = f"[{item},{d['parent']},n={d['nret']}]"
    ctx.oblige("post", "the-parent-action-is-looked-up-only-for-a-dotted-long-option-that-is-not-itself-declared,by-its-key-without-the-dashes" + tag,
               (len(ev) == 1 and ev[0][1] is d["parser"] and ev[0][2] == base[2:]) if eligible else not ev)
    if eligible and d["parent"] == "typed":
        pieces = result[0] if d["nret"] == 1 and isinstance(result, list) and len(result) == 1 else result
        ok = isinstance(pieces, tuple) and pieces[0] is d["action"] and pieces[1] == base and pieces[-1] == expl and len(pieces) == (3 if d["nret"] == 3 else 4)
        if ok and len(pieces) == 4:
            ok = pieces[2] == sep
        ctx.oblige("post", "claimed-for-the-typed-parent:(action,option-part,[separator],value-part)-recompose-the-item-at-its-first-'='(shape as this argparse version expects)" + tag, ok, note=repr(result))
    else:
        ctx.oblige("post", "everything-else-is-left-to-argparse(None)" + tag, result is None)


def parse_argv_item_unit(prop):
    return Unit(prop, "jsonargparse._typehints:ActionTypeHint.parse_argv_item", pai_setup, pai_post, None, expect_cover=("return",),
                trusted=["_find_parent_action by contract (C06)", "subclass_arg_parser holds the parser that is parsing", "str.partition / startswith evaluated by CPython on the concrete items of the scenario"])


# ------------------------------------------------------------------------------------- _is_action_value_list
def avl_setup(ctx):
    kind = ["None", "?", "*", "+", "0", "int", "REMAINDER"][ctx.choose(7, "nargs")]
    n = z3.Int("nargs")
    nargs = {"None": None, "?": "?", "*": "*", "+": "+", "0": 0, "int": n, "REMAINDER": "..."}[kind]
    return Setup(env={"action": Rec("Action", attrs={"nargs": nargs})}, data=dict(kind=kind, n=n))


def avl_post(ctx, st, result):
    d = st.data
    if d["kind"] == "int":
        from pyvc.engine import lift
        ctx.oblige("post", "integer-nargs:list-valued-iff-non-zero", lift(result) == (d["n"] != 0))
    else:
        ctx.oblige("post", f"nargs={d['kind']}:list-valued-iff-'*'-or-'+'", result is (d["kind"] in ("*", "+")))


def is_action_value_list_unit(prop):
    return Unit(prop, "jsonargparse._actions:_is_action_value_list", avl_setup, avl_post, None, expect_cover=("return",))


UNITS = [adapt_classes_any_unit("C14"), is_subclass_spec_unit("C14"), parse_argv_item_unit("C14"), is_action_value_list_unit("C02")]


# ------------------------------------------------------------------------------------- get_all_subclass_paths.<locals>.add_subclasses
CLS_KINDS = ["public", "public-already-listed", "abstract", "private", "protocol", "local", "lazy-instance-class", "import-fails", "union-or-sequence-hint", "no-__subclasses__"]


def asc_setup(ctx):
    kind = CLS_KINDS[ctx.choose(len(CLS_KINDS), "class")]
    n_sub = ctx.choose(3, "n-subclasses")
    subs = [Rec(f"class Sub{i}") for i in range(n_sub)]
    path = {"private": "pkg._mod.Cls"}.get(kind, "pkg.mod.Cls")
    cl = Rec("class Cls", attrs={"__qualname__": "f.<locals>.Cls" if kind == "local" else "Cls"})
    if kind == "union-or-sequence-hint":
        cl.attrs["__args__"] = tuple(subs)
    elif kind != "no-__subclasses__":
        cl.methods["__subclasses__"] = lambda c, s_, a, k: list(subs)
    listed = ["pkg.mod.Earlier"] + ([path] if kind == "public-already-listed" else [])

    def get_import_path(c, a, k):
        if kind == "import-fails":
            raise PyRaise(ExcVal(["ImportError", "AttributeError"][c.choose(2, "import-error-class")], args=("no",), origin="get_import_path"))
        return path

    calls = {"get_typehint_origin": lambda c, a, k: "list-origin" if kind == "union-or-sequence-hint" else None, "get_import_path": get_import_path,
             "is_local": lambda c, a, k: ".<locals>." in a[0].attrs["__qualname__"], "is_private": lambda c, a, k: "._" in a[0],
             "is_subclass": lambda c, a, k: kind == "lazy-instance-class", "inspect.isabstract": lambda c, a, k: kind == "abstract", "is_protocol": lambda c, a, k: kind == "protocol",
             "add_subclasses": lambda c, a, k: c.event("visit", a[0]), "warning": lambda c, a, k: None}
    consts = {"sequence_origin_types": {"list-origin", "tuple-origin"}, "Union": "Union-origin", "LazyInitBaseClass": Rec("class LazyInitBaseClass")}
    return Setup(env={"cl": cl, "subclass_list": listed}, calls=calls, consts=consts, data=dict(kind=kind, subs=subs, path=path, listed=listed, before=list(listed)))


def asc_post(ctx, st, result):
    d = st.data
    k = d["kind"]
    tag = f"[{k},{len(d['subs'])} subclasses]"
    visited = [e[1] for e in ctx.events if e[0] == "visit"]
    all_subs = len(visited) == len(d["subs"]) and all(x is y for x, y in zip(visited, d["subs"]))
    if k == "union-or-sequence-hint":
        ctx.oblige("post", "a-Union/sequence-hint-lists-nothing-itself-and-descends-into-every-member" + tag, d["listed"] == d["before"] and all_subs)
    elif k in ("import-fails", "local", "lazy-instance-class"):
        ctx.oblige("post", "a-class-that-cannot-be-imported-by-path(or is local / a lazy-instance class)-is-not-listed-and-nothing-below-it-is-reached-through-it" + tag, d["listed"] == d["before"] and not visited)
    elif k in ("abstract", "private", "protocol"):
        ctx.oblige("post", "an-abstract/private/protocol-class-is-not-offered-itself,but-the-classes-derived-from-it-are-still-reached(every subclass visited,in order)" + tag, d["listed"] == d["before"] and all_subs)
    elif k == "public-already-listed":
        ctx.oblige("post", "a-class-listed-before-is-not-listed-twice(its subclasses were reached then)" + tag, d["listed"] == d["before"] and not visited)
    elif k == "no-__subclasses__":
        ctx.oblige("post", "an-object-without-__subclasses__-is-listed-by-its-path-and-has-nothing-below" + tag, d["listed"] == d["before"] + [d["path"]] and not visited)
    else:
        ctx.oblige("post", "a-public-concrete-class-is-appended-by-its-import-path,then-every-subclass-is-visited-in-order" + tag, d["listed"] == d["before"] + [d["path"]] and all_subs)


def add_subclasses_unit(prop):
    return Unit(prop, "jsonargparse._typehints:get_all_subclass_paths.<locals>.add_subclasses", asc_setup, asc_post, None, expect_cover=("return",),
                trusted=["get_import_path: its own unit (C14)", "inspect.isabstract / is_protocol / is_subclass / cl.__subclasses__() as documented (A4)", "the recursive call by contract"])


UNITS.append(add_subclasses_unit("C14"))
