"""Small functions that several properties lean on (jsonargparse/_typehints.py, _actions.py).

adapt_classes_any: what an `Any`-typed option does with class specs inside a value: a spec is normalised, its init_args members are
  adapted first (not when instantiating), and the whole is handed to adapt_class_type with the caller's (serialize,
  instantiate_classes, sub_add_kwargs); a spec that adapt_class_type refuses comes back as the *original* value; lists and dicts are
  adapted element by element in place (same container), any other value is returned as it is.
ActionTypeHint.parse_argv_item: `--key.sub=value` is claimed for a typed parent action iff it starts with `--`, the part before the
  first `=` contains a dot, is not itself a declared option string, and the parent action found for it is typed; the pieces handed to
  argparse recompose the item.
is_subclass_spec: exactly dicts / Namespaces that hold class_path and nothing beyond class_path, init_args, dict_kwargs, __path__.
_is_action_value_list: a list-valued option is one with nargs '*', '+' or a non-zero integer.
"""
import z3

from pyvc.engine import ClassRef, ExcVal, PyRaise, Rec, is_z3
from pyvc.units import Setup, Unit

VAL_KINDS = ["spec", "spec-with-init_args", "spec-with-init_args-that-is-no-mapping", "spec-refused", "list", "dict", "scalar", "none"]


def aca_setup(ctx):
    kind = VAL_KINDS[ctx.choose(len(VAL_KINDS), "value")]
    serialize = ctx.choose(2, "serialize") == 1
    instantiate = ctx.choose(2, "instantiate_classes") == 1
    sak = Rec("sub_add_kwargs")
    members = {"m": Rec("member m"), "n": Rec("member n")}
    init_args = Rec("Namespace(init_args)", attrs={"__dict__": members})
    init_args.methods["__setitem__"] = lambda c, s_, a, k: (c.event("init_args[]=", a[0], a[1]), members.__setitem__(a[0], a[1]))[0]
    init_args.methods["__bool__"] = lambda c, s_, a, k: True
    ns_store = {"class_path": "pkg.Cls"}
    ctx.classes.add("Namespace", [])
    init_args.cls = "Namespace"
    if kind == "spec-with-init_args":
        ns_store["init_args"] = init_args
    elif kind == "spec-with-init_args-that-is-no-mapping":
        ns_store["init_args"] = 4  # {"class_path": ..., "init_args": 4}: data that merely looks like a spec
    as_ns = Rec("Namespace(spec)")
    as_ns.methods["get"] = lambda c, s_, a, k: ns_store.get(a[0])
    as_ns.methods["__setitem__"] = lambda c, s_, a, k: (c.event("spec[]=", a[0], a[1]), ns_store.__setitem__(a[0], a[1]))[0]
    orig_spec = Rec("dict(spec given)")
    elems = [Rec("elem0"), Rec("elem1")]
    if kind.startswith("spec"):
        val = orig_spec
    elif kind == "list":
        val = list(elems)
    elif kind == "dict":
        val = {"p": elems[0], "q": elems[1]}
    elif kind == "scalar":
        val = z3.Int("scalar")
    else:
        val = None

    def adapt_class_type(c, a, k):
        c.event("adapt_class_type", a[0], a[1], a[2], a[3], dict(members))
        if kind in ("spec-refused", "spec-with-init_args-that-is-no-mapping"):
            raise PyRaise(ExcVal(["ValueError", "TypeError", "ImportError", "KeyError"][c.choose(4, "refusal-class")], args=("no",), origin="adapt_class_type"))
        return ("adapted-spec", a[0])

    calls = {"is_subclass_spec": lambda c, a, k: a[0] is orig_spec, "subclass_spec_as_namespace": lambda c, a, k: (c.event("normalise", a[0]), as_ns)[1], "adapt_class_type": adapt_class_type,
             "adapt_classes_any": lambda c, a, k: (c.event("recursive", a[0], a[1], a[2], a[3]), ("adapted", a[0]))[1]}
    return Setup(env={"val": val, "serialize": serialize, "instantiate_classes": instantiate, "sub_add_kwargs": sak}, calls=calls, consts={"Namespace": ClassRef("Namespace")},
                 data=dict(kind=kind, serialize=serialize, instantiate=instantiate, sak=sak, members=members, orig=dict(members), init_args=init_args, as_ns=as_ns, orig_spec=orig_spec, elems=elems, val=val, ns_store=ns_store))


def aca_post(ctx, st, result):
    d = st.data
    tag = f"[{d['kind']},serialize={d['serialize']},instantiate={d['instantiate']}]"
    ev = ctx.events
    rec = [e for e in ev if e[0] == "recursive"]
    settings_ok = all(e[2] is d["serialize"] and e[3] is d["instantiate"] and e[4] is d["sak"] for e in rec)
    k = d["kind"]
    if k.startswith("spec"):
        act = [e for e in ev if e[0] == "adapt_class_type"]
        ok = len(act) == 1 and act[0][1] is d["as_ns"] and act[0][2] is d["serialize"] and act[0][3] is d["instantiate"] and act[0][4] is d["sak"]
        ctx.oblige("post", "a-class-spec-is-normalised-and-handed-to-adapt_class_type-with-the-caller's-settings" + tag, ok and [e[1] for e in ev if e[0] == "normalise"] == [d["orig_spec"]])
        if k == "spec-with-init_args":
            if d["instantiate"]:
                ctx.oblige("post", "when-instantiating,the-members-are-left-to-the-class's-own-parser" + tag, not rec and len(act) == 1 and act[0][5] == d["orig"])
            else:
                want = {m: ("adapted", v) for m, v in d["orig"].items()}
                ctx.oblige("post", "every-init_args-member-is-adapted-first(same settings)-and-stored-back-before-the-class-is-checked" + tag,
                           settings_ok and [e[1] for e in rec] == list(d["orig"].values()) and len(act) == 1 and act[0][5] == want and d["ns_store"].get("init_args") is d["init_args"])
        if k in ("spec-refused", "spec-with-init_args-that-is-no-mapping"):
            ctx.oblige("post", "a-spec-that-the-class-check-refuses(also one whose init_args is not a mapping)-comes-back-as-the-original-value(Any accepts it as plain data)" + tag, result is d["orig_spec"] and not rec)
        else:
            ctx.oblige("post", "accepted-spec=>the-result-of-adapt_class_type" + tag, result == ("adapted-spec", d["as_ns"]))
    elif k == "list":
        # (the first version of these two clauses said "in the same list / dict": copied from the body. The statement - C08 - asks that what the caller gave is not
        #  modified; the top-level copy of the parse methods does not reach into an OrderedDict, so the function itself must not write into its argument.)
        ctx.oblige("post", "a-list-is-adapted-element-by-element,in-order,into-a-new-list" + tag,
                   settings_ok and isinstance(result, list) and [e[1] for e in rec] == d["elems"] and list(result) == [("adapted", x) for x in d["elems"]])
        ctx.oblige("frame", "the-list-given-is-not-written(it may be the caller's own object)" + tag, result is not d["val"] and list(d["val"]) == d["elems"])
    elif k == "dict":
        ctx.oblige("post", "a-mapping-is-adapted-value-by-value-under-the-same-keys,in-order,into-a-new-mapping" + tag,
                   settings_ok and isinstance(result, dict) and list(result.items()) == [("p", ("adapted", d["elems"][0])), ("q", ("adapted", d["elems"][1]))])
        ctx.oblige("frame", "the-mapping-given-is-not-written(it may be the caller's own object: an OrderedDict is not copied by the parse methods)" + tag,
                   result is not d["val"] and list(d["val"].items()) == [("p", d["elems"][0]), ("q", d["elems"][1])])
    else:
        ctx.oblige("post", "any-other-value-is-returned-as-it-is" + tag, result is d["val"] and not ev)


def adapt_classes_any_unit(prop):
    return Unit(prop, "jsonargparse._typehints:adapt_classes_any", aca_setup, aca_post, None, expect_cover=("return",),
                trusted=["is_subclass_spec: its own unit", "subclass_spec_as_namespace normalises the spec (C14 unit)", "adapt_class_type: unit of its own", "the recursive call by contract"])


# ------------------------------------------------------------------------------------- is_subclass_spec
KEYSETS = [("class_path",), ("class_path", "init_args"), ("class_path", "init_args", "dict_kwargs", "__path__"), ("class_path", "extra"), ("init_args",), (), ("class_path", "init_args", "Init_args")]


def iss_setup(ctx):
    container = ["dict", "Namespace", "list", "str", "None"][ctx.choose(5, "container")]
    keys = KEYSETS[ctx.choose(len(KEYSETS), "keys")] if container in ("dict", "Namespace") else ()
    ctx.classes.add("Namespace", [])
    if container == "dict":
        val = {k: z3.Int(f"v_{k}") for k in keys}
    elif container == "Namespace":
        store = {k: z3.Int(f"v_{k}") for k in keys}
        val = Rec("Namespace", attrs={"__dict__": store}, methods={"__contains__": lambda c, s_, a, k: a[0] in store})
    else:
        val = {"list": ["class_path"], "str": "class_path", "None": None}[container]
    return Setup(env={"val": val}, data=dict(container=container, keys=keys))


def iss_post(ctx, st, result):
    d = st.data
    want = d["container"] in ("dict", "Namespace") and "class_path" in d["keys"] and set(d["keys"]) <= {"class_path", "init_args", "dict_kwargs", "__path__"}
    ctx.oblige("post", f"a-class-spec-is-exactly-a-dict/Namespace-holding-class_path-and-nothing-beyond(class_path,init_args,dict_kwargs,__path__)[{d['container']},{d['keys']}]", result is want)


def is_subclass_spec_unit(prop):
    return Unit(prop, "jsonargparse._typehints:is_subclass_spec", iss_setup, iss_post, None, expect_cover=("return",))


# ------------------------------------------------------------------------------------- parse_argv_item
ITEMS = ["--a.b=1", "--a.b", "--a=1.5", "-a.b=1", "--a.b=c=d", "--a.b.c=", "pos.x", "--a.b+=3", "--opt.declared=2", "--=x.y", "--a"]


def pai_setup(ctx):
    item = ITEMS[ctx.choose(len(ITEMS), "argv-item")]
    parent = ["typed", "untyped", "none"][ctx.choose(3, "parent-action")]
    nret = [4, 3, 1][ctx.choose(3, "argparse-version(parse_optional_num_return)")]
    ctx.classes.add("ActionTypeHint", ["Action"])
    action = None if parent == "none" else Rec("ActionTypeHint", attrs={"_typehint": "List[int]"}) if parent == "typed" else Rec("Action", attrs={})
    parser = Rec("ArgumentParser", attrs={"_option_string_actions": {"--opt.declared": Rec("Action"), "--a": Rec("Action")}})
    calls = {"subclass_arg_parser.get": lambda c, a, k: parser, "_find_parent_action": lambda c, a, k: (c.event("fpa", a[0], a[1]), action)[1]}
    return Setup(env={"arg_string": item}, calls=calls, consts={"parse_optional_num_return": nret}, inline={"typehint_from_action": "jsonargparse._typehints:typehint_from_action"},
                 data=dict(item=item, parent=parent, nret=nret, action=action, parser=parser))


def pai_post(ctx, st, result):
    d = st.data
    item = d["item"]
    base, sep, expl = item.partition("=") if "=" in item else (item, None, None)
    eligible = item.startswith("--") and "." in base and base not in ("--opt.declared", "--a")
    ev = [e for e in ctx.events if e[0] == "fpa"]
    tag = f"[{item},{d['parent']},n={d['nret']}]"
    ctx.oblige("post", "the-parent-action-is-looked-up-only-for-a-dotted-long-option-that-is-not-itself-declared,by-its-key-without-the-dashes" + tag,
               (len(ev) == 1 and ev[0][1] is d["parser"] and ev[0][2] == base[2:]) if eligible else not ev)
    if eligible and d["parent"] == "typed":
        pieces = result[0] if d["nret"] == 1 and isinstance(result, list) and len(result) == 1 else result
        ok = isinstance(pieces, tuple) and pieces[0] is d["action"] and pieces[1] == base and pieces[-1] == expl and len(pieces) == (3 if d["nret"] == 3 else 4)
        if ok and len(pieces) == 4:
            ok = pieces[2] == sep
        ctx.oblige("post", "claimed-for-the-typed-parent:(action,option-part,[separator],value-part)-recompose-the-item-at-its-first-'='(shape as this argparse version expects)" + tag, ok, note=repr(result))
    else:
        ctx.oblige("post", "everything-else-is-left-to-argparse(None)" + tag, result is None)


def parse_argv_item_unit(prop):
    return Unit(prop, "jsonargparse._typehints:ActionTypeHint.parse_argv_item", pai_setup, pai_post, None, expect_cover=("return",),
                trusted=["_find_parent_action by contract (C06)", "subclass_arg_parser holds the parser that is parsing", "str.partition / startswith evaluated by CPython on the concrete items of the scenario"])


# ------------------------------------------------------------------------------------- _is_action_value_list
def avl_setup(ctx):
    kind = ["None", "?", "*", "+", "0", "int", "REMAINDER"][ctx.choose(7, "nargs")]
    n = z3.Int("nargs")
    nargs = {"None": None, "?": "?", "*": "*", "+": "+", "0": 0, "int": n, "REMAINDER": "..."}[kind]
    return Setup(env={"action": Rec("Action", attrs={"nargs": nargs})}, data=dict(kind=kind, n=n))


def avl_post(ctx, st, result):
    d = st.data
    if d["kind"] == "int":
        from pyvc.engine import lift
        ctx.oblige("post", "integer-nargs:list-valued-iff-non-zero", lift(result) == (d["n"] != 0))
    else:
        ctx.oblige("post", f"nargs={d['kind']}:list-valued-iff-'*'-or-'+'", result is (d["kind"] in ("*", "+")))


def is_action_value_list_unit(prop):
    return Unit(prop, "jsonargparse._actions:_is_action_value_list", avl_setup, avl_post, None, expect_cover=("return",))


UNITS = [adapt_classes_any_unit("C14"), is_subclass_spec_unit("C14"), parse_argv_item_unit("C14"), is_action_value_list_unit("C02")]


# ------------------------------------------------------------------------------------- get_all_subclass_paths.<locals>.add_subclasses
CLS_KINDS = ["public", "public-already-listed", "abstract", "private", "protocol", "local", "lazy-instance-class", "import-fails", "union-or-sequence-hint", "no-__subclasses__"]


def asc_setup(ctx):
    kind = CLS_KINDS[ctx.choose(len(CLS_KINDS), "class")]
    n_sub = ctx.choose(3, "n-subclasses")
    subs = [Rec(f"class Sub{i}") for i in range(n_sub)]
    path = {"private": "pkg._mod.Cls"}.get(kind, "pkg.mod.Cls")
    cl = Rec("class Cls", attrs={"__qualname__": "f.<locals>.Cls" if kind == "local" else "Cls"})
    if kind == "union-or-sequence-hint":
        cl.attrs["__args__"] = tuple(subs)
    elif kind != "no-__subclasses__":
        cl.methods["__subclasses__"] = lambda c, s_, a, k: list(subs)
    listed = ["pkg.mod.Earlier"] + ([path] if kind == "public-already-listed" else [])

    def get_import_path(c, a, k):
        if kind == "import-fails":
            raise PyRaise(ExcVal(["ImportError", "AttributeError"][c.choose(2, "import-error-class")], args=("no",), origin="get_import_path"))
        return path

    calls = {"get_typehint_origin": lambda c, a, k: "list-origin" if kind == "union-or-sequence-hint" else None, "get_import_path": get_import_path,
             "is_local": lambda c, a, k: ".<locals>." in a[0].attrs["__qualname__"], "is_private": lambda c, a, k: "._" in a[0],
             "is_subclass": lambda c, a, k: kind == "lazy-instance-class", "inspect.isabstract": lambda c, a, k: kind == "abstract", "is_protocol": lambda c, a, k: kind == "protocol",
             "add_subclasses": lambda c, a, k: c.event("visit", a[0]), "warning": lambda c, a, k: None}
    consts = {"sequence_origin_types": {"list-origin", "tuple-origin"}, "Union": "Union-origin", "LazyInitBaseClass": Rec("class LazyInitBaseClass")}
    return Setup(env={"cl": cl, "subclass_list": listed}, calls=calls, consts=consts, data=dict(kind=kind, subs=subs, path=path, listed=listed, before=list(listed)))


def asc_post(ctx, st, result):
    d = st.data
    k = d["kind"]
    tag = f"[{k},{len(d['subs'])} subclasses]"
    visited = [e[1] for e in ctx.events if e[0] == "visit"]
    all_subs = len(visited) == len(d["subs"]) and all(x is y for x, y in zip(visited, d["subs"]))
    if k == "union-or-sequence-hint":
        ctx.oblige("post", "a-Union/sequence-hint-lists-nothing-itself-and-descends-into-every-member" + tag, d["listed"] == d["before"] and all_subs)
    elif k in ("import-fails", "local", "lazy-instance-class"):
        ctx.oblige("post", "a-class-that-cannot-be-imported-by-path(or is local / a lazy-instance class)-is-not-listed-and-nothing-below-it-is-reached-through-it" + tag, d["listed"] == d["before"] and not visited)
    elif k in ("abstract", "private", "protocol"):
        ctx.oblige("post", "an-abstract/private/protocol-class-is-not-offered-itself,but-the-classes-derived-from-it-are-still-reached(every subclass visited,in order)" + tag, d["listed"] == d["before"] and all_subs)
    elif k == "public-already-listed":
        ctx.oblige("post", "a-class-listed-before-is-not-listed-twice(its subclasses were reached then)" + tag, d["listed"] == d["before"] and not visited)
    elif k == "no-__subclasses__":
        ctx.oblige("post", "an-object-without-__subclasses__-is-listed-by-its-path-and-has-nothing-below" + tag, d["listed"] == d["before"] + [d["path"]] and not visited)
    else:
        ctx.oblige("post", "a-public-concrete-class-is-appended-by-its-import-path,then-every-subclass-is-visited-in-order" + tag, d["listed"] == d["before"] + [d["path"]] and all_subs)


def add_subclasses_unit(prop):
    return Unit(prop, "jsonargparse._typehints:get_all_subclass_paths.<locals>.add_subclasses", asc_setup, asc_post, None, expect_cover=("return",),
                trusted=["get_import_path: its own unit (C14)", "inspect.isabstract / is_protocol / is_subclass / cl.__subclasses__() as documented (A4)", "the recursive call by contract"])


UNITS.append(add_subclasses_unit("C14"))


# ------------------------------------------------------------------------------------- ActionTypeHint.instantiate_classes
def aic_setup(ctx):
    shape = ["single", "list-valued(nargs='+')"][ctx.choose(2, "option")]
    has_sak = ctx.choose(2, "action-has-sub_add_kwargs") == 1
    vals = [Rec("spec0"), Rec("spec1")]
    sak = Rec("sub_add_kwargs")
    attrs = {"_typehint": Rec("typehint"), "default": Rec("default"), "logger": Rec("logger"), "nargs": "+" if shape != "single" else None}
    if has_sak:
        attrs["sub_add_kwargs"] = sak
    self = Rec("ActionTypeHint", attrs=attrs)
    value = list(vals) if shape != "single" else vals[0]
    calls = {"_is_action_value_list": lambda c, a, k: a[0].attrs["nargs"] == "+",
             "adapt_typehints": lambda c, a, k: (c.event("adapt", list(a), dict(k)), ("instance-of", a[0]))[1]}
    return Setup(env={"self": self, "value": value}, calls=calls, data=dict(shape=shape, has_sak=has_sak, vals=vals, sak=sak, self_=self, value=value))


def aic_post(ctx, st, result):
    d = st.data
    tag = f"[{d['shape']},sub_add_kwargs={'own' if d['has_sak'] else 'none'}]"
    ev = [e for e in ctx.events if e[0] == "adapt"]
    want_vals = d["vals"] if d["shape"] != "single" else d["vals"][:1]
    ok = len(ev) == len(want_vals)
    for e, v in zip(ev, want_vals):
        a, k = e[1], e[2]
        ok = ok and len(a) == 2 and a[0] is v and a[1] is d["self_"].attrs["_typehint"] and set(k) == {"default", "instantiate_classes", "sub_add_kwargs", "logger"} and k["default"] is d["self_"].attrs["default"] \
            and k["instantiate_classes"] is True and k["logger"] is d["self_"].attrs["logger"] and (k["sub_add_kwargs"] is d["sak"] if d["has_sak"] else k["sub_add_kwargs"] == {})
    ctx.oblige("post", "every-value-of-the-option-is-instantiated-by-adapt_typehints-with-the-option's-type,default,own-sub_add_kwargs-and-logger(instantiate_classes=True),once,in-order" + tag, ok)
    if d["shape"] == "single":
        ctx.oblige("post", "a-single-valued-option-returns-the-instance-itself" + tag, result == ("instance-of", d["vals"][0]))
    else:
        ctx.oblige("post", "a-list-valued-option-returns-the-instances-in-order" + tag, isinstance(result, list) and result == [("instance-of", v) for v in d["vals"]])


def typehint_instantiate_unit(prop):
    return Unit(prop, "jsonargparse._typehints:ActionTypeHint.instantiate_classes", aic_setup, aic_post, None, expect_cover=("return",),
                trusted=["adapt_typehints(instantiate_classes=True): the instantiate-side obligations of adapt_class_type (its own unit)", "_is_action_value_list: its own unit"])


# ------------------------------------------------------------------------------------- ActionTypeHint.normalize_default
ND = ["lazy-instance", "dataclass-instance", "spec-dict", "plain-dict", "enum-member", "function", "class", "instance-of-a-subclass", "instance-of-an-unrelated-class", "unknown-default-marker", "scalar", "None"]
NH = ["subclass-type", "enum-type", "callable-type", "callable-returning-a-class", "other"]


def nd_setup(ctx):
    hk = NH[ctx.choose(len(NH), "typehint")]
    dk = ND[ctx.choose(len(ND), "default")]
    allow = ctx.choose(2, "allow_default_instance") == 1
    for n in ("LazyInitBaseClass", "Enum", "Namespace", "UnknownDefault"):
        ctx.classes.add(n, [])
    ctx.classes.add("LazySub", ["LazyInitBaseClass"])
    ctx.classes.add("Color", ["Enum"])
    hint = Rec("typehint", attrs={"kind": hk})
    meta = Rec("class-of-default", attrs={"kind": dk})
    ns = Rec("Namespace(spec)", attrs={"class_path": "Sub"})
    ns.methods["__setattr__"] = lambda c, s_, a, k: s_.attrs.__setitem__(a[0], a[1])
    lazy_data = Rec("lazy init data")
    dc_dict = Rec("dict of the dataclass")
    if dk == "lazy-instance":
        default = Rec("LazySub", attrs={"__class__": meta}, methods={"lazy_get_init_data": lambda c, s_, a, k: lazy_data})
    elif dk == "spec-dict":
        default = {"class_path": "Sub", "init_args": {"x": 1}}
    elif dk == "plain-dict":
        default = {"x": 1}
    elif dk == "enum-member":
        default = Rec("Color", attrs={"__class__": meta, "name": "RED"})
    elif dk == "scalar":
        default = 7
    elif dk == "None":
        default = None
    else:
        default = Rec({"dataclass-instance": "DC", "function": "function", "class": "type", "instance-of-a-subclass": "Sub", "instance-of-an-unrelated-class": "Other", "unknown-default-marker": "UnknownDefault"}[dk], attrs={"__class__": meta, "kind": dk})
    self = Rec("ActionTypeHint", attrs={"_typehint": hint})

    def is_subclass_typehint(c, s_, a, k):
        if a[0] is hint:
            return hk == "subclass-type" and k.get("all_subtypes") is False
        return isinstance(a[0], Rec) and a[0].attrs.get("kind") == "instance-of-a-subclass"  # asked about type(default)
    self.methods["is_subclass_typehint"] = is_subclass_typehint
    calls = {"is_dataclass_like": lambda c, a, k: isinstance(a[0], Rec) and a[0].attrs.get("kind") == "dataclass-instance", "dataclass_to_dict": lambda c, a, k: dc_dict,
             "subclass_spec_as_namespace": lambda c, a, k: (c.event("as-namespace", a[0]), ns)[1], "normalize_import_path": lambda c, a, k: ("normalised", a[0], a[1]),
             "is_enum_type": lambda c, a, k: a[0].attrs["kind"] == "enum-type", "is_callable_type": lambda c, a, k: a[0].attrs["kind"] in ("callable-type", "callable-returning-a-class"),
             "callable": lambda c, a, k: isinstance(a[0], Rec) and a[0].attrs.get("kind") in ("function", "class"), "inspect.isclass": lambda c, a, k: isinstance(a[0], Rec) and a[0].attrs.get("kind") == "class",
             "get_import_path": lambda c, a, k: ("import-path-of", a[0]), "allow_default_instance.get": lambda c, a, k: allow,
             "type": lambda c, a, k: a[0].attrs["__class__"] if isinstance(a[0], Rec) else Rec("builtin-class", attrs={"kind": "builtin"}),
             "is_subclass": lambda c, a, k: isinstance(a[0], Rec) and a[0].attrs.get("kind") == "unknown-default-marker",
             "ActionTypeHint.is_return_subclass_typehint": lambda c, a, k: a[0].attrs["kind"] == "callable-returning-a-class"}
    consts = {"LazyInitBaseClass": ClassRef("LazyInitBaseClass"), "Enum": ClassRef("Enum")}
    return Setup(env={"self": self, "default": default}, calls=calls, consts=consts,
                 data=dict(hk=hk, dk=dk, allow=allow, default=default, hint=hint, ns=ns, lazy_data=lazy_data, dc_dict=dc_dict))


def nd_expected(d):
    hk, dk = d["hk"], d["dk"]
    if dk == "lazy-instance":
        return "lazy"
    if dk == "dataclass-instance":
        return "dc"
    if hk == "subclass-type" and dk == "spec-dict":
        return "spec"
    if hk == "enum-type" and dk == "enum-member":
        return "enum-name"
    if hk in ("callable-type", "callable-returning-a-class") and dk == "function":
        return "import-path"
    if hk == "subclass-type" and not d["allow"]:
        return "refuse" if dk == "instance-of-a-subclass" else "same"
    if hk == "callable-returning-a-class" and dk == "class":
        return "class-spec"
    return "same"


def nd_post(ctx, st, result):
    d = st.data
    tag = f"[{d['hk']}<-{d['dk']},allow_default_instance={d['allow']}]"
    want = nd_expected(d)
    ctx.oblige("post", "an-instance-of-a-subclass-is-no-default-for-a-subclass-type(unless instances are allowed)" + tag, want != "refuse")
    if want == "lazy":
        ctx.oblige("post", "a-lazy-instance-is-stored-as-its-init-data" + tag, result is d["lazy_data"])
    elif want == "dc":
        ctx.oblige("post", "a-dataclass-instance-is-stored-as-the-dict-of-its-fields" + tag, result is d["dc_dict"])
    elif want == "spec":
        ctx.oblige("post", "a-class-spec-for-a-subclass-type-is-stored-as-a-namespace-with-the-class_path-normalised-against-the-type" + tag,
                   result is d["ns"] and d["ns"].attrs["class_path"] == ("normalised", "Sub", d["hint"]))
    elif want == "enum-name":
        ctx.oblige("post", "an-Enum-member-for-an-Enum-type-is-stored-by-its-name" + tag, result == "RED")
    elif want == "import-path":
        ctx.oblige("post", "a-function-for-a-callable-type-is-stored-by-its-import-path" + tag, result == ("import-path-of", d["default"]))
    elif want == "class-spec":
        ctx.oblige("post", "a-class-for-a-callable-returning-a-class-is-stored-as-a-spec-of-that-class" + tag, result == {"class_path": ("import-path-of", d["default"])})
    elif want == "same":
        ctx.oblige("post", "any-other-default-is-stored-as-given" + tag, result is d["default"] or (not isinstance(d["default"], (Rec, dict)) and result == d["default"]))


def nd_raises(ctx, st, exc):
    d = st.data
    ctx.oblige("raises", f"refused=>ValueError,exactly-for-an-instance-of-a-subclass-given-to-a-subclass-type-when-instances-are-not-allowed[{d['hk']}<-{d['dk']}]", exc.cls == "ValueError" and nd_expected(d) == "refuse")


def normalize_default_unit(prop):
    return Unit(prop, "jsonargparse._typehints:ActionTypeHint.normalize_default", nd_setup, nd_post, nd_raises, expect_cover=("return", "raise:ValueError"),
                trusted=["subclass_spec_as_namespace / normalize_import_path / get_import_path: their own units (C14)", "dataclass_to_dict / lazy_get_init_data return the stored form of the instance",
                         "the classification helpers (is_enum_type, is_callable_type, is_subclass_typehint, is_return_subclass_typehint, is_dataclass_like) answer as the kind of type says (A4)"])


UNITS += [typehint_instantiate_unit("C14"), normalize_default_unit("C14")]


# ------------------------------------------------------------------------------------- the classification of type hints (what "a class type" means)
# is_single_subclass_typehint: a class that is none of the kinds which have their own treatment (leaf / root type, registered type,
# pydantic type, dataclass-like, generic alias, Path, Enum).  is_subclass_typehint: that, or a Union (with also_lists: a sequence) whose
# members other than None all (all_subtypes) / some (not all_subtypes) qualify.
SK = ["plain-class", "not-a-class", "leaf-or-root-type", "registered", "pydantic", "dataclass-like", "generic-alias-of-a-class", "Path-subclass", "Enum-subclass"]


def ssc_setup(ctx):
    k = SK[ctx.choose(len(SK), "typehint")]
    hint = Rec("typehint", attrs={"kind": k})
    origin = Rec("origin") if k == "generic-alias-of-a-class" else None
    leaf = Rec("typehint", attrs={"kind": "the-leaf"})
    calls = {"inspect.isclass": lambda c, a, kw: a[0].attrs["kind"] != "not-a-class", "get_registered_type": lambda c, a, kw: Rec("RegisteredType") if a[0].attrs["kind"] == "registered" else None,
             "is_pydantic_type": lambda c, a, kw: a[0].attrs["kind"] == "pydantic", "is_dataclass_like": lambda c, a, kw: a[0].attrs["kind"] == "dataclass-like",
             "is_subclass": lambda c, a, kw: a[0].attrs["kind"] in ("Path-subclass", "Enum-subclass")}
    consts = {"leaf_or_root_types": {hint} if k == "leaf-or-root-type" else {leaf}, "Path": ClassRef("Path"), "Enum": ClassRef("Enum")}
    return Setup(env={"typehint": hint, "typehint_origin": origin}, calls=calls, consts=consts, data=dict(k=k))


def ssc_post(ctx, st, result):
    k = st.data["k"]
    ctx.oblige("post", f"a-class-type-is-a-class-that-is-none-of:leaf/root-type,registered,pydantic,dataclass-like,generic-alias,Path,Enum[{k}]", bool(result) is (k == "plain-class"))


def is_single_subclass_typehint_unit(prop):
    return Unit(prop, "jsonargparse._typehints:is_single_subclass_typehint", ssc_setup, ssc_post, None, expect_cover=("return",),
                trusted=["inspect.isclass / get_registered_type / is_pydantic_type / is_dataclass_like / is_subclass answer for the kind of the type (their own units or external)"])


HK = ["None", "action-without-type", "action-with-class-type", "class", "int", "Optional[class]", "Union[class,class]", "Union[class,int]", "Union[int,str]", "List[class]", "List[int]", "List[Union[class,int]]"]


def ist_setup(ctx):
    hk = HK[ctx.choose(len(HK), "typehint")]
    all_sub = [True, False, None][ctx.choose(3, "all_subtypes")]
    also = [False, True, None][ctx.choose(3, "also_lists")]
    ctx.classes.add("ActionTypeHint", ["Action"])
    NONE = Rec("NoneType")
    A, B, I, S = (Rec("hint", attrs={"kind": "class", "args": None, "origin": None}), Rec("hint", attrs={"kind": "class", "args": None, "origin": None}),
                  Rec("hint", attrs={"kind": "int", "args": None, "origin": None}), Rec("hint", attrs={"kind": "str", "args": None, "origin": None}))

    def mk(origin, args):
        return Rec("hint", attrs={"kind": origin, "origin": origin, "__args__": tuple(args)})
    table = {"class": A, "int": I, "Optional[class]": mk("Union", [A, NONE]), "Union[class,class]": mk("Union", [A, B]), "Union[class,int]": mk("Union", [A, I]), "Union[int,str]": mk("Union", [I, S]),
             "List[class]": mk("list", [A]), "List[int]": mk("list", [I]), "List[Union[class,int]]": mk("list", [mk("Union", [A, I])])}
    if hk == "None":
        given = None
    elif hk.startswith("action"):
        given = Rec("ActionTypeHint", attrs={"_typehint": A} if hk.endswith("class-type") else {})
    else:
        given = table[hk]
    rec_calls = []

    def recursive(c, a, k):
        rec_calls.append((a[0], dict(k)))
        t = a[0]
        # contract of the recursive call, for the members that occur here: a class -> True, int/str -> False, Union[class,int] (all_subtypes default True) -> False
        return t.attrs["kind"] == "class"

    calls = {"get_unaliased_type": lambda c, a, k: a[0], "get_typehint_origin": lambda c, a, k: a[0].attrs.get("origin"),
             "is_single_subclass_typehint": lambda c, a, k: (c.event("single", a[0], a[1]), a[0].attrs["kind"] == "class")[1], "ActionTypeHint.is_subclass_typehint": recursive}
    consts = {"Union": "Union", "sequence_origin_types": {"list", "tuple-seq"}, "NoneType": NONE}
    env = {"typehint": given}
    if all_sub is not None:
        env["all_subtypes"] = all_sub
    if also is not None:
        env["also_lists"] = also
    return Setup(env=env, calls=calls, consts=consts, inline={"typehint_from_action": "jsonargparse._typehints:typehint_from_action"},
                 data=dict(hk=hk, all_sub=True if all_sub is None else all_sub, also=bool(also), given=given, rec_calls=rec_calls, A=A, NONE=NONE, table=table))


def ist_post(ctx, st, result):
    d = st.data
    hk = d["hk"]
    tag = f"[{hk},all_subtypes={d['all_sub']},also_lists={d['also']}]"
    if hk in ("None", "action-without-type"):
        ctx.oblige("post", "no-type-hint=>False" + tag, result is False)
        return
    compound = hk.startswith(("Optional", "Union")) or (hk.startswith("List") and d["also"])
    if not compound:
        ev = [e for e in ctx.events if e[0] == "single"]
        want = hk in ("class", "action-with-class-type")
        ctx.oblige("post", "a-hint-that-is-not-a-Union(nor, with also_lists, a sequence)-is-judged-as-a-single-class-type;an-action-is-judged-by-its-own-hint" + tag, bool(result) is want and len(ev) == 1 and not d["rec_calls"])
        return
    members = [m for m in d["given"].attrs["__args__"] if m is not d["NONE"]]
    answers = [m.attrs["kind"] == "class" for m in members]
    want = all(answers) if d["all_sub"] else any(answers)
    ctx.oblige("post", "a-Union(with also_lists: a sequence)-qualifies-iff-all(all_subtypes)/some-of-its-members-other-than-None-do" + tag, bool(result) is want, note=f"members {answers}")
    ok = all(k == {"also_lists": d["also"]} for _, k in d["rec_calls"]) and [m for m, _ in d["rec_calls"]][: len(members)] == members[: len(d["rec_calls"])]
    ctx.oblige("post", "the-members-are-judged-by-the-same-function,with-the-caller's-also_lists" + tag, ok and not [e for e in ctx.events if e[0] == "single"])


def is_subclass_typehint_unit(prop):
    return Unit(prop, "jsonargparse._typehints:ActionTypeHint.is_subclass_typehint", ist_setup, ist_post, None, expect_cover=("return",), max_paths=5000,
                trusted=["is_single_subclass_typehint: its own unit", "the recursive call by contract", "get_typehint_origin / get_unaliased_type / __args__ describe the hint as typing does (A4)"])


UNITS += [is_single_subclass_typehint_unit("C14"), is_subclass_typehint_unit("C14")]


# ------------------------------------------------------------------------------------- ActionTypeHint.is_supported_typehint
# Which type hints get a type-checking action at all (everything else is refused by add_argument / skipped by the signature code):
# a root type or a parametrised one, a registered type, an Enum, a dataclass-like class, a class type (or Union of them); Namespace is
# refused outright.  With full=True the parameters count too: a container with a parameter that is not supported is not supported;
# a Union is, as soon as one member is.
SUP = ["Namespace-subclass", "root-type(bare)", "registered", "Enum", "dataclass-like", "class-type", "unsupported",
       "List[int]", "List[unsupported]", "Dict[str,unsupported]", "Tuple[int,...]", "Union[int,unsupported]", "Union[unsupported,unsupported]", "Optional[unsupported]", "Literal[1]", "Type[TypeVar]", "List[TypeVar]"]


def isup_setup(ctx):
    k = SUP[ctx.choose(len(SUP), "typehint")]
    full = ctx.choose(2, "full") == 1
    ctx.classes.add("TypeVar", [])
    NONE, ELL = Rec("NoneType"), Rec("Ellipsis")
    LIST, DICT, TUPLE, UNION, LIT, TYPE = (Rec("origin " + n) for n in ("list", "dict", "tuple", "Union", "Literal", "type"))
    INT, STR = Rec("hint", attrs={"kind": "leaf", "origin": None}), Rec("hint", attrs={"kind": "leaf", "origin": None})
    UNS = Rec("hint", attrs={"kind": "unsupported", "origin": None})
    TV = Rec("TypeVar", attrs={"kind": "unsupported", "origin": None})

    def mk(origin, args):
        return Rec("hint", attrs={"kind": "generic", "origin": origin, "__args__": tuple(args)})
    table = {"Namespace-subclass": Rec("hint", attrs={"kind": "namespace", "origin": None}), "root-type(bare)": LIST, "registered": Rec("hint", attrs={"kind": "registered", "origin": None}),
             "Enum": Rec("hint", attrs={"kind": "enum", "origin": None}), "dataclass-like": Rec("hint", attrs={"kind": "dataclass", "origin": None}), "class-type": Rec("hint", attrs={"kind": "class", "origin": None}),
             "unsupported": UNS, "List[int]": mk(LIST, [INT]), "List[unsupported]": mk(LIST, [UNS]), "Dict[str,unsupported]": mk(DICT, [STR, UNS]), "Tuple[int,...]": mk(TUPLE, [INT, ELL]),
             "Union[int,unsupported]": mk(UNION, [INT, UNS]), "Union[unsupported,unsupported]": mk(UNION, [UNS, UNS]), "Optional[unsupported]": mk(UNION, [UNS, NONE]), "Literal[1]": mk(LIT, [1]),
             "Type[TypeVar]": mk(TYPE, [TV]), "List[TypeVar]": mk(LIST, [TV])}
    hint = table[k]
    for r in (LIST, DICT, TUPLE, UNION, LIT, TYPE):
        r.attrs.setdefault("kind", "root")
        r.attrs.setdefault("origin", None)
    rec_calls = []

    def recursive(c, a, kw):
        rec_calls.append((a[0], dict(kw)))
        return isinstance(a[0], Rec) and a[0].attrs.get("kind") in ("leaf", "class", "enum", "registered", "dataclass", "root")

    calls = {"get_unaliased_type": lambda c, a, kw: a[0], "is_subclass": lambda c, a, kw: isinstance(a[0], Rec) and a[0].attrs.get("kind") == ("namespace" if a[1].name == "Namespace" else "enum"),
             "get_typehint_origin": lambda c, a, kw: a[0].attrs.get("origin") if isinstance(a[0], Rec) else None, "get_registered_type": lambda c, a, kw: Rec("RegisteredType") if a[0].attrs.get("kind") == "registered" else None,
             "is_dataclass_like": lambda c, a, kw: a[0].attrs.get("kind") == "dataclass", "ActionTypeHint.is_subclass_typehint": lambda c, a, kw: a[0].attrs.get("kind") == "class",
             "ActionTypeHint.is_supported_typehint": recursive}
    consts = {"Namespace": ClassRef("Namespace"), "Enum": ClassRef("Enum"), "root_types": {LIST, DICT, TUPLE, UNION, LIT, TYPE}, "literal_types": {LIT}, "leaf_types": {INT, STR}, "NoneType": NONE,
              "Ellipsis": ELL, "Union": UNION, "type": TYPE, "TypeVar": ClassRef("TypeVar")}
    return Setup(env={"typehint": hint, "full": full}, calls=calls, consts=consts, data=dict(k=k, full=full, hint=hint, rec_calls=rec_calls))


def isup_expected(k, full):
    if k == "Namespace-subclass":
        return "refuse"
    if k == "unsupported":
        return False
    if not full:
        return True
    return k not in ("List[unsupported]", "Dict[str,unsupported]", "Union[unsupported,unsupported]", "Optional[unsupported]", "List[TypeVar]")


def isup_post(ctx, st, result):
    d = st.data
    want = isup_expected(d["k"], d["full"])
    ctx.oblige("post", f"supported-iff:root/parametrised-root,registered,Enum,dataclass-like-or-class-type;with-full=True-a-container-needs-every-parameter-supported,a-Union-at-least-one[{d['k']},full={d['full']}]",
               want != "refuse" and bool(result) is want)
    ctx.oblige("post", f"parameters-are-judged-with-full=True-too[{d['k']},full={d['full']}]", all(kw == {"full": True} for _, kw in d["rec_calls"]))


def isup_raises(ctx, st, exc):
    d = st.data
    ctx.oblige("raises", f"refused=>ValueError-exactly-for-Namespace(a result type, not an input type)[{d['k']}]", exc.cls == "ValueError" and d["k"] == "Namespace-subclass")


def is_supported_typehint_unit(prop):
    return Unit(prop, "jsonargparse._typehints:ActionTypeHint.is_supported_typehint", isup_setup, isup_post, isup_raises, expect_cover=("return", "raise:ValueError"),
                trusted=["is_subclass_typehint: its own unit", "the recursive call by contract", "get_typehint_origin / get_registered_type / is_dataclass_like / is_subclass describe the hint (A4)"])


UNITS += [is_supported_typehint_unit("C02")]


# ------------------------------------------------------------------------------------- is_pathlike / ActionTypeHint.__init__
# A value of a path-like type (os.PathLike itself, a class deriving from it, a class *registered* with it as pathlib.Path is, a Union
# holding one) is the path: it is never replaced by the content of the file it names (enable_path is switched off for such options).
PL = ["os.PathLike", "class-deriving-from-PathLike", "pathlib.Path(registered with the ABC, not in its MRO)", "str", "int", "Union[str,pathlib.Path]", "Union[str,int]", "List[pathlib.Path]"]


def ipl_setup(ctx):
    k = PL[ctx.choose(len(PL), "typehint")]
    PLIKE = Rec("class os.PathLike")

    def leaf(name, sub, in_mro):
        return Rec("hint", attrs={"name": name, "origin": None, "subclass_of_pathlike": sub, "mro": ((PLIKE,) if in_mro else ())})
    h = {"os.PathLike": leaf("PathLike", True, True), "class-deriving-from-PathLike": leaf("MyPath", True, True), "pathlib.Path(registered with the ABC, not in its MRO)": leaf("Path", True, False),
         "str": leaf("str", False, False), "int": leaf("int", False, False)}
    pp = h["pathlib.Path(registered with the ABC, not in its MRO)"]
    h["Union[str,pathlib.Path]"] = Rec("hint", attrs={"origin": "Union", "__args__": (h["str"], pp)})
    h["Union[str,int]"] = Rec("hint", attrs={"origin": "Union", "__args__": (h["str"], h["int"])})
    h["List[pathlib.Path]"] = Rec("hint", attrs={"origin": "list", "__args__": (pp,), "subclass_of_pathlike": False, "mro": ()})
    calls = {"get_typehint_origin": lambda c, a, kw: a[0].attrs.get("origin"),
             "is_subclass": lambda c, a, kw: a[1] is PLIKE and bool(a[0].attrs.get("subclass_of_pathlike")),
             # siblings a rewrite may reach for: issubclass looks at ABC registrations, the MRO does not
             "inspect.isclass": lambda c, a, kw: a[0].attrs.get("origin") is None, "inspect.getmro": lambda c, a, kw: (a[0],) + tuple(a[0].attrs.get("mro", ())),
             "is_pathlike": lambda c, a, kw: (c.event("member", a[0]), bool(a[0].attrs.get("subclass_of_pathlike")))[1]}
    consts = {"Union": "Union", "os": Rec("module os", attrs={"PathLike": PLIKE})}
    return Setup(env={"typehint": h[k]}, calls=calls, consts=consts, data=dict(k=k))


def ipl_post(ctx, st, result):
    k = st.data["k"]
    want = k in ("os.PathLike", "class-deriving-from-PathLike", "pathlib.Path(registered with the ABC, not in its MRO)", "Union[str,pathlib.Path]")
    ctx.oblige("post", f"path-like-iff-issubclass(hint, os.PathLike)(ABC registrations count: pathlib.Path)-or-a-Union-with-such-a-member[{k}]", bool(result) is want)


def is_pathlike_unit(prop):
    return Unit(prop, "jsonargparse._typehints:is_pathlike", ipl_setup, ipl_post, None, expect_cover=("return",),
                trusted=["is_subclass(hint, base) as issubclass (ABC registrations included)", "the recursive call by contract"])


def ath_setup(ctx):
    mode = ["typehint-given", "copy(_typehint in kwargs)", "neither"][ctx.choose(3, "construction")]
    hk = ["supported", "unsupported", "Union-with-an-unsupported-member", "path-like"][ctx.choose(4, "typehint")] if mode == "typehint-given" else "-"
    enable_path = ctx.choose(2, "enable_path") == 1
    NONE = Rec("NoneType")
    good, bad = Rec("hint good", attrs={"ok": True}), Rec("hint bad", attrs={"ok": False})
    union = Rec("hint Union", attrs={"ok": True, "origin": "Union", "__args__": (good, NONE, bad)})
    hint = {"supported": good, "unsupported": bad, "Union-with-an-unsupported-member": union, "path-like": Rec("hint path", attrs={"ok": True, "pathlike": True}), "-": None}[hk]
    rebuilt = []
    self = Rec("ActionTypeHint", attrs={"default": Rec("declared default")})
    self.methods.update({"__setattr__": lambda c, s_, a, k: s_.attrs.__setitem__(a[0], a[1]),
                         "is_supported_typehint": lambda c, s_, a, k: a[0].attrs["ok"] and k.get("full") is True,
                         "supports_append": lambda c, s_, a, k: ("supports-append", a[0]), "normalize_default": lambda c, s_, a, k: ("normalised", a[0])})
    kw = {"logger": Rec("logger", methods={"debug": lambda c, s_, a, k: None})}
    copied = Rec("hint copied", attrs={"ok": True})
    dest = z3.String("dest")  # any dest: it is rewritten (prefixed) when the parser that declares the option is attached under a key (ActionParser._move_parser_actions)
    if mode.startswith("copy"):
        kw.update({"_typehint": copied, "_enable_path": Rec("copied enable_path"), "dest": dest, "option_strings": [z3.Concat(z3.StringVal("--"), dest)]})

    def action_init(c2, s2, a2, k2):
        c2.event("Action.__init__", dict(k2))
        for name in ("dest", "option_strings"):  # argparse.Action.__init__ stores its keywords as attributes of the same name
            if name in k2:
                self.attrs[name] = k2[name]

    calls = {"get_typehint_origin": lambda c, a, k: a[0].attrs.get("origin"), "is_pathlike": lambda c, a, k: bool(a[0].attrs.get("pathlike")),
             "typehint_metavar": lambda c, a, k: ("metavar-of", a[0]), "super": lambda c, a, k: Rec("super()", methods={"__init__": action_init})}
    consts = {"Union": Rec("Union", methods={"__getitem__": lambda c, s_, a, k: (rebuilt.append(a[0]), Rec("hint Union(rebuilt)", attrs={"ok": True, "origin": "Union", "__args__": a[0]}))[1], "__eq__": lambda c, s_, a, k: a[0] == "Union"}),
              "NoneType": NONE}
    return Setup(env={"self": self, "typehint": hint, "enable_path": enable_path, "kwargs": kw}, calls=calls, consts=consts,
                 data=dict(mode=mode, hk=hk, enable_path=enable_path, hint=hint, good=good, bad=bad, NONE=NONE, self_=self, copied=copied, kw=kw, rebuilt=rebuilt, dest=dest))


def ath_post(ctx, st, result):
    d = st.data
    a = d["self_"].attrs
    tag = f"[{d['mode']},{d['hk']},enable_path={d['enable_path']}]"
    if d["mode"] == "typehint-given":
        ctx.oblige("post", "accepted=>the-type-hint-is-supported(with its parameters)" + tag, d["hk"] != "unsupported")
        if d["hk"] == "Union-with-an-unsupported-member":
            ok = len(d["rebuilt"]) == 1 and tuple(d["rebuilt"][0]) == (d["good"], d["NONE"]) and a["_typehint"].attrs["__args__"] == (d["good"], d["NONE"])
            ctx.oblige("post", "a-Union's-unsupported-members-are-dropped(the supported ones and None stay,in order)" + tag, ok)
        else:
            ctx.oblige("post", "the-hint-is-stored-as-given" + tag, a["_typehint"] is d["hint"])
        want = False if d["hk"] == "path-like" else d["enable_path"]
        ctx.oblige("post", "a-value-is-loaded-from-the-file-it-names-only-if-asked(enable_path)-and-never-for-a-path-like-type(there the value is the path)" + tag, a["_enable_path"] is want)
    else:
        ctx.oblige("post", "accepted=>the-copy-carries-_typehint" + tag, d["mode"].startswith("copy"))
        ev = [e for e in ctx.events if e[0] == "Action.__init__"]
        ok = a.get("_typehint") is d["copied"] and a.get("_enable_path") is not None and a["_enable_path"].cls == "copied enable_path" and a.get("sub_add_kwargs") == {} and len(ev) == 1 \
            and "_typehint" not in ev[0][1] and "_enable_path" not in ev[0][1] and ev[0][1].get("metavar") == ("metavar-of", d["copied"]) and ev[0][1].get("dest") is d["dest"]
        ctx.oblige("post", "the-action-proper-is-built-from-the-prototype's-hint-and-path-setting(not handed to argparse),with-own-empty-sub_add_kwargs-and-a-metavar-for-the-hint" + tag, ok)
        ctx.oblige("post", "the-declared-default-is-stored-in-its-normal-form;appendability-is-that-of-the-hint" + tag, a.get("default") == ("normalised", a.get("default")[1] if isinstance(a.get("default"), tuple) else None) and a.get("_supports_append") == ("supports-append", d["copied"]))


        # dest and the option strings are rewritten when the declaring parser is attached under a key; anything computed from them at construction time would go stale
        derived = [n for n, v in a.items() if n not in ("dest", "option_strings") and _mentions(v, d["dest"])]
        ctx.oblige("frame", "nothing-computed-from-dest-or-the-option-strings-is-stored-under-another-name(they change when the parser is attached under a key)" + tag, not derived, note=f"derived attributes: {derived}")


def _mentions(v, sym):
    if is_z3(v):
        return any(x.eq(sym) for x in z3.z3util.get_vars(v))
    if isinstance(v, (list, tuple)):
        return any(_mentions(x, sym) for x in v)
    if isinstance(v, dict):
        return any(_mentions(x, sym) for x in v.values())
    return False


def ath_raises(ctx, st, exc):
    d = st.data
    ctx.oblige("raises", f"refused=>ValueError:an-unsupported-type-hint,or-neither-a-hint-nor-a-prototype's-hint[{d['mode']},{d['hk']}]", exc.cls == "ValueError" and (d["hk"] == "unsupported" or d["mode"] == "neither"))


def typehint_init_unit(prop):
    return Unit(prop, "jsonargparse._typehints:ActionTypeHint.__init__", ath_setup, ath_post, ath_raises, expect_cover=("return", "raise:ValueError"),
                trusted=["is_supported_typehint, is_pathlike, normalize_default: their own units", "argparse.Action.__init__ (super()) stores the keywords", "typehint_metavar only produces help text"])


UNITS += [is_pathlike_unit("C20"), typehint_init_unit("C20")]
