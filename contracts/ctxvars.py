"""Generic contract for the @contextmanager helpers that set a ContextVar: on entry the variable holds the new value,
on every exit (normal, or an arbitrary exception thrown into the body) it holds what it held before."""
import z3

from pyvc.engine import ClassRef, ExcVal, PyRaise, Rec, Unsupported, lift, is_z3
from pyvc.units import Setup, Unit


class Vars:
    def __init__(self, ctx, names):
        self.vals = {n: Rec("old-value", attrs={"of": n}) for n in names}
        self.initial = dict(self.vals)
        self.sets = []

    def calls(self):
        out = {}
        for n in self.vals:
            out[f"{n}.get"] = lambda c, a, k, _n=n: self.vals[_n]
            out[f"{n}.set"] = lambda c, a, k, _n=n: self._set(c, _n, a[0])
            out[f"{n}.reset"] = lambda c, a, k, _n=n: self._reset(c, _n, a[0])
        return out

    def var_rec(self, n):
        return Rec("ContextVar", attrs={"name": n}, methods={"get": lambda c, s_, a, k: self.vals[n], "set": lambda c, s_, a, k: self._set(c, n, a[0]), "reset": lambda c, s_, a, k: self._reset(c, n, a[0])})

    def _set(self, c, n, v):
        tok = Rec("Token", attrs={"var": n, "old": self.vals[n]})
        self.vals[n] = v
        self.sets.append((n, v))
        c.event("set", n)
        return tok

    def _reset(self, c, n, tok):
        if not isinstance(tok, Rec) or tok.attrs.get("var") != n:
            raise PyRaise(ExcVal("ValueError", origin="ContextVar.reset(token of another variable)"))
        self.vals[n] = tok.attrs["old"]
        c.event("reset", n)
        return None

    def restored(self):
        return all(self.vals[n] is self.initial[n] for n in self.vals)


def cm_unit(prop, target, varnames, make_env, expect_at_yield, trusted=(), extra_calls=None, label=""):
    """make_env(ctx, vars) -> env dict; expect_at_yield(vars, env) -> {varname: expected value}"""
    def setup(ctx):
        vs = Vars(ctx, varnames)
        env = make_env(ctx, vs)

        def at_yield(ctx_, interp, value, e):
            want = expect_at_yield(vs, env)
            for n, v in want.items():
                ctx_.oblige("yield", f"inside-the-body:{n}-holds-the-new-value", vs.vals[n] is v or vs.vals[n] == v)

        calls = vs.calls()
        calls.update(extra_calls(ctx, vs) if extra_calls else {})
        return Setup(env=env, calls=calls, hooks={"yield": at_yield}, data={"vars": vs})

    def post(ctx, st, result):
        vs = st.data["vars"]
        ctx.oblige("post", "normal-exit:every-context-variable-is-restored", vs.restored(), note=str({n: vs.vals[n] for n in vs.vals}))
        ctx.oblige("post", "yields-exactly-once", len([e for e in ctx.events if e[0] == "yield"]) == 1)

    def raises(ctx, st, exc):
        vs = st.data["vars"]
        if exc.cls == "<Any>":
            ctx.oblige("post", "exception-from-the-body:every-context-variable-is-restored", vs.restored(), note=str({n: vs.vals[n] for n in vs.vals}))
        else:
            ctx.oblige("raises", f"no-own-exception(got {exc.cls}@{exc.origin})", False)

    return Unit(prop, target, setup, post, raises, expect_cover=("return", "raise:<Any>"), label=label,
                trusted=["ContextVar.get/set/reset behave as a variable with a token remembering the previous value", "the with-body leaves the variable as it found it (nested uses: by this same contract)"] + list(trusted))


def standard_units(prop):
    new = Rec("new-value")
    units = []

    def simple(target, var, argname=None, value=None):
        def make_env(ctx, vs):
            return {argname: new} if argname else {}
        return cm_unit(prop, target, [var], make_env, lambda vs, env: {var: (new if argname else value)})

    units.append(simple("jsonargparse._link_arguments:skip_apply_links", "apply_config_skip", value=True))
    units.append(simple("jsonargparse._actions:previous_config_context", "previous_config", argname="cfg"))
    units.append(simple("jsonargparse._actions:_ActionPrintConfig.skip_print_config", "print_config_skip", value=True))
    units.append(simple("jsonargparse._actions:_ActionSubCommands.not_single_subcommand", "single_subcommand", value=False))
    units.append(simple("jsonargparse._typehints:ActionTypeHint.allow_default_instance_context", "allow_default_instance", value=True))
    units.append(simple("jsonargparse._typehints:ActionTypeHint.sub_defaults_context", "sub_defaults", value=True))

    # parent_parsers_context(key, parser): curr = [] if parser is None else prev + [(key, parser)]
    def pp_env(ctx, vs):
        has_parser = ctx.choose(2, "parser-given") == 1
        vs.vals["parent_parsers"] = [("outer", Rec("ArgumentParser"))]
        vs.initial["parent_parsers"] = vs.vals["parent_parsers"]
        return {"key": "k", "parser": Rec("ArgumentParser", attrs={"tag": "p"}) if has_parser else None}
    units.append(cm_unit(prop, "jsonargparse._actions:parent_parsers_context", ["parent_parsers"], pp_env,
                         lambda vs, env: {"parent_parsers": ([] if env["parser"] is None else vs.initial["parent_parsers"] + [("k", env["parser"])])}))

    # parser_context(**kwargs): any subset of the registered variables
    names = ["parent_parser", "lenient_check", "load_value_mode"]

    def pc_env(ctx, vs):
        mask = ctx.choose(8, "which-variables")
        kwargs = {n: Rec("new", attrs={"for": n}) for i, n in enumerate(names) if mask >> i & 1}
        return {"kwargs": kwargs}

    def pc_calls(ctx, vs):
        return {}
    u = cm_unit(prop, "jsonargparse._common:parser_context", names, pc_env, lambda vs, env: dict(env["kwargs"]))
    orig_setup = u.setup

    def setup2(ctx):
        st = orig_setup(ctx)
        vs = st.data["vars"]
        st.consts = {"parser_context_vars": {n: vs.var_rec(n) for n in names}}
        return st
    u.setup = setup2
    units.append(u)
    return units
