"""get_import_path / resolve_class_path_by_name / normalize_import_path (C14: the accepted class_path denotes the very class
that was named and checked; a bare class name denotes the same class as its explicit path).

get_import_path: for a class (or function) `value` defined in module p.q.r under qualname K (or Outer.K), with the parent
packages p and p.q exposing under the same names nothing / the same object / a *different* object, the returned path
resolves - by import_object's rule: longest importable module prefix, then attribute chain - to `value` itself.
"""
import collections

from pyvc.engine import PyRaise, ExcVal, Rec
from pyvc.units import Setup, Unit

MODS = ["p", "p.q", "p.q.r"]


def gip_setup(ctx):
    shape = ["class K", "class Outer.K", "function f", "top-level-module class"][ctx.choose(4, "value-kind")]
    nested = shape == "class Outer.K"
    module_path = "m" if shape == "top-level-module class" else "p.q.r"
    qual = {"class K": "K", "class Outer.K": "Outer.K", "function f": "f", "top-level-module class": "K"}[shape]
    leaf = qual.rsplit(".", 1)[-1]
    value = Rec(f"<{shape} of {module_path}>", attrs={"__module__": module_path, "__qualname__": qual, "__name__": leaf})
    other = Rec("<another object with the same name>", attrs={"__module__": "p", "__qualname__": qual, "__name__": leaf})
    true_outer = Rec("<class Outer>", attrs={leaf: value})
    other_outer = Rec("<another Outer>", attrs={leaf: other})
    table = {}
    mods = [module_path] if module_path == "m" else MODS
    for i, m in enumerate(mods):
        attrs = {}
        final = i == len(mods) - 1
        if final:
            if nested:
                attrs["Outer"] = true_outer
            else:
                attrs[leaf] = value
        else:
            what = ["absent", "same-object", "different-object"][ctx.choose(3, f"{m}.{leaf}")]
            if what != "absent":
                attrs[leaf] = value if what == "same-object" else other
            if nested:
                o = ["absent", "same-Outer", "different-Outer"][ctx.choose(3, f"{m}.Outer")]
                if o != "absent":
                    attrs["Outer"] = true_outer if o == "same-Outer" else other_outer
        table[m] = Rec(f"<module {m}>", attrs=attrs)

    def import_module(c, a, k):
        if a[0] not in table:
            raise PyRaise(ExcVal("ModuleNotFoundError", (a[0],), origin="import_module"))
        return table[a[0]]

    is_class = shape != "function f"
    calls = {"get_generic_origin": lambda c, a, k: a[0], "import_module": import_module,
             "inspect.isclass": lambda c, a, k: a[0] is value and is_class or a[0] in (true_outer, other_outer),
             "inspect.ismethod": lambda c, a, k: False}
    return Setup(env={"value": value}, calls=calls, consts={"unresolvable_import_paths": {}}, data=dict(table=table, value=value, shape=shape))


def resolve(table, path):
    """import_object's rule on the modelled module table."""
    parts = path.split(".")
    for cut in range(len(parts) - 1, 0, -1):
        m = ".".join(parts[:cut])
        if m in table:
            obj = table[m]
            for a in parts[cut:]:
                if not isinstance(obj, Rec) or a not in obj.attrs:
                    return None
                obj = obj.attrs[a]
            return obj
    return None


def gip_post(ctx, st, result):
    d = st.data
    ctx.oblige("post", f"the-returned-path-imports-back-to-the-very-object[{d['shape']}]", isinstance(result, str) and resolve(d["table"], result) is d["value"])


def gip_raises(ctx, st, exc):
    ctx.oblige("raises", f"an-importable-module-level-object-always-has-a-path(got {exc.cls}@{exc.origin})", False)


# ------------------------------------------------------------------------------------------------ resolve_class_path_by_name
POOLS = [[], ["pkg.a.Square"], ["pkg.a.Square", "pkg.b.Circle"], ["pkg.a.Square", "pkg.b.Square"], ["pkg.a.Circle", "pkg.b.Squares", "other.xSquare"],
         ["x.Circle", "pkg.a.Square", "y.Tri"], ["x.Square", "y.Circle", "z.Square"]]


def rcp_setup(ctx):
    pool = POOLS[ctx.choose(len(POOLS), "currently-known-subclasses")]
    name = ["Square", "pkg.a.Square", "Hexagon", "mod.Hexagon"][ctx.choose(4, "name")]
    cls = Rec("<declared base>")

    def subclass_paths(c, a, k):
        c.event("subclasses-looked-up-now", a[0])
        return list(pool)

    return Setup(env={"cls": cls, "name": name}, calls={"get_all_subclass_paths": subclass_paths, "defaultdict": lambda c, a, k: collections.defaultdict(list)},
                 data=dict(pool=pool, name=name, cls=cls))


def rcp_expected(d):
    if "." in d["name"]:
        return d["name"]
    m = [p for p in d["pool"] if p.rsplit(".", 1)[1] == d["name"]]
    return m[0] if len(m) == 1 else (d["name"] if not m else None)


def rcp_post(ctx, st, result):
    d = st.data
    exp = rcp_expected(d)
    tag = f"[{d['name']} among {d['pool']}]"
    ctx.oblige("post", "a-bare-name-denotes-the-one-subclass-known-at-the-time-of-the-call(an explicit path and an unknown name are returned as given)" + tag, exp is not None and result == exp)
    if "." not in d["name"]:
        ctx.oblige("post", "the-subclasses-are-looked-up-at-the-time-of-the-call(for the declared class)" + tag, [e for e in ctx.events if e[0] == "subclasses-looked-up-now"] == [("subclasses-looked-up-now", d["cls"])])


def rcp_raises(ctx, st, exc):
    d = st.data
    ctx.oblige("raises", f"only-an-ambiguous-bare-name-is-refused(got {exc.cls})[{d['name']} among {d['pool']}]", exc.cls == "ValueError" and rcp_expected(d) is None)


# ------------------------------------------------------------------------------------------------ normalize_import_path
def nip_setup(ctx):
    name = ["Square", "pkg.a.Square"][ctx.choose(2, "class_path")]
    typehint, obj = Rec("<declared type>"), Rec("<imported object>")
    calls = {"resolve_class_path_by_name": lambda c, a, k: (c.event("resolve", a[0], a[1]), "pkg.a." + a[1])[1],
             "import_object": lambda c, a, k: (c.event("import", a[0]), obj)[1],
             "get_import_path": lambda c, a, k: (c.event("path-of", a[0]), "pkg.Square")[1]}
    return Setup(env={"class_path": name, "typehint": typehint}, calls=calls, data=dict(name=name, typehint=typehint, obj=obj))


def nip_post(ctx, st, result):
    d = st.data
    full = d["name"] if "." in d["name"] else "pkg.a." + d["name"]
    want = ([("resolve", d["typehint"], d["name"])] if "." not in d["name"] else []) + [("import", full), ("path-of", d["obj"])]
    ctx.oblige("post", f"the-normalised-path-is-the-import-path-of-the-object-the-(resolved)-name-imports-to[{d['name']}]", list(ctx.events) == want and result == "pkg.Square")


def units(prop):
    return [
        Unit(prop, "jsonargparse._util:get_import_path", gip_setup, gip_post, gip_raises, expect_cover=("return",), max_paths=4000,
             trusted=["import_module: modelled as a lookup in a table of the modules p, p.q, p.q.r (parent packages expose nothing / the same / a different object under the same name)",
                      "import_object resolves longest-module-prefix + attribute chain (the `resolve` spec function)"]),
        Unit(prop, "jsonargparse._typehints:resolve_class_path_by_name", rcp_setup, rcp_post, rcp_raises, expect_cover=("return", "raise:ValueError"),
             trusted=["get_all_subclass_paths(cls): the import paths of the subclasses that exist when it is called (7 concrete pools)"]),
        Unit(prop, "jsonargparse._typehints:normalize_import_path", nip_setup, nip_post, None, expect_cover=("return",)),
    ]


# ------------------------------------------------------------------------------------------------ import_object
# the resolution rule that get_import_path's round trip relies on: "a.b.C" is attribute C of module a.b; when a.b is not a module,
# attribute C of attribute b of module a (a class nested in a class / a class method); anything that is not a dotted path of identifiers is refused
def io_setup(ctx):
    name = ["pkg.mod.K", "pkg.mod.Outer.K", "mod.K", "K", "pkg.mod.", "pkg.mod.1x", "pkg..K", "nomod.K", "pkg.nomod.K", "pkg.mod.missing", 7][ctx.choose(11, "name")]
    K, OK_ = Rec("class K"), Rec("class Outer.K")
    outer = Rec("class Outer", attrs={"K": OK_})
    mods = {"pkg.mod": Rec("module pkg.mod", attrs={"K": K, "Outer": outer}), "mod": Rec("module mod", attrs={"K": K}), "pkg": Rec("module pkg", attrs={"mod": None})}
    mods["pkg"].attrs["mod"] = mods["pkg.mod"]

    def imp(c, a, k):
        c.event("import", a[0], tuple(k.get("fromlist", ())))
        if a[0] not in mods:
            raise PyRaise(ExcVal("ModuleNotFoundError", (a[0],), origin="__import__"))
        return mods[a[0]]

    return Setup(env={"name": name}, calls={"__import__": imp}, data=dict(name=name, K=K, OK_=OK_))


def io_expected(d):
    return {"pkg.mod.K": d["K"], "pkg.mod.Outer.K": d["OK_"], "mod.K": d["K"]}.get(d["name"])


def io_post(ctx, st, result):
    d = st.data
    ctx.oblige("post", f"the-object-at-the-end-of-the-dotted-path(longest module prefix,then attributes)[{d['name']!r}]", io_expected(d) is not None and result is io_expected(d))


def io_raises(ctx, st, exc):
    d = st.data
    bad_format = not isinstance(d["name"], str) or d["name"] in ("K", "pkg.mod.", "pkg.mod.1x", "pkg..K")
    want = "ValueError" if bad_format else {"nomod.K": "ModuleNotFoundError", "pkg.nomod.K": "AttributeError", "pkg.mod.missing": "AttributeError"}.get(d["name"])
    ctx.oblige("raises", f"not-a-dotted-path-of-identifiers=>ValueError;unknown-module=>ModuleNotFoundError;unknown-attribute=>AttributeError[{d['name']!r}](got {exc.cls})", want is not None and exc.cls == want)


def import_object_unit(prop):
    return Unit(prop, "jsonargparse._util:import_object", io_setup, io_post, io_raises, expect_cover=("return", "raise:ValueError", "raise:ModuleNotFoundError", "raise:AttributeError"),
                trusted=["__import__(module, fromlist=[name]) returns the module object or raises ModuleNotFoundError", "str.isidentifier / rsplit evaluated by CPython on the concrete names"])
