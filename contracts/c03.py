"""C03 - every parse failure surfaces as ArgumentError or exit status 2, nothing else.

What contracts decide here is the *explicit* channel: on the real bodies, with every callee allowed to raise each of
TypeError / KeyError / NSKeyError, every exceptional exit of the parse methods goes through self.error, and self.error
either raises ArgumentError or prints usage + an error line to stderr and exits with status 2.
  ArgumentParser.error
  ArgumentParser.parse_args / parse_object / parse_string (fault mode)   raises only via self.error
  ArgumentParser._load_config_parser_mode    loader exceptions and non-dict documents become TypeError
  ActionConfigFile.apply_config              Path/loader/parse failures become TypeError naming the key
  _ActionPrintConfig.print_config_if_requested   status 0, request deleted before exiting
Absence of *implicit* exceptions (AttributeError, RecursionError ... anywhere in the call graph incl. argparse and PyYAML)
is outside any contract within reach; that clause is checked by the bounded harness only.
"""
import z3

from contracts.c04 import ac_setup, common_calls, pa_setup, po_setup, ps_setup
from contracts.parse_models import ParserModel, cfg, expr_of, noop_cm
from pyvc.engine import ClassRef, ExcVal, PyRaise, Rec, Unsupported, lift, is_z3
from pyvc.units import Setup, Unit


# ------------------------------------------------------------------------------------- error
def err_setup(ctx):
    exit_on_error = ctx.choose(2, "exit_on_error") == 1
    debug = ctx.choose(2, "debug-mode") == 1
    handler = ctx.choose(2, "error_handler-set") == 1
    out = []
    stderr = Rec("stderr", methods={"write": lambda c, s_, a, k: c.event("stderr.write", a[0])})
    self = Rec("ArgumentParser", attrs={"exit_on_error": exit_on_error, "_logger": Rec("Logger", methods={"error": lambda c, s_, a, k: None, "debug": lambda c, s_, a, k: None}),
                                        "_error_handler": Rec("function", methods={"__call__": lambda c, s_, a, k: c.event("handler")}) if handler else None},
               methods={"print_usage": lambda c, s_, a, k: c.event("print_usage", a[0]),
                        "exit": lambda c, s_, a, k: (c.event("exit", a[0]), (_ for _ in ()).throw(PyRaise(ExcVal("SystemExit", args=(a[0],), origin="self.exit"))))[1]})
    calls = {"callable": lambda c, a, k: a[0] is not None, "debug_mode_active": lambda c, a, k: debug,
             "argument_error": lambda c, a, k: ExcVal("ArgumentError", args=(a[0],), origin="argument_error"),
             "self._error_handler": lambda c, a, k: c.event("handler")}
    consts = {"sys.stderr": stderr}
    message = z3.String("message")
    return Setup(env={"self": self, "message": message, "ex": None}, calls=calls, consts=consts, data=dict(exit_on_error=exit_on_error, debug=debug, message=message, stderr=stderr))


def err_post(ctx, st, result):
    ctx.oblige("post", "error-never-returns", False)


def err_raises(ctx, st, exc):
    d = st.data
    if not d["exit_on_error"] or d["debug"]:
        ctx.oblige("raises", "exit_on_error-off(or debug)=>ArgumentError-carrying-the-message", exc.cls == "ArgumentError" and len(exc.args) == 1 and exc.args[0] is d["message"])
        ctx.oblige("raises", "no-exit-and-nothing-on-stderr-in-exception-mode", not [e for e in ctx.events if e[0] in ("exit", "stderr.write", "print_usage")])
    else:
        ctx.oblige("raises", "exit_on_error-on=>exit-status-2", exc.cls == "SystemExit" and exc.args == (2,))
        seq = [e[0] for e in ctx.events if e[0] in ("print_usage", "stderr.write", "exit")]
        ctx.oblige("raises", "usage-then-error-line-on-stderr-then-exit", seq == ["print_usage", "stderr.write", "exit"] and [e for e in ctx.events if e[0] == "print_usage"][0][1] is d["stderr"])


# ------------------------------------------------------------------------------------- parse methods in fault mode
def only_via_error(ctx, st, exc):
    ctx.oblige("raises", f"every-exceptional-exit-goes-through-self.error(got {exc.cls}@{exc.origin})", exc.origin == "self.error" and exc.cls in ("ArgumentError", "SystemExit"))


def nothing(ctx, st, result):
    errs = [e for e in ctx.events if e[0] == "error"]
    ctx.oblige("post", "normal-return=>self.error-was-not-called", not errs)


# ------------------------------------------------------------------------------------- _load_config_parser_mode
def lc_setup(ctx):
    outcome = ctx.choose(4, "load_value")  # 0 dict, 1 non-dict document, 2 loader exception, 3 other exception
    key_given = ctx.choose(2, "key-given") == 1
    ctx.classes.add("YAMLError", ["Exception"])
    # with a key (the section of a subcommand inside a parent's default config file) the entry under that key is what gets applied: it must be a mapping too
    entry_kind = ["mapping", "scalar", "list", "null"][ctx.choose(4, "entry-under-the-key")] if (key_given and outcome == 0) else "mapping"
    entry = {"mapping": Rec("dict", attrs={"sub": "k"}), "scalar": z3.Int("a-scalar-under-the-key"), "list": [1], "null": None}[entry_kind]
    loaded = Rec("dict", methods={"get": lambda c, s_, a, k: entry})

    def load_value(c, a, k):
        if outcome == 0:
            return loaded
        if outcome == 1:
            return z3.Int("a-scalar-document")
        raise PyRaise(ExcVal("YAMLError" if outcome == 2 else "RecursionError", origin="load_value"))

    self = Rec("ArgumentParser", methods={"_apply_actions": lambda c, s_, a, k: (c.event("apply", a[0]), cfg("applied"))[1]})
    calls = {"load_value": load_value, "get_loader_exceptions": lambda c, a, k: (ClassRef("YAMLError"),)}
    env = {"self": self, "cfg_str": z3.String("cfg_str"), "cfg_path": "", "ext_vars": None, "prev_cfg": None, "key": "k" if key_given else None}
    return Setup(env=env, calls=calls, data=dict(outcome=outcome, entry_kind=entry_kind, entry=entry, loaded=loaded, key_given=key_given))


def lc_post(ctx, st, result):
    d = st.data
    ctx.oblige("post", "only-a-mapping-document-is-applied(with a key: only a mapping found under that key)", d["outcome"] == 0 and d["entry_kind"] == "mapping")
    ap = [e for e in ctx.events if e[0] == "apply"]
    ctx.oblige("post", "what-is-applied-is-the-document(with a key: its entry under that key),once", len(ap) == 1 and ap[0][1] is (d["entry"] if d["key_given"] else d["loaded"]))


def lc_raises(ctx, st, exc):
    o = st.data["outcome"]
    if o == 0:
        ctx.oblige("raises", f"a-non-mapping-under-the-key=>TypeError(got {exc.cls}@{exc.origin})", exc.cls == "TypeError" and st.data["entry_kind"] != "mapping")
    elif o in (1, 2):
        ctx.oblige("raises", "non-mapping-document-or-loader-error=>TypeError", exc.cls == "TypeError")
    else:
        ctx.oblige("raises", f"unanticipated-exception-passes-unchanged(got {exc.cls})", exc.origin == "load_value")


# ------------------------------------------------------------------------------------- apply_config in fault mode
def acf_setup(ctx):
    st = ac_setup(ctx)
    # let parse_string / parse_path / load_value fail in every anticipated way
    parser = st.env["parser"]
    for name in ("parse_path", "parse_string"):
        orig = parser.methods[name]

        def wrapped(c, s_, a, k, _o=orig, _n=name):
            which = c.choose(4, f"{_n}-raises")
            if which:
                raise PyRaise(ExcVal(["TypeError", "ValueError", "YAMLError"][which - 1], origin=_n))
            return _o(c, s_, a, k)
        parser.methods[name] = wrapped
    return st


def acf_post(ctx, st, result):
    pass


def acf_raises(ctx, st, exc):
    if exc.origin == "parse_path":
        # the path branch (`else:` of the try) is not wrapped: TypeError passes as is - still a TypeError for the caller
        ctx.oblige("raises", "failure-while-parsing-a-config-file-is-a-TypeError-or-anticipated-loader-error", exc.cls in ("TypeError", "ValueError", "YAMLError"))
    else:
        ctx.oblige("raises", f"failure-of-a-config-string=>TypeError-naming-the-key(got {exc.cls}@{exc.origin})", exc.cls == "TypeError" and exc.origin.startswith("raise@"))


# ------------------------------------------------------------------------------------- print_config_if_requested
def pc_setup(ctx):
    requested = ctx.choose(2, "requested") == 1
    skip = ctx.choose(2, "print_config_skip") == 1
    key = [None, "fit"][ctx.choose(2, "subcommand-key")]
    dump_fails = ctx.choose(2, "dump-raises") == 1
    flags = {"skip_none": False, "skip_validation": False}
    sub = Rec("ArgumentParser")

    def dump(c, s_, a, k):
        c.event("dump", a[0], dict(k))
        if dump_fails:
            raise PyRaise(ExcVal("TypeError", origin="dump"))
        return z3.String("dumped-text")

    sub.methods["dump"] = dump
    pcfg = dict(flags, key=key, subparser=sub)
    parser = Rec("ArgumentParser", attrs=({"print_config": pcfg} if requested else {}),
                 methods={"exit": lambda c, s_, a, k: (c.event("exit", a), (_ for _ in ()).throw(PyRaise(ExcVal("SystemExit", args=tuple(a) or (0,), origin="parser.exit"))))[1]})
    section = cfg("SECTION")
    whole = Rec("Namespace", attrs={"expr": "WHOLE"}, methods={"__getitem__": lambda c, s_, a, k: section})
    stdout = Rec("stdout", methods={"write": lambda c, s_, a, k: c.event("stdout.write", a[0])})
    calls = {"print_config_skip.get": lambda c, a, k: skip}
    return Setup(env={"parser": parser, "cfg": whole}, calls=calls, consts={"sys.stdout": stdout}, cms={"parser_context": noop_cm("parser_context")},
                 data=dict(requested=requested, skip=skip, key=key, parser=parser, whole=whole, section=section, flags=flags, dump_fails=dump_fails))


def pc_post(ctx, st, result):
    d = st.data
    ctx.oblige("post", "returns-only-when-nothing-was-requested(or printing is suspended)", not d["requested"] or d["skip"])
    ctx.oblige("post", "nothing-printed-on-return", not [e for e in ctx.events if e[0] in ("dump", "stdout.write")])


def pc_raises(ctx, st, exc):
    d = st.data
    if exc.origin == "dump":
        return  # a failing dump propagates (the caller's try/except turns it into the error channel); its effect on the pending request is C09's concern
    ctx.oblige("raises", "exits-with-status-0", exc.cls == "SystemExit" and exc.args in ((0,), ()))
    dumps = [e for e in ctx.events if e[0] == "dump"]
    ctx.oblige("raises", "what-is-printed-is-subparser.dump(cfg or cfg[key], exactly the requested flags)", len(dumps) == 1 and dumps[0][1] is (d["section"] if d["key"] else d["whole"]) and dumps[0][2] == d["flags"])
    ctx.oblige("raises", "the-request-is-deleted-before-exiting", "print_config" not in d["parser"].attrs)


UNITS = [
    Unit("C03", "jsonargparse._core:ArgumentParser.error", err_setup, err_post, err_raises, expect_cover=("raise:ArgumentError", "raise:SystemExit"),
         trusted=["argument_error(message) builds an ArgumentError carrying the message; self.exit(2) raises SystemExit(2)"]),
    Unit("C03", "jsonargparse._core:ArgumentParser.parse_args", lambda c: pa_setup(c, faults=True), nothing, only_via_error, label="fault-mode", max_paths=20000,
         expect_cover=("return", "raise:ArgumentError", "raise:SystemExit"),
         trusted=["self.error never returns: raises ArgumentError or SystemExit(2) (unit above)", "callees raise only TypeError/KeyError/NSKeyError here: *explicit* exception flow (implicit exceptions are outside the contract)"]),
    Unit("C03", "jsonargparse._core:ArgumentParser.parse_object", lambda c: po_setup(c, faults=True), nothing, only_via_error, label="fault-mode", max_paths=20000, expect_cover=("return", "raise:ArgumentError")),
    Unit("C03", "jsonargparse._core:ArgumentParser.parse_string", lambda c: ps_setup(c, faults=True), nothing, only_via_error, label="fault-mode", max_paths=20000, expect_cover=("return", "raise:ArgumentError")),
    Unit("C03", "jsonargparse._core:ArgumentParser._load_config_parser_mode", lc_setup, lc_post, lc_raises, expect_cover=("return", "raise:TypeError")),
    Unit("C03", "jsonargparse._actions:ActionConfigFile.apply_config", acf_setup, acf_post, acf_raises, label="fault-mode", expect_cover=("return", "raise:TypeError")),
    Unit("C03", "jsonargparse._actions:_ActionPrintConfig.print_config_if_requested", pc_setup, pc_post, pc_raises, expect_cover=("return", "raise:SystemExit")),
]
from contracts.check_type import check_type_unit  # noqa: E402
UNITS.append(check_type_unit("C03"))

from contracts.class_type import subclass_arm_unit  # noqa: E402
UNITS.append(subclass_arm_unit("C03"))

VERIFIED_CALLEES = ("self.error",)
LEVEL = "other"
TECHNIQUE = "contract-based deductive verification of the explicit error channel (VCs from the real AST, exception flow explored path by path with fault-raising callee contracts) + bounded run-time contract checking over an argv/config grammar"
LEVEL_TEXT = 'Proved on the real bodies, with every callee allowed to raise TypeError/KeyError/NSKeyError: every exceptional exit of parse_args / parse_object / parse_string goes through self.error, which raises ArgumentError or prints usage + error line to stderr and exits 2; non-mapping documents and loader errors become TypeError; print_config exits 0 after deleting the request. Since the fourth round also: the exception clauses of every arm of adapt_typehints (an arm rejects with ValueError only; a loader error of PyYAML is suppressed whatever the parser mode) and _check_value_key refusing a non-list for a list-valued option with choices by TypeError (an AssertionError escaped; fixed). Not provable with any contract within reach: absence of implicit exceptions in the whole call graph (argparse, PyYAML ...) - that clause is bounded only (42k inputs over an argv/config grammar, both exit_on_error modes).'
LEVEL_NOTE = "under construction"
EXPLANATION = "under construction"
ASSUMPTIONS = []
TRUSTED = []
BOUNDED = [{"name": "error-channel-over-argv-and-config-grammar", "script": "bounded/b03_error_channel.py"}]


# ------------------------------------------------------------------------------------------------ add_subcommand: error channel inherited
def asc_setup(ctx):
    name = ["fit", "subcommand"][ctx.choose(2, "name")]
    has_sub = ctx.choose(2, "sub-parser-already-has-subcommands") == 1
    kw = [{}, {"aliases": ("f", "train"), "help": "fit the model"}][ctx.choose(2, "kwargs")]
    parent = Rec("ArgumentParser(parent)", attrs={"default_env": z3.Bool("parent.default_env"), "parser_mode": z3.String("parent.parser_mode"), "exit_on_error": z3.Bool("parent.exit_on_error"),
                                                   "_error_handler": Rec("error_handler"), "logger": Rec("logger")})
    parser = Rec("ArgumentParser(sub)", attrs={"_subparsers": Rec("subparsers") if has_sub else None, "exit_on_error": z3.Bool("sub.exit_on_error(before)"), "parser_mode": z3.String("sub.parser_mode(before)"),
                                                "_error_handler": Rec("sub_handler"), "logger": Rec("sub_logger"), "default_env": z3.Bool("sub.default_env(before)")})
    self = Rec("_ActionSubCommands", attrs={"dest": "subcommand", "_prog_prefix": "app", "env_prefix": "APP_", "parent_parser": parent, "_choices_actions": [], "_name_parser_map": {}},
               methods={"_ChoicesPseudoAction": lambda c, s_, a, k: Rec("choice", attrs={"name": a[0], "aliases": a[1], "help": a[2]})})
    return Setup(env={"self": self, "name": name, "parser": parser, "kwargs": dict(kw)}, data=dict(name=name, has_sub=has_sub, kw=kw, parent=parent, parser=parser, self_=self))


def asc_post(ctx, st, result):
    d = st.data
    p, par = d["parser"], d["parent"]
    if d["has_sub"] or d["name"] == "subcommand":
        ctx.oblige("post", "a-sub-parser-with-subcommands-or-a-name-equal-to-dest-is-refused", False)
        return
    ctx.oblige("post", "the-sub-parser-reports-failures-the-way-its-parent-does(exit_on_error and error handler inherited)",
               z3.And(lift(p.attrs["exit_on_error"]) == par.attrs["exit_on_error"], z3.BoolVal(p.attrs["_error_handler"] is par.attrs["_error_handler"])))
    ctx.oblige("post", "the-sub-parser-loads-values-in-the-parent's-mode-and-environment-setting",
               z3.And(lift(p.attrs["parser_mode"]) == par.attrs["parser_mode"], lift(p.attrs["default_env"]) == par.attrs["default_env"], z3.BoolVal(p.attrs["logger"] is par.attrs["logger"])))
    names = (d["name"],) + tuple(d["kw"].get("aliases", ()))
    m = d["self_"].attrs["_name_parser_map"]
    ctx.oblige("post", "the-name-and-every-alias-select-this-sub-parser", result is p and sorted(m) == sorted(names) and all(v is p for v in m.values())
               and p.attrs.get("parent_parser") is par and p.attrs.get("subcommand") == d["name"] and p.attrs.get("env_prefix") == "APP_" + d["name"] + "_")


def asc_raises(ctx, st, exc):
    d = st.data
    ctx.oblige("raises", f"only-the-two-declaration-errors-are-refused(got {exc.cls})", exc.cls == "ValueError" and (d["has_sub"] or d["name"] == "subcommand"))


UNITS.append(Unit("C03", "jsonargparse._actions:_ActionSubCommands.add_subcommand", asc_setup, asc_post, asc_raises, expect_cover=("return", "raise:ValueError"),
                  trusted=["argparse's _ChoicesPseudoAction only holds help text"]))


from contracts.appends_unit import apply_appends_unit  # noqa: E402
UNITS.append(apply_appends_unit("C03"))

# a problem in a default config file surfaces as ArgumentError (get_defaults)
import dataclasses as _dc  # noqa: E402
from contracts.c04 import UNITS as _C04_UNITS  # noqa: E402
UNITS += [_dc.replace(u, prop="C03") for u in _C04_UNITS if u.target.endswith("ArgumentParser.get_defaults")]

from contracts.check_value_key import check_value_key_unit  # noqa: E402
UNITS.append(check_value_key_unit("C03"))
UNITS += [_dc.replace(u, prop="C03") for u in _C04_UNITS if u.target.endswith("_ActionConfigLoad._load_config")]


# ------------------------------------------------------------------------------------- parse_env in fault mode; parse_known_args
from contracts.c04 import pe_setup  # noqa: E402
UNITS.append(Unit("C03", "jsonargparse._core:ArgumentParser.parse_env", lambda ctx: pe_setup(ctx, faults=True), nothing, only_via_error, label="fault-mode", max_paths=20000, expect_cover=("return", "raise:ArgumentError", "raise:SystemExit")))


def pka_setup(ctx):
    caller = ["jsonargparse", "argcomplete", "user_package", None, "no-module"][ctx.choose(5, "package-of-the-caller")]
    fate = ["ok", "ArgumentError", "TypeError"][ctx.choose(3, "argparse's-_parse_known_args")]
    intermixed = ctx.choose(2, "python-has-the-intermixed-keyword") == 1
    ctx.classes.add("ArgumentError", ["Exception"])
    open_cms = []
    ns_in, ns_out = Rec("Namespace in"), Rec("Namespace out")
    pm = ParserModel(ctx)

    def inner(c, s_, a, k):
        c.event("argparse._parse_known_args", a[0], a[1], dict(k), list(open_cms))
        if fate != "ok":
            raise PyRaise(ExcVal(fate, args=("argument --x: invalid",), origin="argparse"))
        return (ns_out, ["left"])

    pm.rec.methods["_parse_known_args"] = inner
    mod = None if caller == "no-module" else Rec("module", attrs={"__package__": caller})
    frame = Rec("frame")
    calls = {"inspect.stack": lambda c, a, k: [(Rec("own frame"),), (frame,)], "inspect.getmodule": lambda c, a, k: mod if a[0] is frame else Rec("module", attrs={"__package__": "jsonargparse"}),
             "argcomplete_namespace": lambda c, a, k: a[2], "str": lambda c, a, k: "text of the error"}

    def cm(name):
        return (lambda c, a, k: open_cms.append((name, dict(k)) if k else (name, a)), lambda c, t, e: (open_cms.pop(), False)[1])

    cms = {"patch_namespace": cm("patch_namespace"), "parser_context": cm("parser_context"), "ActionTypeHint.subclass_arg_context": cm("subclass_arg_context")}
    consts = {"_parse_known_has_intermixed": intermixed, "argparse": Rec("argparse", attrs={"ArgumentError": ClassRef("ArgumentError")})}
    args = ["--x", "1"]
    return Setup(env={"self": pm.rec, "args": args, "namespace": ns_in}, calls=calls, cms=cms, consts=consts,
                 data=dict(caller=caller, fate=fate, intermixed=intermixed, ns_in=ns_in, ns_out=ns_out, args=args, open_cms=open_cms, pm=pm))


def pka_post(ctx, st, result):
    d = st.data
    tag = f"[caller:{d['caller']},{d['fate']}]"
    ctx.oblige("post", "only-jsonargparse-itself(and argcomplete)-may-call-it:there-is-no-lenient-entry-point-for-users" + tag, d["caller"] in ("jsonargparse", "argcomplete") and d["fate"] == "ok")
    ev = [e for e in ctx.events if e[0] == "argparse._parse_known_args"]
    inside = ev[0][4] if ev else []
    ctx.oblige("post", "argparse-runs-once,on-the-given-argv-and-namespace,with-Namespace-patched,inside-this-parser's-lenient-context" + tag,
               len(ev) == 1 and ev[0][1] is d["args"] and ev[0][2] is d["ns_in"] and [x[0] for x in inside] == ["patch_namespace", "parser_context", "subclass_arg_context"]
               and inside[1][1] == {"parent_parser": d["pm"].rec, "lenient_check": True} and ev[0][3] == ({"intermixed": False} if d["intermixed"] else {}))
    ctx.oblige("post", "returns-argparse's-(namespace, leftover)-and-leaves-no-context-open" + tag, isinstance(result, tuple) and result[0] is d["ns_out"] and result[1] == ["left"] and not d["open_cms"])


def pka_raises(ctx, st, exc):
    d = st.data
    tag = f"[caller:{d['caller']},{d['fate']}]"
    if d["caller"] not in ("jsonargparse", "argcomplete"):
        ctx.oblige("raises", "a-foreign-caller-is-refused-before-anything-is-parsed" + tag, exc.cls == "NotImplementedError" and not [e for e in ctx.events if e[0] == "argparse._parse_known_args"])
    elif d["fate"] == "ArgumentError":
        ctx.oblige("raises", "argparse's-ArgumentError-goes-through-self.error" + tag, exc.origin == "self.error" and not d["open_cms"])
    else:
        ctx.oblige("raises", f"another-exception-is-left-to-the-callers'-handlers(TypeError is caught by parse_args)(got {exc.cls}@{exc.origin})" + tag, d["fate"] == "TypeError" and exc.cls == "TypeError" and not d["open_cms"])


UNITS.append(Unit("C03", "jsonargparse._core:ArgumentParser.parse_known_args", pka_setup, pka_post, pka_raises, max_paths=5000, expect_cover=("return", "raise:NotImplementedError", "raise:ArgumentError"),
                  trusted=["argparse's _parse_known_args; inspect.stack()[1] is the caller's frame", "patch_namespace / parser_context: their own units"]))

# the arms of adapt_typehints reject with ValueError only (what _check_type converts, and the parse methods report as ArgumentError):
# a loader, import or arithmetic exception that leaves an arm as itself escapes every parse method
from contracts.adapt_arms import arms_units as _arms_units  # noqa: E402
from contracts.share import only_clauses  # noqa: E402
UNITS += [only_clauses(u, "C03") for u in _arms_units("C02")]



# ------------------------------------------------------------------------------------------------ yaml_load: what leaves the loader
# PyYAML's constructors fail with ValueError / AttributeError / IndexError / KeyError for scalars that a resolver matched but that do not
# denote a value (0x_, ._, !!int x, !!timestamp x ...).  Every caller anticipates the loader's own exception class only, so these have to
# leave yaml_load as that class (they escaped every parse method before; fixed).
def yl_setup(ctx):
    outcome = ["loads", "YAMLError", "ValueError", "AttributeError", "IndexError", "KeyError", "UnicodeEncodeError"][ctx.choose(7, "yaml.load")]
    ctx.classes.add("YAMLError", ["Exception"])
    ctx.classes.add("UnicodeEncodeError", ["ValueError"])
    loaded = z3.Int("loaded value")

    def load(c, a, k):
        c.event("yaml.load", a[0], k.get("Loader"))
        if outcome != "loads":
            raise PyRaise(ExcVal(outcome, args=("bad scalar",), origin="yaml.load"))
        return loaded

    loader = Rec("the default loader class")
    calls = {"yaml.load": load, "get_yaml_default_loader": lambda c, a, k: loader, "yaml.YAMLError": lambda c, a, k: ExcVal("YAMLError", args=tuple(a), origin="raise-in-yaml_load")}
    consts = {"yaml": Rec("module yaml", attrs={"YAMLError": ClassRef("YAMLError")})}
    return Setup(env={"stream": z3.String("stream")}, calls=calls, consts=consts, data=dict(outcome=outcome, loaded=loaded, loader=loader))


def yl_post(ctx, st, result):
    d = st.data
    ev = [e for e in ctx.events if e[0] == "yaml.load"]
    ctx.oblige("post", "returns=>PyYAML-loaded-the-text-with-the-library's-loader-class;a-scalar-is-returned-as-loaded", d["outcome"] == "loads" and len(ev) == 1 and ev[0][2] is d["loader"] and result is d["loaded"])


def yl_raises(ctx, st, exc):
    d = st.data
    ctx.oblige("raises", f"whatever-PyYAML-fails-with(its own error, or a constructor's ValueError/AttributeError/IndexError/KeyError),the-loader's-exception-class-leaves[{d['outcome']}](got {exc.cls})",
               d["outcome"] != "loads" and exc.cls == "YAMLError")


UNITS.append(Unit("C03", "jsonargparse._loaders_dumpers:yaml_load", yl_setup, yl_post, yl_raises, expect_cover=("return", "raise:YAMLError"),
                  trusted=["yaml.load raises YAMLError or, from its constructors, ValueError (incl. UnicodeEncodeError) / AttributeError / IndexError / KeyError (observed classes: the C03 harness)",
                           "the `import yaml` inside the function is dropped by the extraction; a mapping result is outside this scenario (scalar loaded)"]))



# ------------------------------------------------------------------------------------------------ _ActionHelpClassPath.print_help (--*.help=Class)
# the help of a class is printed by a parser built on the spot; arguments that follow the option are parsed by that parser first.  A failure there
# is a failure of the parse in progress and leaves through the same channel: the helper parser reports errors the way the parser in use does
# (it was built with the default exit_on_error=True and exited with status 2 inside a parser that was asked to raise; fixed)
def ph_setup(ctx):
    eoe = ctx.choose(2, "exit_on_error-of-the-parser-in-use") == 1
    rest = ctx.choose(2, "arguments-follow-the-help-option") == 1
    cls_ok = ctx.choose(2, "class-is-a-subclass-of-the-declared-one") == 1
    made = []
    sub = Rec("ArgumentParser(help)", attrs={})
    sub.methods.update({"add_class_arguments": lambda c, s_, a, k: c.event("add_class_arguments", a[0], a[1], dict(k)), "__setattr__": lambda c, s_, a, k: s_.attrs.__setitem__(a[0], a[1]),
                        "parse_args": lambda c, s_, a, k: c.event("help.parse_args", a[0]), "print_help": lambda c, s_, a, k: c.event("help.print_help")})
    pclass = Rec("class ArgumentParser", methods={"__call__": lambda c, s_, a, k: (made.append(dict(k)), sub)[1]})
    parser = Rec("ArgumentParser", attrs={"exit_on_error": eoe, "args": ["--m.help=Leaf"] + (["--m.req=x"] if rest else [])},
                 methods={"exit": lambda c, s_, a, k: (_ for _ in ()).throw(PyRaise(ExcVal("SystemExit", args=(0,), origin="parser.exit")))})
    leaf = Rec("class Leaf")
    self = Rec("_ActionHelpClassPath", attrs={"_typehint": Rec("hint"), "nargs": None, "_baseclasses": (Rec("class Base"),), "_kind": "subclass of", "_basename": "Base", "dest": "m.help", "sub_add_kwargs": {"fail_untyped": True}},
               methods={"get_args_after_opt": lambda c, s_, a, k: list(a[0][1:])})
    calls = {"get_unaliased_type": lambda c, a, k: a[0], "get_optional_arg": lambda c, a, k: a[0], "resolve_class_path_by_name": lambda c, a, k: "pkg.Leaf", "import_object": lambda c, a, k: leaf,
             "is_subclass": lambda c, a, k: cls_ok, "implements_protocol": lambda c, a, k: False, "re.sub": lambda c, a, k: "m", "type": lambda c, a, k: pclass, "get_import_path": lambda c, a, k: "pkg.Leaf",
             "ActionTypeHint.is_callable_typehint": lambda c, a, k: False, "remove_actions": lambda c, a, k: c.event("remove_actions", a[0]),
             "argument_error": lambda c, a, k: ExcVal("ArgumentError", args=(a[0],), origin="argument_error")}
    consts = {"_HelpAction": ClassRef("_HelpAction"), "_ActionPrintConfig": ClassRef("_ActionPrintConfig"), "_ActionConfigLoad": ClassRef("_ActionConfigLoad")}
    return Setup(env={"self": self, "call_args": (parser, Rec("namespace"), "Leaf", "--m.help")}, calls=calls, consts=consts,
                 data=dict(eoe=eoe, rest=rest, cls_ok=cls_ok, made=made, sub=sub, leaf=leaf))


def ph_check(ctx, d, exc):
    tag = f"[exit_on_error={d['eoe']},{'arguments follow' if d['rest'] else 'help option last'}]"
    if not d["cls_ok"]:
        ctx.oblige("raises", "a-class-that-is-no-subclass-of-the-declared-one-is-refused-with-TypeError,before-any-parser-is-built" + tag, exc is not None and exc.cls == "TypeError" and not d["made"])
        return
    ctx.oblige("post", "the-helper-parser-reports-failures-the-way-the-parser-in-use-does(same exit_on_error)" + tag, len(d["made"]) == 1 and d["made"][0].get("exit_on_error", True) is d["eoe"])
    ev = [e[0] for e in ctx.events]
    if d["rest"]:
        ctx.oblige("post", "arguments-after-the-help-option-are-parsed-by-the-helper-parser;if-they-hold-no-nested-help-option-the-parse-fails(ArgumentError)" + tag,
                   "help.parse_args" in ev and "help.print_help" not in ev and exc is not None and exc.cls == "ArgumentError")
    else:
        ctx.oblige("post", "without-further-arguments-the-help-is-printed-and-the-parser-in-use-exits(status 0)" + tag, ev.count("help.print_help") == 1 and exc is not None and exc.cls == "SystemExit" and exc.args == (0,))


def ph_post(ctx, st, result):
    ctx.oblige("post", "print_help-never-returns-normally", False)


def ph_raises(ctx, st, exc):
    ph_check(ctx, st.data, exc)


UNITS.append(Unit("C03", "jsonargparse._actions:_ActionHelpClassPath.print_help", ph_setup, ph_post, ph_raises, expect_cover=("raise:SystemExit", "raise:ArgumentError", "raise:TypeError"),
                  trusted=["type(parser)(...) builds a parser of the same class with the given settings; add_class_arguments / remove_actions by contract", "resolve_class_path_by_name / import_object: their own units (C14)",
                           "the local `from ._typehints import` is dropped by the extraction"]))


# ------------------------------------------------------------------------------------------------ _parse_defaults_and_environ in fault mode
# The parse-method units above assume that their callees raise only TypeError / KeyError (which the methods turn into self.error).  get_defaults is the
# callee that does not: a problem in a default config file is an ArgumentError built on the spot (its own unit), whatever exit_on_error says.  The unit
# shows that this ArgumentError never leaves _parse_defaults_and_environ as such: it is handed to self.error, so the parser's mode decides the channel
# (it used to pass straight through all four parse methods: ArgumentError out of a parser created with exit_on_error=True; fixed)
def pdf_setup(ctx):
    from contracts.c04 import pde_setup
    st = pde_setup(ctx)
    self = st.env["self"]
    fault = ["none", "ArgumentError", "TypeError", "KeyError"][ctx.choose(4, "get_defaults-raises")] if st.data["defaults"] else "none"

    def get_defaults(c, s_, a, k):
        c.event("call", "get_defaults", a, dict(k))
        if fault != "none":
            raise PyRaise(ExcVal(fault, args=("Problem in default config file",), origin="get_defaults"))
        return cfg("DEFAULTS")

    self.methods["get_defaults"] = get_defaults
    st.consts["argparse.ArgumentError"] = ClassRef("ArgumentError")
    st.data["fault"] = fault
    return st


def pdf_post(ctx, st, result):
    ctx.oblige("post", "normal-return=>get_defaults-did-not-fail-and-self.error-was-not-called", st.data["fault"] == "none" and not [e for e in ctx.events if e[0] == "error"])


def pdf_raises(ctx, st, exc):
    f = st.data["fault"]
    ctx.oblige("raises", f"an-ArgumentError-of-get_defaults-is-reported-through-self.error(the parser's mode decides the channel);TypeError/KeyError-go-to-the-caller's-handler[get_defaults raises {f}](got {exc.cls}@{exc.origin})",
               (f == "ArgumentError" and exc.origin == "self.error") or (f in ("TypeError", "KeyError") and exc.cls == f and exc.origin == "get_defaults"))
    if f == "ArgumentError":
        errs = [e for e in ctx.events if e[0] == "error"]
        ctx.oblige("raises", "self.error-is-called-once-with-the-message-of-the-failure", len(errs) == 1 and len(errs[0][1]) >= 1)


UNITS.append(Unit("C03", "jsonargparse._core:ArgumentParser._parse_defaults_and_environ", pdf_setup, pdf_post, pdf_raises, label="fault-mode", expect_cover=("return", "raise:ArgumentError", "raise:SystemExit", "raise:TypeError"),
                  trusted=["get_defaults raises ArgumentError for a problem in a default config file (its own unit), TypeError / KeyError otherwise", "self.error never returns (unit above)",
                           "_load_env_vars / merge_config in the fault-free model here (their failures are TypeError / KeyError: the parse-method units)"]))

from contracts.share import carried as _carried  # noqa: E402
UNITS += _carried("C03")

# registered types: the failures announced for a deserializer when the caller names none (so that RegisteredType.deserializer turns them into a rejected value)
from contracts.share import shared as _c03_shared  # noqa: E402
UNITS += _c03_shared("C03", "contracts.c20", "typing:register_type", "RegisteredType.deserializer")
