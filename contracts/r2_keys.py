"""Key helpers and the remaining Namespace operations of jsonargparse/_namespace.py (C11; the key helpers are what C06 / C15 / C05 address keys with).

  split_key_root / split_key_leaf   for ALL strings (symbolic key; str.split / str.rsplit with maxsplit=1 are interpreted exactly: the path forks on
                                    "a dot occurs", the cut is at the first / last dot): one or two parts; joined with '.' they give the key back;
                                    two parts exactly when the key has a dot; the root (resp. leaf) part has no dot
  split_key                         for ALL strings with at most 3 dots (symbolic key): the parts joined with dots give the key back and no part contains a dot
                                    (which determines them: the dotted segments, in order, empty ones included)
  is_meta_key                       for ALL strings: true exactly when the last dotted segment is one of the three meta keys (a meta name in the middle of a
                                    key, or as a proper suffix of a longer segment, is not one)
  Namespace.__bool__                false exactly for the empty mapping (a namespace that holds only an empty branch, or a None, is not empty); stores nothing
  Namespace.as_flat                 a plain argparse.Namespace holding exactly the leaves under their dotted keys, in order; the nested namespace is unchanged
  Namespace.get_value_and_parent    (stored value, the branch that holds it, marked leaf name) for a present path, KeyError otherwise; stores nothing
  namespace_to_dict                 the nested-dictionary view, computed on a *clone* (the caller's namespace is never handed to as_dict, nor modified)
  dict_to_namespace / expand_dict   dictionaries with string keys become branches at every depth (also inside lists), anything else stays a leaf;
                                    dict_to_namespace works on a copy (recreate_branches first): the dictionary given is not modified
Namespace records, the nested-dictionary reference and the scenario trees are those of contracts/ns_units.py.
"""
import z3

from contracts.ns_units import (KEYS, MISSING, Branch, build, common, is_ns, mark, ns_rec, rec_at, same_view, scenario, trees, unmark, valid_key, view, m_leaves)
from pyvc.engine import ClassRef, ExcVal, PyRaise, Rec, is_z3, lift
from pyvc.units import Setup, Unit

DOT = z3.StringVal(".")
META = ("__default_config__", "__path__", "__orig__")


def _no_exc(ctx, st, exc):
    ctx.oblige("raises", f"never-raises(got {exc.cls}@{exc.origin})", False)


# ------------------------------------------------------------------------------------------------ split_key_root / split_key_leaf
def sk1_setup(ctx):
    key = z3.String("key")
    return Setup(env={"key": key}, data={"key": key}, watch={"key": key})


def _sk1_post(which):
    def post(ctx, st, result):
        key = st.data["key"]
        ok_shape = isinstance(result, list) and len(result) in (1, 2) and all(is_z3(x) or isinstance(x, str) for x in result)
        ctx.oblige("post", "one-or-two-parts", ok_shape)
        if not ok_shape:
            return
        parts = [lift(x) for x in result]
        joined = parts[0] if len(parts) == 1 else z3.Concat(parts[0], DOT, parts[1])
        ctx.oblige("post", "the-parts-joined-with-a-dot-give-the-key-back", joined == key)
        ctx.oblige("post", "two-parts-exactly-when-the-key-has-a-dot", z3.Contains(key, DOT) == (len(parts) == 2))
        part = parts[0] if which == "root" else parts[-1]
        ctx.oblige("post", f"the-{which}-part-has-no-dot(the cut is at the {'first' if which == 'root' else 'last'} dot)", z3.Not(z3.Contains(part, DOT)))
    return post


# ------------------------------------------------------------------------------------------------ split_key
def sk_setup(ctx):
    key = z3.String("key")
    ctx.split_limit = 3  # precondition of this unit: the key has at most 3 dots (imposed by the engine as the hypothesis "no dot in what is left after 3 cuts")
    return Setup(env={"key": key}, data={"key": key}, watch={"key": key})


def sk_post(ctx, st, result):
    key = st.data["key"]
    ok_shape = isinstance(result, list) and 1 <= len(result) <= 4 and all(is_z3(x) or isinstance(x, str) for x in result)
    ctx.oblige("post", "a-list-of-one-to-four-parts(keys with at most 3 dots)", ok_shape)
    if not ok_shape:
        return
    parts = [lift(x) for x in result]
    joined = parts[0]
    for p in parts[1:]:
        joined = z3.Concat(joined, DOT, p)
    tag = f"[{len(parts)}-parts]"
    # together the two clauses determine the parts uniquely: they are the dotted segments, in order, empty segments included
    ctx.oblige("post", "the-parts-joined-with-dots-give-the-key-back" + tag, joined == key)
    ctx.oblige("post", "no-part-contains-a-dot" + tag, z3.And(*[z3.Not(z3.Contains(p, DOT)) for p in parts]))


# ------------------------------------------------------------------------------------------------ is_meta_key
def mk_setup(ctx):
    key = z3.String("key")
    return Setup(env={"key": key}, consts={"meta_keys": set(META)}, inline={"split_key_leaf": "jsonargparse._namespace:split_key_leaf", "split_key_root": "jsonargparse._namespace:split_key_root", "split_key": "jsonargparse._namespace:split_key"},
                 data={"key": key}, watch={"key": key})


def mk_post(ctx, st, result):
    key = st.data["key"]
    want = z3.Or(*[z3.Or(key == z3.StringVal(m), z3.SuffixOf(z3.StringVal("." + m), key)) for m in META])
    got = result if is_z3(result) else z3.BoolVal(bool(result))
    ctx.oblige("post", "meta<=>the-last-dotted-segment-is-__default_config__,__path__-or-__orig__", got == want)


# ------------------------------------------------------------------------------------------------ Namespace.__bool__
def nb_setup(ctx):
    v = z3.Int("leaf")
    own = [("single-leaf", Branch(a=v)), ("single-None", Branch(a=None)), ("single-empty-branch", Branch(a=Branch())), ("single-method-name", Branch(keys=v))]
    ts = trees() + own
    name, tree = ts[ctx.choose(len(ts), "stored-tree")]
    rec = build(tree)
    consts, inline = common(ctx)
    return Setup(env={"self": rec}, consts=consts, inline=inline, data=dict(tree=name, rec=rec, v0=view(rec)))


def nb_post(ctx, st, result):
    d = st.data
    tag = f"[{d['tree']}]"
    ctx.oblige("post", "false-exactly-for-the-empty-mapping(an empty branch or a None stored in it makes it non-empty)" + tag, result is (len(d["v0"]) > 0))
    ctx.oblige("frame", "stores-nothing" + tag, same_view(view(d["rec"]), d["v0"]))


# ------------------------------------------------------------------------------------------------ Namespace.as_flat
def af_setup(ctx):
    name, rec, key, v0 = scenario(ctx, ["a"])
    consts, inline = common(ctx)
    made = []

    def flat_ns(c, a, k):
        r = Rec("argparse.Namespace", attrs=dict(k))
        made.append(r)
        return r

    return Setup(env={"self": rec}, consts=consts, inline=inline, calls={"argparse.Namespace": flat_ns}, data=dict(tree=name, rec=rec, v0=v0, made=made))


def af_post(ctx, st, result):
    d = st.data
    tag = f"[{d['tree']}]"
    leaves = m_leaves(d["v0"])
    ok = isinstance(result, Rec) and result.cls == "argparse.Namespace" and result is not d["rec"]
    ctx.oblige("post", "a-new-plain-argparse.Namespace" + tag, ok)
    if ok:
        got = list(result.attrs.items())
        ctx.oblige("post", "holds-exactly-the-leaves-under-their-dotted-keys,in-order(an empty branch has no leaf)" + tag,
                   [k for k, _ in got] == [k for k, _ in leaves] and all(g is w or (not isinstance(w, (Rec, z3.ExprRef)) and g == w) for (_, g), (_, w) in zip(got, leaves)))
    ctx.oblige("frame", "the-nested-namespace-is-unchanged" + tag, same_view(view(d["rec"]), d["v0"]))


# ------------------------------------------------------------------------------------------------ Namespace.get_value_and_parent
def gv_setup(ctx):
    name, rec, key, v0 = scenario(ctx)
    consts, inline = common(ctx)
    return Setup(env={"self": rec, "key": key}, consts=consts, inline=inline, data=dict(tree=name, rec=rec, key=key, v0=v0))


def _gv_expected(d):
    if not valid_key(d["key"]):
        return MISSING
    return rec_at(d["rec"], d["key"].split("."))


def gv_post(ctx, st, result):
    d = st.data
    tag = f"[{d['tree']},{d['key']!r}]"
    want = _gv_expected(d)
    comps = d["key"].split(".")
    parent = rec_at(d["rec"], comps[:-1]) if valid_key(d["key"]) else MISSING
    ok = want is not MISSING and isinstance(result, tuple) and len(result) == 3 and result[0] is want and result[1] is parent and result[2] == mark(comps[-1])
    ctx.oblige("post", "(the stored value, the branch that holds it, the marked leaf name)-for-a-present-path" + tag, ok)
    ctx.oblige("frame", "stores-nothing" + tag, same_view(view(d["rec"]), d["v0"]))


def gv_raises(ctx, st, exc):
    d = st.data
    tag = f"[{d['tree']},{d['key']!r}]"
    ctx.oblige("raises", f"KeyError-exactly-when-the-nested-dictionary-has-no-such-path{tag}(got {exc.cls}@{exc.origin})", _gv_expected(d) is MISSING and ctx.classes.is_subclass(exc.cls, "KeyError"))
    ctx.oblige("frame", "stores-nothing" + tag, same_view(view(d["rec"]), d["v0"]))


# ------------------------------------------------------------------------------------------------ namespace_to_dict
def nd_setup(ctx):
    name, rec, key, v0 = scenario(ctx, ["a"])
    log = []

    def clone_of(r):
        return ns_rec({k: clone_of(v) if is_ns(v) else v for k, v in r.attrs["__dict__"].items()})

    def as_dict(c, s_, a, k):
        log.append(("as_dict", s_))
        return Rec("dict returned by as_dict", attrs={"of": s_, "view": view(s_)})

    def clone(c, s_, a, k):
        new = clone_of(s_)
        new.methods["as_dict"] = as_dict
        log.append(("clone", s_, new))
        return new

    rec.methods["clone"] = clone
    rec.methods["as_dict"] = as_dict
    return Setup(env={"namespace": rec}, data=dict(tree=name, rec=rec, v0=v0, log=log))


def nd_post(ctx, st, result):
    d = st.data
    tag = f"[{d['tree']}]"
    ok = isinstance(result, Rec) and result.cls == "dict returned by as_dict"
    ctx.oblige("post", "the-result-is-the-nested-dictionary-view-of-the-namespace" + tag, ok and same_view(result.attrs["view"], d["v0"]))
    ctx.oblige("post", "the-view-is-computed-on-a-copy(the caller's namespace and its branches are not what as_dict walks, so the result shares no branch with it)" + tag,
               ok and result.attrs["of"] is not d["rec"] and not any(e[0] == "as_dict" and e[1] is d["rec"] for e in d["log"]))
    ctx.oblige("frame", "the-namespace-given-is-unchanged" + tag, same_view(view(d["rec"]), d["v0"]))


# ------------------------------------------------------------------------------------------------ expand_dict / dict_to_namespace
def _dict_cases():
    v = [z3.Int(f"leaf{i}") for i in range(5)]
    return [
        ("empty", lambda: {}),
        ("flat", lambda: {"a": v[0], "b": None}),
        ("nested", lambda: {"a": {"b": {"c": v[0]}, "d": v[1]}, "e": v[2]}),
        ("list-of-dicts", lambda: {"a": [{"x": v[0]}, v[1], {"y": {"z": v[2]}}], "b": v[3]}),
        ("non-string-keys", lambda: {"a": {1: v[0], "k": v[1]}, "b": [{2: v[2]}]}),
        ("empty-branch", lambda: {"a": {}, "b": [[{"deep": v[0]}]]}),
        ("method-name-keys", lambda: {"items": {"keys": v[0]}, "get": v[1]}),
    ]


def _deep_snapshot(x):
    if isinstance(x, dict):
        return ("dict", id(x), [(k, _deep_snapshot(v)) for k, v in x.items()])
    if isinstance(x, list):
        return ("list", id(x), [_deep_snapshot(v) for v in x])
    return ("leaf", id(x))


def _want_ns(x):
    """reference: what the statement's 'nested dictionary -> nested namespace' conversion gives"""
    if isinstance(x, dict) and all(isinstance(k, str) for k in x):
        return Branch((k, _want_ns(v)) for k, v in x.items())
    if isinstance(x, list):
        return [(_want_ns(v) if isinstance(v, dict) and all(isinstance(k, str) for k in v) else v) for v in x]
    return x


def _same_converted(got, want):
    if isinstance(want, Branch):
        return is_ns(got) and [unmark(k) for k in got.attrs["__dict__"]] == list(want) and all(_same_converted(got.attrs["__dict__"][mark(k)], want[k]) for k in want)
    if isinstance(want, list):
        return isinstance(got, list) and len(got) == len(want) and all(_same_converted(g, w) for g, w in zip(got, want))
    if isinstance(want, dict):
        return isinstance(got, dict) and not is_ns(got) and list(got) == list(want) and all(_same_converted(got[k], want[k]) for k in want)
    return got is want or (not isinstance(want, (Rec, z3.ExprRef)) and type(got) is type(want) and got == want)


def _ns_ctor(c, a, k):
    if a:
        raise PyRaise(ExcVal("Unmodelled", ("Namespace(positional)",), origin="model"))
    r = ns_rec({})
    for key, val in k.items():
        r.methods["__setattr__"](c, r, (key, val), {})
    return r


def ed_setup(ctx, through_copy):
    cases = _dict_cases()
    name, mk = cases[ctx.choose(len(cases), "dictionary")]
    cfg = mk()
    consts, inline = common(ctx)
    snap = _deep_snapshot(cfg)
    want = _want_ns(cfg)
    calls = {"Namespace": _ns_ctor}
    env = {"cfg": cfg}
    if through_copy:
        def recreate(c, a, k):
            def cp(x):
                if isinstance(x, dict):
                    return {kk: cp(vv) for kk, vv in x.items()}
                if isinstance(x, list):
                    return [cp(vv) for vv in x]
                return x
            return cp(a[0])
        calls["recreate_branches"] = recreate
        inline = dict(inline, expand_dict="jsonargparse._namespace:expand_dict")
        env = {"cfg_dict": cfg}
    else:
        inline = dict(inline, expand_dict="jsonargparse._namespace:expand_dict")
    return Setup(env=env, consts=consts, inline=inline, calls=calls, data=dict(case=name, cfg=cfg, snap=snap, want=want))


def ed_post(ctx, st, result):
    d = st.data
    tag = f"[{d['case']}]"
    ctx.oblige("post", "every-dictionary-with-string-keys-becomes-a-branch,at-every-depth-and-inside-lists;other-values-(incl. dictionaries with other keys)-stay-leaves;order-kept" + tag, _same_converted(result, d["want"]))


def dn_post(ctx, st, result):
    ed_post(ctx, st, result)
    d = st.data
    ctx.oblige("frame", f"the-dictionary-given-(and every dictionary and list inside it)-is-not-modified[{d['case']}]", _deep_snapshot(d["cfg"]) == d["snap"])


def units(prop):
    T = "jsonargparse._namespace:"
    return [
        Unit(prop, T + "split_key_root", sk1_setup, _sk1_post("root"), _no_exc, trusted=["str.split('.', 1) cuts at the first dot (interpreted exactly; z3 IndexOf/SubString)"]),
        Unit(prop, T + "split_key_leaf", sk1_setup, _sk1_post("leaf"), _no_exc, trusted=["str.rsplit('.', 1) cuts at the last dot (interpreted exactly; z3 LastIndexOf/SubString)"]),
        Unit(prop, T + "split_key", sk_setup, sk_post, _no_exc, trusted=["keys with up to 3 dots (4 segments); a key with more dots is outside this unit (bounded harness)"]),
        Unit(prop, T + "is_meta_key", mk_setup, mk_post, _no_exc, trusted=["split_key_leaf interpreted from its real body", "meta_keys is the set of the three meta names (read by the C08/C18 units from the module as well)"]),
        Unit(prop, T + "Namespace.__bool__", nb_setup, nb_post, _no_exc, trusted=["self.__dict__ is the instance dictionary"]),
        Unit(prop, T + "Namespace.as_flat", af_setup, af_post, _no_exc, trusted=["Namespace.items by its contract (unit of C11)", "setattr on a plain argparse.Namespace stores the attribute"]),
        Unit(prop, T + "Namespace.get_value_and_parent", gv_setup, gv_post, gv_raises, expect_cover=("return", "raise:NSKeyError"), trusted=["_parse_required_key and __getitem__ by their contracts (units of C11)"]),
        Unit(prop, T + "namespace_to_dict", nd_setup, nd_post, _no_exc, trusted=["clone and as_dict by their contracts (units of C11 / C08)"]),
        Unit(prop, T + "expand_dict", lambda ctx: ed_setup(ctx, False), ed_post, _no_exc, trusted=["Namespace(**kwargs) sets every keyword through __setattr__ (contract of C11)"]),
        Unit(prop, T + "dict_to_namespace", lambda ctx: ed_setup(ctx, True), dn_post, _no_exc, trusted=["recreate_branches copies every dict / list (unit of C08)", "expand_dict interpreted from its real body"]),
    ]


CARRIES = {"C11": ["split_key_root", "split_key_leaf", ":split_key", "is_meta_key", "Namespace.__bool__", "Namespace.as_flat", "Namespace.get_value_and_parent", "namespace_to_dict", "expand_dict", "dict_to_namespace"],
           "C06": ["split_key_root", "split_key_leaf", ":split_key", "is_meta_key"], "C15": ["split_key_leaf", ":split_key"], "C08": ["namespace_to_dict", "dict_to_namespace"], "C18": ["is_meta_key"]}
