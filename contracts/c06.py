"""C06 - unknown keys are never silently ignored; required keys are enforced.

Units (nested functions of ArgumentParser.validate, jsonargparse/_core.py; closure variables become parameters):
  validate.<locals>.check_required   normal return => every required key is present and not None, and the selected
                                     subcommand's parser is checked with the prefixed key; else TypeError naming the key
  validate.<locals>.check_values     normal return => every key has an action, or is a branch of declared keys, or lies
                                     under a parent action whose whole value is checked in the same pass; else NSKeyError
                                     naming the key; every key with an action and a non-None value is type-checked
  ArgumentParser.parse_args          leftover arguments => error (unit of C04, clause `leftover-arguments-are-never-accepted`)
Keys per scenario: 1..2 (each: has an action / is a branch / under a checked parent / under an unchecked parent / unknown).
"""
import z3

from pyvc.engine import ClassRef, ExcVal, PyRaise, Rec, Unsupported, lift, is_z3
from pyvc.units import Setup, Unit


# ------------------------------------------------------------------------------------- check_required
def cr_setup(ctx):
    n = ctx.choose(3, "n-required")
    req = [f"req{i}" for i in range(n)]
    state = {k: ["present", "None", "missing"][ctx.choose(3, f"{k}-state")] for k in req}
    has_sub = ctx.choose(2, "subcommand-selected") == 1
    # the selected subcommand may have no section at all (it was only named, and defaults were not asked for): its required keys are then checked on an
    # empty section - i.e. reported missing - instead of crashing on None (AttributeError: 'NoneType' object has no attribute 'get'; fixed)
    section = ["present", "absent", "None"][ctx.choose(3, "section-of-the-selected-subcommand")] if has_sub else "present"
    subparser = Rec("ArgumentParser", attrs={"tag": "sub"})
    sub_cfg = Rec("Namespace", attrs={"tag": "sub-section"}, methods={"__bool__": lambda c, s_, a, k: True})
    fresh = []

    def getitem(c, s_, a, k):
        if state.get(a[0]) == "missing":
            raise PyRaise(ExcVal("NSKeyError", origin="cfg[]"))
        return None if state.get(a[0]) == "None" else z3.Int(f"cfg[{a[0]}]")

    cfg = Rec("Namespace", methods={"__getitem__": getitem, "get": lambda c, s_, a, k: (sub_cfg if section == "present" else None) if a[0] == "fit" else None})
    parser = Rec("ArgumentParser", attrs={"required_args": set(req)})
    calls = {"_ActionSubCommands.get_subcommand": lambda c, a, k: ("fit", subparser) if has_sub else (None, None),
             "check_required": lambda c, a, k: c.event("recursive-check", a[0], a[1], a[2]),
             "Namespace": lambda c, a, k: (fresh.append(Rec("Namespace()")), fresh[-1])[1]}
    prefix = z3.String("prefix")
    return Setup(env={"cfg": cfg, "parser": parser, "prefix": prefix}, calls=calls, data=dict(req=req, state=state, has_sub=has_sub, subparser=subparser, sub_cfg=sub_cfg, prefix=prefix, section=section, fresh=fresh))


def cr_post(ctx, st, result):
    d = st.data
    ctx.oblige("post", "accepted=>every-required-key-present-and-not-None", all(v == "present" for v in d["state"].values()), note=str(d["state"]))
    rec = [e for e in ctx.events if e[0] == "recursive-check"]
    if d["has_sub"]:
        on = d["sub_cfg"] if d["section"] == "present" else (d["fresh"][0] if len(d["fresh"]) == 1 else None)
        ok = len(rec) == 1 and on is not None and rec[0][1] is on and rec[0][2] is d["subparser"]
        ctx.oblige("post", f"selected-subcommand's-required-keys-are-checked-on-its-own-section(an empty one when it has none)-and-parser[section:{d['section']}]", ok)
        ctx.oblige("post", "with-the-prefixed-key(prefix + subcommand + '.')", len(rec) == 1 and is_z3(rec[0][3]) and z3.simplify(rec[0][3] == z3.Concat(d["prefix"], z3.StringVal("fit"), z3.StringVal("."))))
    else:
        ctx.oblige("post", "no-subcommand=>no-recursion", not rec)


def cr_raises(ctx, st, exc):
    d = st.data
    ctx.oblige("raises", "rejected=>TypeError", exc.cls == "TypeError" and exc.origin.startswith("raise@"))
    ctx.oblige("raises", "rejected=>some-required-key-is-missing-or-None", any(v != "present" for v in d["state"].values()))


# ------------------------------------------------------------------------------------- check_values
KINDS = ["has-action", "branch-of-declared-keys", "under-parent-checked-in-this-pass", "under-parent-not-in-cfg", "under-subcommands-action", "in-a-group", "unknown"]


def cv_setup(ctx):
    n = 1 + ctx.choose(2, "n-keys")
    skip_none = ctx.choose(2, "skip_none") == 1
    lenient = ctx.choose(2, "lenient_check") == 1
    keys, info = [], {}
    parent_action = Rec("ActionTypeHint", attrs={"dest": "model"})
    subcmd_action = Rec("_ActionSubCommands", attrs={"dest": "subcommand"})
    other_action = Rec("ActionTypeHint", attrs={"dest": "other"})
    for i in range(n):
        kind = KINDS[ctx.choose(len(KINDS), f"key[{i}]-kind")]
        key = {"has-action": f"opt{i}", "branch-of-declared-keys": f"grp{i}", "under-parent-checked-in-this-pass": f"model.init_args.p{i}",
               "under-parent-not-in-cfg": f"other.init_args.q{i}", "under-subcommands-action": f"fit.nested{i}", "in-a-group": f"group.x{i}", "unknown": f"typo{i}"}[kind]
        val_none = ctx.choose(2, f"key[{i}]-value-None") == 1 if kind == "has-action" else False
        bad_type = ctx.choose(2, f"key[{i}]-ill-typed") == 1 if kind == "has-action" and not val_none else False
        keys.append(key)
        info[key] = dict(kind=kind, none=val_none, bad=bad_type, action=Rec("ActionTypeHint", attrs={"dest": key}) if kind == "has-action" else None)
    if any(v["kind"] == "under-parent-checked-in-this-pass" for v in info.values()):
        keys.insert(0, "model")
        info["model"] = dict(kind="has-action", none=False, bad=False, action=parent_action)

    def find_action(c, a, k):
        return info[a[1]]["action"] if a[1] in info else None

    def find_parent(c, a, k):
        kind = info[a[1]]["kind"]
        if kind == "under-parent-checked-in-this-pass":
            return (parent_action, None)
        if kind == "under-parent-not-in-cfg":
            return (other_action, None)
        if kind == "under-subcommands-action":
            return (subcmd_action, None)
        return (None, None)

    def check_value_key(c, s_, a, k):
        c.event("type-check", a[2])
        c.event("type-check-args", a[0], a[1], a[2], a[3])
        if info[a[2]]["bad"]:
            raise PyRaise(ExcVal("TypeError", origin="_check_value_key"))
        return a[1]

    self = Rec("ArgumentParser", attrs={"groups": {"group": Rec("Group")}, "required_args": set()}, methods={"_check_value_key": check_value_key})
    cfg = Rec("Namespace", methods={"get_sorted_keys": lambda c, s_, a, k: list(keys),
                                    "__getitem__": lambda c, s_, a, k: None if info[a[0]]["none"] else z3.Int(f"cfg[{a[0]}]")})
    calls = {"_find_action": find_action, "_is_branch_key": lambda c, a, k: info[a[1]]["kind"] == "branch-of-declared-keys",
             "_find_parent_action_and_subcommand": find_parent, "lenient_check.get": lambda c, a, k: lenient,
             "ActionTypeHint.is_subclass_typehint": lambda c, a, k: False, "split_key_root": lambda c, a, k: a[0].split(".", 1)}
    env = {"cfg": cfg, "self": self, "skip_none": skip_none, "ccfg": cfg}
    return Setup(env=env, calls=calls, data=dict(keys=keys, info=info, skip_none=skip_none, lenient=lenient, cfg=cfg))


def offending(d):
    """Keys that the statement says must be refused."""
    return [k for k in d["keys"] if d["info"][k]["kind"] in ("under-parent-not-in-cfg", "under-subcommands-action", "in-a-group", "unknown")]


def cv_post(ctx, st, result):
    d = st.data
    ctx.oblige("post", "accepted=>every-key-is-defined-by-the-parser", offending(d) == [], note=str([(k, d["info"][k]["kind"]) for k in d["keys"]]))
    checked = [e[1] for e in ctx.events if e[0] == "type-check"]
    want = [k for k in d["keys"] if d["info"][k]["kind"] == "has-action" and not (d["info"][k]["none"] and d["skip_none"]) and not d["lenient"]]
    ctx.oblige("post", "accepted=>every-key-with-an-action-and-a-value-was-type-checked-once", checked == want, note=f"{checked} vs {want}")
    ctx.oblige("post", "accepted=>no-ill-typed-value(unless lenient)", d["lenient"] or not any(d["info"][k]["bad"] for k in d["keys"]))
    args = [e for e in ctx.events if e[0] == "type-check-args"]
    ctx.oblige("post", "each-check-is-(the key's own action, the value stored under the key, the key, the whole configuration)",
               all(e[1] is d["info"][e[3]]["action"] and ((e[2] is None) if d["info"][e[3]]["none"] else (z3.is_expr(e[2]) and str(e[2]) == f"cfg[{e[3]}]")) and e[4] is d["cfg"] for e in args))


def cv_raises(ctx, st, exc):
    d = st.data
    if exc.cls == "NSKeyError":
        ctx.oblige("raises", "NSKeyError=>some-key-is-not-defined-by-the-parser", offending(d) != [])
    elif exc.cls == "TypeError":
        ctx.oblige("raises", "TypeError=>some-value-is-ill-typed", any(d["info"][k]["bad"] for k in d["keys"]) and exc.origin == "_check_value_key")
    else:
        ctx.oblige("raises", f"only-NSKeyError-or-TypeError(got {exc.cls}@{exc.origin})", False)


UNITS = [
    Unit("C06", "jsonargparse._core:ArgumentParser.validate.<locals>.check_required", cr_setup, cr_post, cr_raises, expect_cover=("return", "raise:TypeError"),
         trusted=["cfg[key] raises a KeyError subclass for a missing key (C11)", "get_subcommand returns the selected subcommand and its parser (C17)"]),
    Unit("C06", "jsonargparse._core:ArgumentParser.validate.<locals>.check_values", cv_setup, cv_post, cv_raises, expect_cover=("return", "raise:NSKeyError", "raise:TypeError"), max_paths=50000,
         trusted=["_find_action / _is_branch_key / _find_parent_action_and_subcommand classify a key as: has an action / prefix of declared keys / below an action (assumed contracts, exercised by the bounded harness)",
                  "cfg.get_sorted_keys() lists every leaf key of the configuration"]),
]
from contracts.adapt_arms import dataclass_unit  # noqa: E402
UNITS.append(dataclass_unit("C06"))

from contracts.class_type import class_type_unit  # noqa: E402
UNITS.append(class_type_unit("C06"))

from contracts.validate_unit import strip_unknown_unit, validate_unit  # noqa: E402
UNITS += [validate_unit("C06"), strip_unknown_unit("C06")]

VERIFIED_CALLEES = ("check_required",)
LEVEL = "other"
TECHNIQUE = "contract-based deductive verification of validate's nested check functions (VCs from the real AST, recursion by contract) + bounded run-time contract checking: one foreign key inserted / one required key removed at every tree position"
LEVEL_TEXT = "Verified: validate itself always runs check_values on a clone (under the branch key when given) and check_required unless skip_required / lenient, re-raising TypeError/KeyError as the same class; strip_unknown keeps exactly the keys with an action or meta keys; validate's check_required returns normally only if every required key is present and not None and recurses into the selected subcommand's own section; check_values returns normally only if every key has an action, is a branch of declared keys or lies under a parent action checked in the same pass, else NSKeyError naming the key, and checks every key by (its own action, its value, the key, the whole configuration); the classifiers it relies on: _is_branch_key (a string prefix of a declared name is not a branch - symbolic strings), _find_action_and_subcommand, _find_parent_action_and_subcommand; _apply_actions and _check_value_key; leftover argv is never accepted (parse_args unit), _positional_optionals drops no leftover token, parse_known_args refuses foreign callers; class parsers validate init_args also when only class_path is given (adapt_class_type). Bounded only: one foreign key inserted / one required key removed at every position of 9 parser shapes x 12 channels."
LEVEL_NOTE = "under construction"
EXPLANATION = "under construction"
ASSUMPTIONS = []
TRUSTED = []
BOUNDED = [{"name": "foreign-key-and-required-key-at-every-position", "script": "bounded/b06_unknown_required.py"}]


# ------------------------------------------------------------------------------------------------ _is_branch_key
# check_values accepts a key without an action only when it is a *branch* of declared keys: some declared dest lies strictly below it
# (dest starts with key + "."). A key that is merely a string prefix of a declared name ("batch" vs "batch_size") is not a branch.
def bk_setup(ctx):
    from pyvc.engine import ClassRef
    n = ctx.choose(3, "number-of-declared-actions")
    with_sub = ctx.choose(2, "a-subcommands-action-comes-first") == 1
    key = z3.String("key")
    dests = [z3.String(f"dest{i}") for i in range(n)]
    actions = [Rec("Action", attrs={"dest": d}) for d in dests]
    root, rest = z3.String("key.root"), z3.String("key.rest")
    ctx.assume(z3.Or(z3.And(root == key, z3.Not(z3.Contains(key, z3.StringVal(".")))), z3.And(key == z3.Concat(root, z3.StringVal("."), rest), z3.Not(z3.Contains(root, z3.StringVal("."))))))
    has_root = z3.Bool("root-names-a-subcommand")
    sub_result = z3.Bool("_is_branch_key(subparser, rest)")
    subparser = Rec("ArgumentParser(sub)")
    if with_sub:
        ctx.classes.add("_ActionSubCommands", ["Action"])
        name_map = Rec("dict", methods={"__contains__": lambda c, s_, a, k: has_root if a[0] is root else z3.Bool("some-other-string-names-a-subcommand"), "__getitem__": lambda c, s_, a, k: subparser})
        actions.insert(0, Rec("_ActionSubCommands", attrs={"dest": z3.String("subcommands.dest"), "_name_parser_map": name_map}))
    parser = Rec("ArgumentParser", attrs={"_actions": actions})

    def split_root(c, a, k):
        c.event("split", a[0])
        return [root, rest]

    def recursive(c, a, k):
        c.event("recurse", a[0], a[1])
        return sub_result

    calls = {"split_key_root": split_root, "filter_default_actions": lambda c, a, k: a[0], "_is_branch_key": recursive}
    consts = {"_ActionSubCommands": ClassRef("_ActionSubCommands")}
    return Setup(env={"parser": parser, "key": key}, calls=calls, consts=consts, data=dict(key=key, dests=dests, with_sub=with_sub, has_root=has_root, sub_result=sub_result, subparser=subparser, rest=rest,
                                                                                           sub_dest=actions[0].attrs["dest"] if with_sub else None))


def bk_post(ctx, st, result):
    d = st.data
    below = [z3.PrefixOf(z3.Concat(d["key"], z3.StringVal(".")), x) for x in d["dests"]]
    own = z3.Or(*below) if below else z3.BoolVal(False)
    if d["with_sub"]:
        own = z3.Or(own, z3.PrefixOf(z3.Concat(d["key"], z3.StringVal(".")), d["sub_dest"]))
        spec = z3.If(d["has_root"], d["sub_result"], own)
        rec = [e for e in ctx.events if e[0] == "recurse"]
        ctx.oblige("post", "below-a-subcommand-the-question-is-put-to-that-subcommand's-parser-with-the-rest-of-the-key", z3.Implies(d["has_root"], z3.BoolVal(len(rec) == 1 and rec[0][1] is d["subparser"] and rec[0][2] is d["rest"])))
    else:
        spec = own
    ctx.oblige("post", f"branch-key<=>some-declared-dest-lies-strictly-below-it(dest starts with key + '.')[{len(d['dests'])} actions{',subcommands' if d['with_sub'] else ''}]", lift(result) == spec, strings=True)


def bk_raises(ctx, st, exc):
    ctx.oblige("raises", f"no-own-exception(got {exc.cls}@{exc.origin})", False)


# ------------------------------------------------------------------------------------------------ _positional_optionals
# argv tokens that argparse left over are either given, in order, to the next optional that takes a positional value, or returned as
# unrecognized (parse_args then fails on them): none is dropped.
def po_setup(ctx):
    n_unk = 1 + ctx.choose(4, "leftover-tokens")
    kinds = [(), ("opt",), ("opt", "opt"), ("pos-set", "opt"), ("pos-missing", "opt"), ("opt", "pos-set", "opt"), ("opt", "opt", "opt")][ctx.choose(7, "actions")]
    supported = ctx.choose(2, "setting-enabled") == 1
    unk = [z3.String(f"tok{i}") for i in range(n_unk)]
    store = {}
    actions = []
    for i, kd in enumerate(kinds):
        actions.append(Rec("Action", attrs={"dest": f"a{i}", "option_strings": [] if kd.startswith("pos") else [f"--a{i}"]}))
        if kd == "pos-set":
            store[f"a{i}"] = z3.Int(f"cfg.a{i}")

    def check_value_key(c, s_, a, k):
        c.event("assign", a[0].attrs["dest"], a[1])
        return ("checked", a[1])

    cfg = Rec("Namespace", methods={"get": lambda c, s_, a, k: store.get(a[0]), "__setitem__": lambda c, s_, a, k: store.__setitem__(a[0], a[1])})
    self = Rec("ArgumentParser", attrs={"_logger": Rec("Logger", methods={"debug": lambda c, s_, a, k: None})}, methods={"_check_value_key": check_value_key})
    calls = {"supports_optionals_as_positionals": lambda c, a, k: supported, "get_optionals_as_positionals_actions": lambda c, a, k: [x for x in actions if k.get("include_positionals") is True or x.attrs["option_strings"] != []]}
    return Setup(env={"self": self, "cfg": cfg, "unk": list(unk)}, calls=calls, data=dict(unk=unk, kinds=kinds, supported=supported, store=store, cfg=cfg))


def po_post(ctx, st, result):
    d = st.data
    tag = f"[{len(d['unk'])} tokens, actions {d['kinds']}{'' if d['supported'] else ', setting off'}]"
    ok_shape = isinstance(result, tuple) and len(result) == 2 and result[0] is d["cfg"] and isinstance(result[1], list)
    ctx.oblige("post", "returns-(cfg, leftover)" + tag, ok_shape)
    if not ok_shape:
        return
    used = [e[2] for e in ctx.events if e[0] == "assign"]
    ctx.oblige("post", "no-leftover-token-is-dropped:consumed-tokens+returned-leftover==the-given-leftover,in-order" + tag,
               len(used) + len(result[1]) == len(d["unk"]) and all(x is y for x, y in zip(used + result[1], d["unk"])))
    # who gets them: the optionals in declaration order, stopping at a positional that has no value yet
    takers = []
    for i, kd in enumerate(d["kinds"]):
        if kd == "pos-missing":
            break
        if kd == "opt":
            takers.append(f"a{i}")
    want = takers[: len(d["unk"])] if d["supported"] else []
    ctx.oblige("post", "tokens-go-to-the-optionals-in-declaration-order(after the positionals are satisfied)" + tag, [e[1] for e in ctx.events if e[0] == "assign"] == want
               and all(d["store"].get(k) == ("checked", t) for k, t in zip(want, d["unk"])))


def po_raises(ctx, st, exc):
    ctx.oblige("raises", f"no-own-exception(got {exc.cls}@{exc.origin})", False)


UNITS += [
    Unit("C06", "jsonargparse._actions:_is_branch_key", bk_setup, bk_post, bk_raises, expect_cover=("return",),
         trusted=["split_key_root(key) == key.split('.', 1) (stated as a hypothesis on root/rest)", "the recursive call is used by contract"]),
    Unit("C06", "jsonargparse._core:ArgumentParser._positional_optionals", po_setup, po_post, po_raises, expect_cover=("return",), max_paths=20000,
         trusted=["_check_value_key(action, token, ...) type-checks the token for that action or raises", "get_optionals_as_positionals_actions lists the candidate actions in declaration order"]),
]


# ------------------------------------------------------------------------------------------------ _find_action_and_subcommand / _find_parent_action_and_subcommand
# check_values classifies every key of a configuration with these two: "has an action" (the first declared action whose dest is the key;
# a whole-group config loader only when nothing else has that dest; below a subcommand: what the subcommand's parser answers for the rest
# of the key) and "lies below an action" (the action of the longest proper prefix that has one).
def fa_setup(ctx):
    layout = [("A", "A"), ("L", "A"), ("A", "L", "A"), ("S", "A"), ("A", "S"), ("L", "S", "L"), ()][ctx.choose(7, "declared-actions")]
    exclude = [None, "_ActionConfigLoad"][ctx.choose(2, "exclude")]
    dest = z3.String("dest")
    ctx.classes.add("_ActionConfigLoad", ["Action"])
    ctx.classes.add("_ActionSubCommands", ["Action"])
    root, rest = z3.String("dest.root"), z3.String("dest.rest")
    ctx.assume(z3.Or(z3.And(root == dest, z3.Not(z3.Contains(dest, z3.StringVal(".")))), z3.And(dest == z3.Concat(root, z3.StringVal("."), rest), z3.Not(z3.Contains(root, z3.StringVal("."))))))
    actions, info = [], []
    subparser = Rec("ArgumentParser(sub)")
    sub_answer = [(Rec("sub-action"), None), (Rec("sub-action"), z3.String("subsub")), (None, None)][ctx.choose(3, "answer-of-the-subcommand's-parser")] if "S" in layout else (None, None)
    for i, kd in enumerate(layout):
        d = z3.String(f"action{i}.dest")
        if kd == "S":
            in_map, root_in_map = z3.Bool(f"dest-names-a-subcommand{i}"), z3.Bool(f"root-names-a-subcommand{i}")
            ctx.assume(z3.Implies(z3.And(in_map, z3.Not(z3.Contains(dest, z3.StringVal(".")))), root_in_map))  # root == dest when there is no dot
            contains = lambda c, s_, a, k, _d=dest, _im=in_map, _rm=root_in_map, _i=i: _im if a[0] is _d else _rm if a[0] is root else z3.Bool(f"some-other-string-names-a-subcommand{_i}")  # noqa: E731
            a = Rec("_ActionSubCommands", attrs={"dest": d, "_name_parser_map": Rec("dict", methods={"__contains__": contains, "__getitem__": lambda c, s_, a, k: subparser})})
            info.append(("S", d, in_map, root_in_map))
        else:
            a = Rec("_ActionConfigLoad" if kd == "L" else "Action", attrs={"dest": d})
            info.append((kd, d))
        actions.append(a)
    parser = Rec("ArgumentParser", attrs={"_actions": actions})

    def split_root(c, a, k):
        return [root, rest]

    def recursive(c, a, k):
        c.event("recurse", a[0], a[1], k.get("exclude"))
        return sub_answer

    consts = {"_ActionConfigLoad": ClassRef("_ActionConfigLoad"), "_ActionSubCommands": ClassRef("_ActionSubCommands")}
    calls = {"filter_default_actions": lambda c, a, k: list(a[0]), "split_key_root": split_root, "_find_action_and_subcommand": recursive}
    ex = ClassRef(exclude) if exclude else None
    return Setup(env={"parser": parser, "dest": dest, "exclude": ex}, calls=calls, consts=consts,
                 data=dict(layout=layout, exclude=exclude, dest=dest, actions=actions, info=info, sub_answer=sub_answer, subparser=subparser, root=root, rest=rest, ex=ex))


def fa_post(ctx, st, result):
    d = st.data
    tag = f"[{''.join(d['layout']) or 'none'}{',exclude loaders' if d['exclude'] else ''}]"
    ok_shape = isinstance(result, tuple) and len(result) == 2
    ctx.oblige("post", "returns-(action or None, subcommand or None)" + tag, ok_shape)
    if not ok_shape:
        return
    dest = d["dest"]
    undecided_yet = z3.BoolVal(True)  # no earlier action has answered
    fallback_conds = []  # (condition, action) for loaders with that dest, later ones win
    cases = []  # (condition, predicate on result)
    for a, inf in zip(d["actions"], d["info"]):
        kd = inf[0]
        if d["exclude"] and kd == "L":
            continue
        same = inf[1] == dest
        if kd == "A":
            cases.append((z3.And(undecided_yet, same), result[0] is a and result[1] is None))
            undecided_yet = z3.And(undecided_yet, z3.Not(same))
        elif kd == "L":
            fallback_conds.append((z3.And(undecided_yet, same), a))
        else:
            in_map, root_in_map = inf[2], inf[3]
            cases.append((z3.And(undecided_yet, z3.Or(same, in_map)), result[0] is a and result[1] is None))
            below = z3.And(undecided_yet, z3.Not(same), z3.Not(in_map), root_in_map)
            sub_a, sub_sc = d["sub_answer"]
            if sub_sc is None:
                cases.append((below, result[0] is sub_a and (result[1] is d["root"] or (is_z3(result[1]) and result[1].eq(d["root"])))))
            else:
                cases.append((below, result[0] is sub_a and is_z3(result[1])))
                if is_z3(result[1]):
                    cases.append((below, result[1] == z3.Concat(d["root"], z3.StringVal("."), sub_sc)))
            rec = [e for e in ctx.events if e[0] == "recurse"]
            cases.append((below, len(rec) == 1 and rec[0][1] is d["subparser"] and rec[0][2] is d["rest"] and rec[0][3] is d["ex"]))
            undecided_yet = z3.And(undecided_yet, z3.Not(same), z3.Not(in_map), z3.Not(root_in_map))
    # nothing answered: the last loader with that dest (if any), else nothing
    for i, (cond, a) in enumerate(fallback_conds):
        later = [c2 for c2, _ in fallback_conds[i + 1:]]
        cases.append((z3.And(undecided_yet, cond, *[z3.Not(c2) for c2 in later]), result[0] is a and result[1] is None))
    cases.append((z3.And(undecided_yet, *[z3.Not(c) for c, _ in fallback_conds]), result[0] is None and result[1] is None))
    goal = z3.And(*[z3.Implies(c, g if is_z3(g) else z3.BoolVal(bool(g))) for c, g in cases])
    ctx.oblige("post", "the-first-declared-action-with-that-dest(a subcommands action also for its subcommand names;below a subcommand the answer of its parser for the rest of the key,prefixed);a-config-loader-only-as-fallback;else-None" + tag,
               goal, strings=True)


def fa_raises(ctx, st, exc):
    ctx.oblige("raises", f"no-own-exception(got {exc.cls}@{exc.origin})", False)


UNITS.append(Unit("C06", "jsonargparse._actions:_find_action_and_subcommand", fa_setup, fa_post, fa_raises, max_paths=20000,
                  trusted=["split_key_root(dest) == dest.split('.', 1) (hypothesis on root/rest)", "the recursive call by contract", "filter_default_actions drops the help action only"]))


def fpa_setup(ctx):
    key = ["a", "a.b", "a.b.c", "x.y"][ctx.choose(4, "key")]
    known = [(), ("a",), ("a.b",), ("a", "a.b"), ("a.b.c",), ("x",)][ctx.choose(6, "keys-that-have-an-action")]
    acts = {k: Rec("Action", attrs={"dest": k}) for k in known}
    sc = z3.String("subcommand")
    exclude = Rec("exclude")

    def find(c, a, k):
        c.event("find", a[1], k.get("exclude"))
        return (acts[a[1]], sc) if a[1] in acts else (None, None)

    return Setup(env={"parser": Rec("ArgumentParser"), "key": key, "exclude": exclude}, calls={"_find_action_and_subcommand": find}, inline={"split_key": "jsonargparse._namespace:split_key"},
                 data=dict(key=key, known=known, acts=acts, sc=sc, exclude=exclude))


def fpa_post(ctx, st, result):
    d = st.data
    tag = f"[{d['key']!r},known:{list(d['known'])}]"
    parts = d["key"].split(".")
    prefixes = [".".join(parts[:n]) for n in range(len(parts), 0, -1)]  # the key itself, then longest proper prefix first
    hit = next((p for p in prefixes if p in d["acts"]), None)
    ok = isinstance(result, tuple) and len(result) == 2 and (result[0] is d["acts"][hit] and result[1] is d["sc"] if hit else result[0] is None and result[1] is None)
    ctx.oblige("post", "the-action-of-the-key-itself,else-of-its-longest-proper-prefix-that-has-one,else-None" + tag, ok)
    ctx.oblige("post", "every-lookup-passes-the-caller's-exclude" + tag, all(e[2] is d["exclude"] for e in ctx.events if e[0] == "find"))


UNITS.append(Unit("C06", "jsonargparse._actions:_find_parent_action_and_subcommand", fpa_setup, fpa_post, fa_raises,
                  trusted=["_find_action_and_subcommand by contract (its own unit)"]))

from contracts.apply_actions import apply_actions_unit  # noqa: E402
UNITS.append(apply_actions_unit("C06"))

from contracts.check_value_key import check_value_key_unit  # noqa: E402
UNITS.append(check_value_key_unit("C06"))


from contracts.share import shared  # noqa: E402
from contracts.share import shared  # noqa: E402,F811
UNITS += shared("C06", "contracts.c03", "ArgumentParser.parse_known_args")

# a `key+` entry is consumed only when the key has an action that supports appending: on any other key it stays for check_values to refuse
from contracts.appends_unit import apply_appends_unit  # noqa: E402
UNITS.append(apply_appends_unit("C06"))

from contracts.share import carried as _carried  # noqa: E402
UNITS += _carried("C06")

# a group-level default gives the declared members a value; it never makes a required member optional (check_required is the only place where a
# required key set to null is refused)
from contracts.signature_units import add_class_arguments_unit as _aca_unit  # noqa: E402
UNITS.append(_aca_unit("C06"))
