"""C15 - a linked argument always equals the function of its sources.

Units (jsonargparse/_link_arguments.py):
  ActionLink.__call__              the option of a link target is always rejected (TypeError)
  ActionLink._initial_input_checks establishes the invariant of the links group for parse links: targets pairwise
                                   distinct, no target is a source, no source is a target
  ActionLink.apply_parsing_links   for every parse link, in declaration order: the target is set exactly once to the
                                   compute function of the *current* source values (the source itself without function)
  ActionLink.set_target_value      plain-argument target: writes the target key and nothing else (frame)
Links per scenario: 0..2, keys symbolic strings.
"""
import z3

from pyvc.engine import ClassRef, ExcVal, PyRaise, Rec, Unsupported, lift, is_z3
from pyvc.units import Setup, Unit

S = z3.StringSort()


# ------------------------------------------------------------------------------------- __call__
def call_setup(ctx):
    self = Rec("ActionLink", attrs={"source": [(z3.String("src_key"), [Rec("Action")])], "target": (z3.String("target_key"), Rec("Action"))})
    return Setup(env={"self": self, "args": (), "kwargs": {}})


def call_post(ctx, st, result):
    ctx.oblige("post", "direct-assignment-to-a-link-target-is-always-rejected", False)


def call_raises(ctx, st, exc):
    ctx.oblige("raises", "rejects-with-TypeError", exc.cls == "TypeError")


# ------------------------------------------------------------------------------------- _initial_input_checks
def ic_setup(ctx):
    apply_on = ["parse", "instantiate", "other"][ctx.choose(3, "apply_on")]
    n_existing = ctx.choose(3, "n-existing-links")
    existing = []
    for i in range(n_existing):
        a_on = ["parse", "instantiate"][ctx.choose(2, f"existing[{i}].apply_on")]
        two = ctx.choose(2, f"existing[{i}].two-sources") == 1  # a link computed from several sources: every one of them is a source
        existing.append(Rec("ActionLink", attrs={"target": (z3.String(f"t{i}"), None), "source": [(z3.String(f"s{i}"), None)] + ([(z3.String(f"s{i}b"), None)] if two else []), "apply_on": a_on}))
    src_kind = ctx.choose(3, "source-kind")  # a single string, a 1-tuple, a 2-tuple
    srcs = [z3.String("src0"), z3.String("src1")]
    source = srcs[0] if src_kind == 0 else tuple(srcs[:src_kind])
    has_fn = ctx.choose(2, "compute_fn-given") == 1
    target = z3.String("target")
    parser = Rec("ArgumentParser", attrs={"_links_group": Rec("Group", attrs={"_group_actions": existing})})
    self = Rec("ActionLink", attrs={"apply_on": apply_on, "compute_fn": Rec("function") if has_fn else None, "parser": parser})
    return Setup(env={"self": self, "source": source, "target": target},
                 data=dict(apply_on=apply_on, existing=existing, sources=[srcs[0]] if src_kind == 0 else srcs[:src_kind], target=target, has_fn=has_fn, src_kind=src_kind))


def overlaps(a, b):
    """the same key, or one nested in the other (a.v1 lies in the group a): a link into a member of a group changes the group"""
    dot = z3.StringVal(".")
    return z3.Or(a == b, z3.PrefixOf(z3.Concat(b, dot), a), z3.PrefixOf(z3.Concat(a, dot), b))


def ic_post(ctx, st, result):
    d = st.data
    ctx.oblige("post", "apply_on-is-parse-or-instantiate", d["apply_on"] in ("parse", "instantiate"))
    ctx.oblige("post", "several-sources-need-a-compute-function", d["has_fn"] or len(d["sources"]) == 1)
    if d["apply_on"] == "parse":
        tg = [a.attrs["target"][0] for a in d["existing"]]
        parse_src = [x[0] for a in d["existing"] if a.attrs["apply_on"] == "parse" for x in a.attrs["source"]]
        ctx.oblige("post", "target-is-not-already-a-target", z3.And([d["target"] != t for t in tg]) if tg else True)
        # a chain is a chain also through a group: a source that *contains* another link's target (the group a, when a.v1 is a target), or lies inside one, is fed by that
        # link (the exact-key test of the shipped code accepted link(a -> b) followed by link(c -> a.v1), and b was computed from a without v1; fixed)
        ctx.oblige("post", "no-source-is,contains-or-lies-inside-the-target-of-another-link(no chains)", z3.And([z3.Not(overlaps(s, t)) for s in d["sources"] for t in tg]) if tg else True, strings=True)
        ctx.oblige("post", "the-target-neither-is,contains-nor-lies-inside-a-source(any of them)-of-a-parse-link", z3.And([z3.Not(overlaps(d["target"], s)) for s in parse_src]) if parse_src else True, strings=True)


def ic_raises(ctx, st, exc):
    d = st.data
    ctx.oblige("raises", f"only-ValueError(got {exc.cls}@{exc.origin})", exc.cls == "ValueError")
    # a link is refused only for one of the stated reasons
    reasons = [d["apply_on"] not in ("parse", "instantiate"), (not d["has_fn"]) and len(d["sources"]) > 1]
    if d["apply_on"] == "parse":
        tg = [a.attrs["target"][0] for a in d["existing"]]
        parse_src = [x[0] for a in d["existing"] if a.attrs["apply_on"] == "parse" for x in a.attrs["source"]]
        reasons += [d["target"] == t for t in tg] + [overlaps(s, t) for s in d["sources"] for t in tg] + [overlaps(d["target"], s) for s in parse_src]
    concrete = [r for r in reasons if isinstance(r, bool)]
    symbolic = [r for r in reasons if not isinstance(r, bool)]
    ctx.oblige("raises", "refused=>bad-apply_on,or-several-sources-without-function,or-a-chain/double-target", True if any(concrete) else (z3.Or(*symbolic) if symbolic else False))


# ------------------------------------------------------------------------------------- apply_parsing_links
def ap_setup(ctx):
    skip = ctx.choose(3, "skip-mode")  # 0: normal, 1: apply_config_skip set, 2: print_config requested
    sub_mode = ["no-subcommand", "selected-with-section", "selected-without-section"][ctx.choose(3, "subcommand")]
    n = ctx.choose(3, "n-parse-links")
    store = {}
    sub_section = Rec("Namespace", attrs={"tag": "section-of-fit"})
    subparser = Rec("ArgumentParser", attrs={"tag": "subparser-of-fit"})
    if sub_mode == "selected-with-section":
        store["fit"] = sub_section
    actions = []
    for i in range(n):
        has_fn = ctx.choose(2, f"link[{i}].compute_fn") == 1
        n_src = 1 + (ctx.choose(2, f"link[{i}].two-sources") if has_fn else 0)
        source = []
        for j in range(n_src):
            key = f"src{i}_{j}"
            store[key] = z3.Int(f"cfg[{key}]")
            source.append((key, [Rec("Action", attrs={"dest": key, "_typehint": None})]))
        computed = z3.Int(f"compute_fn{i}(...)")

        def call_compute_fn(ctx_, s_, a, k, _i=i, _c=computed):
            ctx_.event("compute", _i, tuple(a[0]))
            return _c

        actions.append(Rec("ActionLink", attrs={"source": source, "target": (f"tgt{i}", Rec("Action", attrs={"dest": f"tgt{i}"})), "compute_fn": Rec("function", attrs={"i": i}) if has_fn else None,
                                                "option_strings": [f"--tgt{i}"], "apply_on": "parse", "computed": computed}, methods={"call_compute_fn": call_compute_fn}))
        store[f"tgt{i}"] = z3.Int(f"user-supplied-tgt{i}")  # whatever was supplied for the target itself
    cfg = Rec("Namespace", methods={
        "__contains__": lambda c, s_, a, k: a[0] in store,
        "__getitem__": lambda c, s_, a, k: store[a[0]],
    })
    parser = Rec("ArgumentParser", attrs={"_links_group": Rec("Group"), "logger": Rec("Logger", methods={"debug": lambda c, s_, a, k: None})},
                 methods={"_check_value_key": lambda c, s_, a, k: (c.event("check-source", a[2]), a[1])[1]})

    def set_target_value(ctx_, a, k):
        ctx_.event("set-target", a[0], a[1])
        store[a[0].attrs["target"][0]] = a[1]
        return None

    calls = {
        "apply_config_skip.get": lambda c, a, k: skip == 1,
        "_ActionPrintConfig.is_print_config_requested": lambda c, a, k: skip == 2,
        "_ActionSubCommands.get_subcommand": lambda c, a, k: (None, None) if sub_mode == "no-subcommand" else ("fit", subparser),
        "ActionLink.apply_parsing_links": lambda c, a, k: c.event("recurse", a[0], a[1]),
        "get_link_actions": lambda c, a, k: list(actions) if a[1] == "parse" else [],
        "ActionTypeHint.is_subclass_typehint": lambda c, a, k: False,
        "ActionTypeHint.is_mapping_typehint": lambda c, a, k: False,
        "get_signature_parameters": lambda c, a, k: [],
        "ActionLink.set_target_value": set_target_value,
    }
    return Setup(env={"parser": parser, "cfg": cfg}, calls=calls, consts={"Namespace": ClassRef("Namespace")}, data=dict(skip=skip, actions=actions, store=dict(store), live=store, sub_mode=sub_mode, sub_section=sub_section, subparser=subparser))


def ap_post(ctx, st, result):
    d = st.data
    sets = [e for e in ctx.events if e[0] == "set-target"]
    if d["skip"]:
        ctx.oblige("post", "links-not-applied-while-a-config-is-being-loaded-or-printed", not sets)
        return
    ctx.oblige("post", "every-parse-link-applied-exactly-once-in-declaration-order", [e[1] for e in sets] == d["actions"])
    rec = [e for e in ctx.events if e[0] == "recurse"]
    if d["sub_mode"] == "selected-with-section":
        ctx.oblige("post", "links-of-the-selected-subcommand-are-applied-on-its-own-section-with-its-own-parser", len(rec) == 1 and rec[0][1] is d["subparser"] and rec[0][2] is d["sub_section"])
        ctx.oblige("post", "subcommand-links-first,then-this-level's", [e[0] for e in ctx.events if e[0] in ("recurse", "set-target")][:1] == ["recurse"])
    else:
        ctx.oblige("post", "no-recursion-without-a-selected-subcommand-section", not rec)
    for e, a in zip(sets, d["actions"]):
        i = d["actions"].index(a)
        if a.attrs["compute_fn"] is None:
            want = d["store"][a.attrs["source"][0][0]]
            ctx.oblige("post", f"link[{i}]:target==source-value(whatever was supplied for the target)", e[2] is want)
        else:
            comp = [c for c in ctx.events if c[0] == "compute" and c[1] == i]
            args_ok = len(comp) == 1 and all(x is d["store"][k] for x, (k, _) in zip(comp[0][2], a.attrs["source"])) and len(comp[0][2]) == len(a.attrs["source"])
            ctx.oblige("post", f"link[{i}]:compute_fn-called-once-with-the-source-values-in-order", args_ok)
            ctx.oblige("post", f"link[{i}]:target==compute_fn(sources)", e[2] is a.attrs["computed"])


def ap_raises(ctx, st, exc):
    ctx.oblige("raises", f"no-own-exception(got {exc.cls}@{exc.origin})", False)


# ------------------------------------------------------------------------------------- set_target_value
def stv_setup(ctx):
    kind = ["plain-argument", "class-argument-itself", "init_arg-of-one-class", "init_arg-of-a-list-of-classes", "init_arg-absent-from-cfg"][ctx.choose(5, "target-kind")]
    log = []
    value = z3.Int("value")
    dest = "trainer.logger" if kind != "plain-argument" else "size"
    child = "init_args.save_dir"
    target_key = {"plain-argument": "size", "class-argument-itself": dest}.get(kind, dest + "." + child)
    items = []
    if kind == "init_arg-of-a-list-of-classes":
        pattern = [[True, True], [True, False], [False, True], [False, False]][ctx.choose(4, "which-items-have-the-parameter")]
        for i, has in enumerate(pattern):
            st_ = {"init_args.save_dir": z3.Int(f"item{i}.old")} if has else {}
            items.append(Rec("Namespace", attrs={"store": st_, "i": i}, methods={
                "__contains__": lambda c, s_, a, k: a[0] in s_.attrs["store"],
                "__setitem__": lambda c, s_, a, k: (s_.attrs["store"].__setitem__(a[0], a[1]), log.append(("item", s_.attrs["i"], a[0], a[1])))[1]}))
    parent = list(items) if kind == "init_arg-of-a-list-of-classes" else Rec("Namespace", attrs={"tag": "single spec"})
    in_cfg = kind != "init_arg-absent-from-cfg"
    cfg = Rec("Namespace", methods={"__setitem__": lambda c, s_, a, k: log.append(("cfg", a[0], a[1])), "get": lambda c, s_, a, k: parent,
                                    "__contains__": lambda c, s_, a, k: in_cfg})
    target_action = Rec("ActionTypeHint", attrs={"dest": dest}, methods={"_check_type": lambda c, s_, a, k: log.append(("check_type", a[0]))})
    action = Rec("ActionLink", attrs={"target": (target_key, target_action), "option_strings": ["--t"]})
    calls = {"ActionTypeHint.is_subclass_typehint": lambda c, a, k: kind != "plain-argument"}
    consts = {"Namespace": ClassRef("Namespace")}
    return Setup(env={"action": action, "value": value, "cfg": cfg, "logger": Rec("Logger", methods={"debug": lambda c, s_, a, k: None})}, calls=calls, consts=consts,
                 data=dict(kind=kind, log=log, value=value, key=target_key, items=items))


def stv_post(ctx, st, result):
    d = st.data
    log, kind = d["log"], d["kind"]
    tag = f"[{kind}]"
    cfg_writes = [e for e in log if e[0] == "cfg"]
    item_writes = [e for e in log if e[0] == "item"]
    if kind == "init_arg-of-a-list-of-classes":
        have = [it.attrs["i"] for it in d["items"] if any(e[1] == it.attrs["i"] for e in item_writes) or "init_args.save_dir" in it.attrs["store"]]
        with_param = [it.attrs["i"] for it in d["items"] if "init_args.save_dir" in it.attrs["store"]]
        if with_param:
            ctx.oblige("post", "list-of-classes:every-item-whose-class-has-the-parameter-receives-the-value(the others are left alone)" + tag,
                       sorted(e[1] for e in item_writes) == sorted(with_param) and all(e[2] == "init_args.save_dir" and e[3] is d["value"] for e in item_writes) and not cfg_writes,
                       note=f"items with the parameter {with_param}, written {[e[1] for e in item_writes]}")
        else:
            ctx.oblige("post", "list-of-classes-none-with-the-parameter:falls-back-to-the-key-itself" + tag, not item_writes)
    elif kind == "init_arg-absent-from-cfg":
        ctx.oblige("post", "a-target-that-is-not-in-the-configuration-is-left-alone" + tag, not cfg_writes and not item_writes)
    else:
        ctx.oblige("post", "writes-exactly-the-target-key-with-the-value" + tag, len(cfg_writes) == 1 and cfg_writes[0][1] == d["key"] and cfg_writes[0][2] is d["value"] and not item_writes)
        if kind == "class-argument-itself":
            ctx.oblige("post", "a-whole-class-argument-target-is-type-checked-first" + tag, [e for e in log if e[0] == "check_type"] == [("check_type", d["value"])])


UNITS = [
    Unit("C15", "jsonargparse._link_arguments:ActionLink.__call__", call_setup, call_post, call_raises, expect_cover=("raise:TypeError",)),
    Unit("C15", "jsonargparse._link_arguments:ActionLink._initial_input_checks", ic_setup, ic_post, ic_raises, expect_cover=("return", "raise:ValueError")),
    Unit("C15", "jsonargparse._link_arguments:ActionLink.apply_parsing_links", ap_setup, ap_post, ap_raises,
         trusted=["set_target_value(action, value, cfg) sets the target key of `action` to value and nothing else (unit below, plain targets)",
                  "no subcommand selected; sources are plain (non-subclass) arguments; compute_fn parameters are not mapping-typed",
                  "parser._check_value_key returns without changing cfg"]),
    Unit("C15", "jsonargparse._link_arguments:ActionLink.set_target_value", stv_setup, stv_post, ap_raises,
         trusted=["ActionTypeHint.is_subclass_typehint tells class-typed targets (also lists of classes)"]),
]
from contracts.core_units import dump_unit  # noqa: E402
UNITS.append(dump_unit("C15"))

from contracts.misc_units import replace_target_unit  # noqa: E402
UNITS.append(replace_target_unit("C15"))

VERIFIED_CALLEES = ("ActionLink.set_target_value",)
LEVEL = "other"
TECHNIQUE = "contract-based deductive verification (VCs from the real AST with ghost events; link invariant from _initial_input_checks) + bounded run-time contract checking of parse links on generated parsers"
LEVEL_TEXT = 'Proved: the option of a link target is always rejected (TypeError); _initial_input_checks establishes targets pairwise distinct / no chains for parse links (symbolic keys); apply_parsing_links sets every link target exactly once, in declaration order, to the source value or compute_fn(sources) whatever was supplied for the target, and not while a config is loaded or printed; set_target_value writes only the target key. Also: the key resolvers find_parent_or_child_actions / find_subclass_action_or_class_group (component boundaries, exclusions, class groups only), link_arguments, get_nested_links. Bounded only: 17 parser shapes x channels x ways of supplying the target.'
LEVEL_NOTE = "under construction"
EXPLANATION = "under construction"
ASSUMPTIONS = []
TRUSTED = []
BOUNDED = [{"name": "parse-links-on-generated-parsers", "script": "bounded/b15_link_parse.py"}]


# ------------------------------------------------------------------------------------------------ call_compute_fn
def ccf_setup(ctx):
    from pyvc.engine import Fn
    fate = ["returns", "raises-ValueError", "raises-KeyError", "raises-TypeError", "not-callable"][ctx.choose(5, "compute_fn")]
    n = ctx.choose(3, "number-of-sources")
    args = [z3.Int(f"source{i}") for i in range(n)]
    out = Rec("computed value")

    def fn(c, a, k):
        c.event("compute", tuple(a), dict(k))
        if fate.startswith("raises"):
            raise PyRaise(ExcVal(fate.split("-")[1], args=("boom",), origin="compute_fn"))
        return out

    compute = Fn(fn, "compute_fn") if fate != "not-callable" else None
    self = Rec("ActionLink", attrs={"compute_fn": compute, "option_strings": ["--a --> b"]})
    # a result remembered from an earlier call (whatever made it) must not be served: the target is the function of the *current* source values
    if ctx.choose(2, "something-remembered-on-the-action-from-an-earlier-call") == 1:
        for name in ("_last_call", "_cache", "_last_result", "_memo"):
            self.attrs[name] = (list(args), Rec("stale value"))
    snap = dict(self.attrs)
    return Setup(env={"self": self, "args": tuple(args)}, calls={"callable": lambda c, a, k: isinstance(a[0], Fn)}, data=dict(fate=fate, args=args, out=out, self_=self, snap=snap))


def ccf_post(ctx, st, result):
    d = st.data
    ev = [e for e in ctx.events if e[0] == "compute"]
    ccf_frame(ctx, d)
    ctx.oblige("post", f"the-value-is-compute_fn-applied-to-the-source-values,in-order,once[{d['fate']},{len(d['args'])} sources]",
               d["fate"] == "returns" and result is d["out"] and len(ev) == 1 and len(ev[0][1]) == len(d["args"]) and all(x is y for x, y in zip(ev[0][1], d["args"])) and ev[0][2] == {})


def ccf_frame(ctx, d):
    a = d["self_"].attrs
    ctx.oblige("frame", f"nothing-of-the-call-is-remembered-on-the-link(the source values are the caller's mutable objects: a remembered argument list would change with them)[{d['fate']},{len(d['args'])} sources]",
               set(a) == set(d["snap"]) and all(a[k] is d["snap"][k] for k in a))


def ccf_raises(ctx, st, exc):
    d = st.data
    ccf_frame(ctx, d)
    ctx.oblige("raises", f"any-failure-of-compute_fn-is-reported-as-ValueError(never a value from nowhere)[{d['fate']}](got {exc.cls})", exc.cls == "ValueError" and d["fate"] != "returns")


UNITS.append(Unit("C15", "jsonargparse._link_arguments:ActionLink.call_compute_fn", ccf_setup, ccf_post, ccf_raises, expect_cover=("return", "raise:ValueError"),
                  trusted=["str(a) of a source value does not raise"]))


# ------------------------------------------------------------------------------------------------ strip_link_target_keys
# a link target is derived: it is not part of what dump()/save() write (so that re-parsing recomputes it from its sources); stripping
# removes exactly the target keys (and a group left empty by that), also below the selected subcommand, and nothing else.
def slt_setup(ctx):
    from contracts.ns_units import Branch, build, view, common as ns_common
    scen = ["flat-target", "nested-target", "nested-target-leaves-siblings", "two-links", "subclass-init_arg-target", "target-absent", "no-links", "subcommand"][ctx.choose(8, "links")]
    v = [z3.Int(f"v{i}") for i in range(6)]
    ctx.classes.add("ActionLink", ["Action"])
    ctx.classes.add("ActionTypeHint", ["Action"])
    L = lambda t: Rec("ActionLink", attrs={"target": (t, Rec("Action"))})  # noqa: E731
    plain = Rec("Action", attrs={"dest": "a"})
    tree, actions, want = {
        "flat-target": (Branch(a=v[0], y=v[1]), [plain, L("y")], Branch(a=v[0])),
        "nested-target": (Branch(a=v[0], b=Branch(x=v[1])), [plain, L("b.x")], Branch(a=v[0])),
        "nested-target-leaves-siblings": (Branch(a=v[0], b=Branch(x=v[1], z=v[2])), [L("b.x")], Branch(a=v[0], b=Branch(z=v[2]))),
        "two-links": (Branch(a=v[0], b=Branch(x=v[1]), y=v[2], c=Branch(d=Branch(e=v[3]), f=v[4])), [L("b.x"), L("y"), L("c.d.e")], Branch(a=v[0], c=Branch(f=v[4]))),
        "subclass-init_arg-target": (Branch(m=Branch(class_path="P", init_args=Branch(k=v[0], j=v[1]))),
                                     [Rec("ActionTypeHint", attrs={"dest": "m", "sub_add_kwargs": {"linked_targets": ["k"]}})], Branch(m=Branch(class_path="P", init_args=Branch(j=v[1])))),
        "target-absent": (Branch(a=v[0]), [L("b.x"), L("y")], Branch(a=v[0])),
        "no-links": (Branch(a=v[0], b=Branch(x=v[1])), [plain, Rec("ActionTypeHint", attrs={"dest": "t"})], Branch(a=v[0], b=Branch(x=v[1]))),
        "subcommand": (Branch(a=v[0], y=v[1], fit=Branch(lr=v[2], y2=v[3])), [plain, L("y")], Branch(a=v[0], fit=Branch(lr=v[2], y2=v[3]))),
    }[scen]
    cfg = build(tree)
    subparser = Rec("ArgumentParser(fit)")
    parser = Rec("ArgumentParser", attrs={"_actions": actions})

    def get_subcommands(c, a, k):
        c.event("get_subcommands", a[0], a[1], list(open_cms))
        return (["fit"], [subparser]) if scen == "subcommand" else (None, None)

    def recurse(c, a, k):
        c.event("recurse", a[0], a[1])

    open_cms = []
    consts, inline = ns_common(ctx)
    consts.update({"ActionLink": ClassRef("ActionLink"), "ActionTypeHint": ClassRef("ActionTypeHint")})
    calls = {"_ActionSubCommands.get_subcommands": get_subcommands, "ActionLink.strip_link_target_keys": recurse}
    cms = {"_ActionSubCommands.not_single_subcommand": (lambda c, a, k: open_cms.append("not_single_subcommand"), lambda c, t, e: (open_cms.pop(), False)[1])}
    return Setup(env={"parser": parser, "cfg": cfg}, calls=calls, consts=consts, cms=cms, inline=inline,
                 data=dict(scen=scen, cfg=cfg, want=want, view=view, subparser=subparser, parser=parser))


def slt_post(ctx, st, result):
    from contracts.ns_units import same_view, rec_at
    d = st.data
    tag = f"[{d['scen']}]"
    ctx.oblige("post", "exactly-the-link-target-keys-are-removed(and a group left empty by that);every-other-key-is-untouched" + tag, same_view(d["view"](d["cfg"]), d["want"]), note=str(d["view"](d["cfg"])))
    gs = [e for e in ctx.events if e[0] == "get_subcommands"]
    ctx.oblige("post", "the-selected-subcommand-is-looked-up-on-this-configuration-without-the-single-subcommand-shortcut" + tag, len(gs) == 1 and gs[0][1] is d["parser"] and gs[0][2] is d["cfg"] and gs[0][3] == ["not_single_subcommand"])
    rec = [e for e in ctx.events if e[0] == "recurse"]
    if d["scen"] == "subcommand":
        ctx.oblige("post", "the-section-of-the-selected-subcommand-is-stripped-by-its-own-parser" + tag, len(rec) == 1 and rec[0][1] is d["subparser"] and rec[0][2] is rec_at(d["cfg"], ["fit"]))
    else:
        ctx.oblige("post", "no-subcommand=>no-recursion" + tag, not rec)


def slt_raises(ctx, st, exc):
    ctx.oblige("raises", f"never-raises[{st.data['scen']}](got {exc.cls}@{exc.origin})", False)


UNITS.append(Unit("C15", "jsonargparse._link_arguments:ActionLink.strip_link_target_keys", slt_setup, slt_post, slt_raises,
                  trusted=["cfg is a Namespace: pop / in / [] / del by their contracts (C11 units)", "_ActionSubCommands.get_subcommands by contract (C17 unit)", "the recursive call by contract"]))


# ------------------------------------------------------------------------------------------------ get_link_actions
def gla_setup(ctx):
    has_group = ctx.choose(2, "parser-has-links") == 1
    apply_on = ["parse", "instantiate"][ctx.choose(2, "apply_on")]
    acts = [Rec("ActionLink", attrs={"apply_on": a, "i": i}) for i, a in enumerate(["parse", "instantiate", "parse", "instantiate"])]
    skip_kind = ["default", "empty", "second-and-third"][ctx.choose(3, "skip")]
    parser = Rec("ArgumentParser", attrs={"_links_group": Rec("group", attrs={"_group_actions": acts})} if has_group else {})
    env = {"parser": parser, "apply_on": apply_on}
    if skip_kind != "default":
        env["skip"] = [] if skip_kind == "empty" else [acts[1], acts[2]]
    return Setup(env=env, data=dict(has_group=has_group, apply_on=apply_on, acts=acts, skip_kind=skip_kind))


def gla_post(ctx, st, result):
    d = st.data
    skipped = [d["acts"][1], d["acts"][2]] if d["skip_kind"] == "second-and-third" else []
    want = [a for a in d["acts"] if a.attrs["apply_on"] == d["apply_on"] and not any(a is s for s in skipped)] if d["has_group"] else []
    ctx.oblige("post", f"exactly-the-links-of-that-phase,in-declaration-order,minus-the-skipped[{d['apply_on']},{d['skip_kind']},{'links' if d['has_group'] else 'no links'}]",
               isinstance(result, list) and len(result) == len(want) and all(x is y for x, y in zip(result, want)))


def gla_raises(ctx, st, exc):
    ctx.oblige("raises", f"never-raises(got {exc.cls}@{exc.origin})", False)


UNITS.append(Unit("C15", "jsonargparse._link_arguments:get_link_actions", gla_setup, gla_post, gla_raises))


# ------------------------------------------------------------------------------------------------ ActionLink.__init__ (declaration of a link)
# a link is accepted only between keys the parser defines (sources: what the phase needs - any action for parse links, a class for
# instantiation links; target: an action, for a class-typed target a key below its init_args); afterwards the target can no longer be
# given by the user (its option strings lead to the link), is no longer required, and the link is listed with the links of its phase.
def li_setup(ctx):
    apply_on = ["parse", "instantiate"][ctx.choose(2, "apply_on")]
    src_kind = ["one-known", "two-known", "one-unknown", "given-as-tuple", "a-key-listed-twice"][ctx.choose(5, "sources")]
    tgt_kind = ["leaf", "unknown", "class-init_arg", "class-whole", "class-bad-key"][ctx.choose(5, "target")]
    required = ctx.choose(2, "target-is-required") == 1
    cyc = ctx.choose(2, "closes-a-cycle") == 1 if apply_on == "instantiate" else False
    has_links_group = ctx.choose(2, "links-declared-before") == 1
    for n in ("ActionLink", "_ActionConfigLoad", "_ActionSubCommands", "ActionConfigFile"):
        ctx.classes.add(n, ["Action"])
    sources = {"one-known": "a", "two-known": ("a", "b"), "one-unknown": "zz", "given-as-tuple": ("a",),
               "a-key-listed-twice": ("a", "b", "a")}[src_kind]  # the compute function gets one argument per *listed* source: a repeated key is passed twice
    target = {"leaf": "t", "unknown": "zz.t", "class-init_arg": "m.init_args.k", "class-whole": "m", "class-bad-key": "m.k"}[tgt_kind]
    t_action = Rec("Action", attrs={"dest": "t", "option_strings": ["--t", "-t"], "type": Rec("int"), "help": "help of t"})
    m_action = Rec("ActionTypeHint", attrs={"dest": "m", "option_strings": ["--m"], "_typehint": Rec("Base"), "help": "help of m", "sub_add_kwargs": {}, "type": None})
    m_help = Rec("Action", attrs={"dest": "m.help", "option_strings": ["--m.help"]})
    other = Rec("Action", attrs={"dest": "a", "option_strings": ["--a"]})
    grp = Rec("group", attrs={"_group_actions": [other, t_action, m_action, m_help], "description": None})
    links_group = Rec("links group", attrs={"_group_actions": []})
    req = {"t", "m", "m.init_args.k", "a"} if required else {"a"}
    parser = Rec("ArgumentParser", attrs={"_option_string_actions": {"--t": t_action, "-t": t_action, "--m": m_action, "--m.help": m_help, "--a": other}, "_actions": [other, t_action, m_action, m_help],
                                          "_action_groups": [grp], "required_args": req},
                 methods={"add_argument_group": lambda c, s_, a, k: (c.event("links-group-created", a), links_group)[1]})
    if has_links_group:
        parser.attrs["_links_group"] = links_group
    src_found = {"a": [other], "b": [Rec("Action", attrs={"dest": "b"})]}
    cls_found = {"a": Rec("class group a"), "b": Rec("class group b")}
    tmap = {"t": t_action, "m.init_args.k": m_action, "m": m_action, "m.k": m_action}
    inited = []
    self = Rec("ActionLink", methods={"_initial_input_checks": lambda c, s_, a, k: c.event("input-checks", a[0], a[1]),
                                      "instantiation_order": lambda c, s_, a, k: (c.event("cycle-check", list(links_group.attrs["_group_actions"])), (_ for _ in ()).throw(PyRaise(ExcVal("ValueError", args=("cycle",), origin="instantiation_order"))) if cyc else [])[1]})
    calls = {
        "find_subclass_action_or_class_group": lambda c, a, k: (c.event("find-class", a[1], k.get("exclude")), cls_found.get(a[1]))[1],
        "find_parent_or_child_actions": lambda c, a, k: (c.event("find-actions", a[1], k.get("exclude")), src_found.get(a[1]))[1],
        "_find_parent_action": lambda c, a, k: (c.event("find-target", a[1], k.get("exclude")), tmap.get(a[1]))[1],
        "ActionTypeHint.is_subclass_typehint": lambda c, a, k: a[0] is m_action,
        "super": lambda c, a, k: Rec("super()", methods={"__init__": lambda c2, s2, a2, k2: inited.append((a2, dict(k2)))}),
        "import_module": lambda c, a, k: Rec("module", attrs={"empty_help": "<empty help>"}),
        # siblings of this module that a rewrite of the cycle check may consult (the shipped code asks instantiation_order only): the links already
        # declared for the phase, and text helpers evaluated by CPython on the concrete keys of the scenario
        "get_link_actions": lambda c, a, k: [x for x in links_group.attrs["_group_actions"] if isinstance(x, Rec) and x.attrs.get("apply_on", a[1]) == a[1]],
        "re.sub": lambda c, a, k: __import__("re").sub(a[0], a[1], a[2]),
        "dict.fromkeys": lambda c, a, k: dict.fromkeys(a[0]), "set": lambda c, a, k: set(a[0]) if a else set(), "sorted": lambda c, a, k: sorted(a[0]),  # (de-duplicating / re-ordering helpers, by CPython on the concrete keys)
    }
    consts = {"ActionLink": ClassRef("ActionLink"), "_ActionConfigLoad": ClassRef("_ActionConfigLoad"), "_ActionSubCommands": ClassRef("_ActionSubCommands"), "ActionConfigFile": ClassRef("ActionConfigFile"), "SUPPRESS": "==SUPPRESS=="}
    fn = [None, Rec("fn", attrs={"__name__": "compute"})][ctx.choose(2, "compute_fn")]
    snap = dict(osa=dict(parser.attrs["_option_string_actions"]), actions=list(parser.attrs["_actions"]), req=set(req), shown=list(grp.attrs["_group_actions"]), links=list(links_group.attrs["_group_actions"]),
                sub_add_kwargs=dict(m_action.attrs["sub_add_kwargs"]))
    return Setup(env={"self": self, "parser": parser, "source": sources, "target": target, "compute_fn": fn, "apply_on": apply_on}, calls=calls, consts=consts,
                 inline={"split_key_leaf": "jsonargparse._namespace:split_key_leaf"},
                 data=dict(snap=snap, apply_on=apply_on, src_kind=src_kind, tgt_kind=tgt_kind, required=required, cyc=cyc, has_links_group=has_links_group, sources=sources, target=target, parser=parser, self_=self,
                           t_action=t_action, m_action=m_action, m_help=m_help, other=other, grp=grp, links_group=links_group, inited=inited, fn=fn, src_found=src_found, cls_found=cls_found))


def li_legal(d):
    return d["src_kind"] != "one-unknown" and d["tgt_kind"] in ("leaf", "class-init_arg", "class-whole") and not d["cyc"]


def li_post(ctx, st, result):
    d = st.data
    tag = f"[{d['apply_on']},sources:{d['src_kind']},target:{d['tgt_kind']}{',required' if d['required'] else ''}{',first link' if not d['has_links_group'] else ''}]"
    ctx.oblige("post", "accepted=>every-source-and-the-target-are-defined-by-the-parser,a-class-target-is-addressed-below-init_args(or as a whole),and-no-cycle-is-closed" + tag, li_legal(d))
    if not li_legal(d):
        return
    p, s_ = d["parser"].attrs, d["self_"].attrs
    srcs = (d["sources"],) if isinstance(d["sources"], str) else d["sources"]
    table = d["cls_found"] if d["apply_on"] == "instantiate" else d["src_found"]
    ctx.oblige("post", "the-sources-are-resolved-the-way-the-phase-needs(classes for instantiation links, actions for parse links),in-the-order-given" + tag,
               isinstance(s_.get("source"), list) and [x[0] for x in s_["source"]] == list(srcs) and all(x[1] is table[x[0]] for x in s_["source"]))
    tgt_action = d["t_action"] if d["tgt_kind"] == "leaf" else d["m_action"]
    ctx.oblige("post", "the-target-is-bound-to-its-action" + tag, s_.get("target") == (d["target"], tgt_action) or (s_.get("target")[0] == d["target"] and s_.get("target")[1] is tgt_action))
    ctx.oblige("post", "a-linked-target-is-no-longer-required-from-the-user" + tag, d["target"] not in p["required_args"] and "a" in p["required_args"])
    if d["tgt_kind"] in ("leaf", "class-whole"):
        ctx.oblige("post", "every-option-string-of-the-target-now-leads-to-the-link(the user can no longer set it);other-options-untouched" + tag,
                   all(p["_option_string_actions"][o] is d["self_"] for o in tgt_action.attrs["option_strings"]) and p["_option_string_actions"]["--a"] is d["other"]
                   and d["self_"] in p["_actions"] and not any(x is tgt_action for x in p["_actions"]) and len(p["_actions"]) == 4)
    else:
        ctx.oblige("post", "a-link-into-a-class's-init_args-keeps-the-class-option-and-records-the-linked-parameter-on-it" + tag,
                   p["_option_string_actions"]["--m"] is d["m_action"] and d["m_action"].attrs["sub_add_kwargs"].get("linked_targets") == {"k"} and any(x is d["m_action"] for x in p["_actions"]))
    ctx.oblige("post", "the-link-is-listed-with-the-parser's-links(group created on first use)" + tag,
               p.get("_links_group") is d["links_group"] and [x for x in d["links_group"].attrs["_group_actions"]] == [d["self_"]] and (len([e for e in ctx.events if e[0] == "links-group-created"]) == (0 if d["has_links_group"] else 1)))
    ctx.oblige("post", "declared-as-an-action-whose-dest-is-the-target-and-that-never-contributes-a-default" + tag,
               len(d["inited"]) == 1 and d["inited"][0][1].get("dest") == d["target"] and d["inited"][0][1].get("default") == "==SUPPRESS==")
    ctx.oblige("post", "phase-and-function-are-remembered-as-given" + tag, s_.get("apply_on") == d["apply_on"] and s_.get("compute_fn") is d["fn"])
    ic = [e for e in ctx.events if e[0] == "input-checks"]
    ctx.oblige("post", "the-declaration-is-checked-first(_initial_input_checks on the source tuple and the target)" + tag, len(ic) == 1 and ic[0][1] == tuple(srcs) and ic[0][2] == d["target"] and ctx.events[0][0] in ("links-group-created", "input-checks"))
    ctx.oblige("post", "the-link-knows-its-parser,target-and-sources(what _check_type and get_kwargs use)" + tag, s_.get("parser") is d["parser"] and s_.get("_target") == d["target"] and s_.get("_source") == tuple(srcs))
    want_type = None if d["tgt_kind"] == "class-init_arg" else (d["m_action"].attrs["_typehint"] if d["tgt_kind"] == "class-whole" else d["t_action"].attrs["type"])
    ctx.oblige("post", "the-link-carries-the-target's-type(None for a link into init_args: checked by the class's own parser)" + tag, len(d["inited"]) == 1 and d["inited"][0][1].get("type") is want_type)
    if d["tgt_kind"] in ("leaf", "class-whole"):
        shown = d["grp"].attrs["_group_actions"]
        ctx.oblige("post", "the-replaced-target(and a class target's --*.help companion)-is-no-longer-listed-in-its-help-group" + tag,
                   not any(x is tgt_action for x in shown) and (d["tgt_kind"] == "leaf" or not any(x is d["m_help"] for x in shown)) and any(x is d["other"] for x in shown))
    if d["apply_on"] == "instantiate":
        cc = [e for e in ctx.events if e[0] == "cycle-check"]
        ctx.oblige("post", "an-instantiation-link-is-checked-for-cycles-with-itself-already-listed" + tag, len(cc) == 1 and any(x is d["self_"] for x in cc[0][1]))


def li_raises(ctx, st, exc):
    d = st.data
    ctx.oblige("raises", f"ValueError-exactly-when-the-link-is-not-legal[{d['apply_on']},sources:{d['src_kind']},target:{d['tgt_kind']}{',cycle' if d['cyc'] else ''}](got {exc.cls}@{exc.origin})",
               exc.cls == "ValueError" and not li_legal(d))
    p, sn = d["parser"].attrs, d["snap"]
    same = (p["_option_string_actions"] == sn["osa"] and all(p["_option_string_actions"][k] is v for k, v in sn["osa"].items()) and len(p["_actions"]) == len(sn["actions"]) and all(x is y for x, y in zip(p["_actions"], sn["actions"]))
            and p["required_args"] == sn["req"] and len(d["grp"].attrs["_group_actions"]) == len(sn["shown"]) and all(x is y for x, y in zip(d["grp"].attrs["_group_actions"], sn["shown"]))
            and list(d["links_group"].attrs["_group_actions"]) == sn["links"] and d["m_action"].attrs["sub_add_kwargs"] == sn["sub_add_kwargs"])
    ctx.oblige("frame", f"a-refused-link-leaves-the-parser-as-it-was(options, actions, required keys, help listing, links, linked parameters):it-stays-usable[{d['apply_on']},sources:{d['src_kind']},target:{d['tgt_kind']}{',cycle' if d['cyc'] else ''}]", same)


UNITS.append(Unit("C15", "jsonargparse._link_arguments:ActionLink.__init__", li_setup, li_post, li_raises, max_paths=20000, expect_cover=("return", "raise:ValueError"),
                  trusted=["find_parent_or_child_actions / find_subclass_action_or_class_group / _find_parent_action resolve keys to actions (C06 units for the latter)", "_initial_input_checks: its own unit; instantiation_order: C16 unit",
                           "argparse.Action.__init__ (super()) stores the keywords"]))


# apply_parsing_links, source handling: a link whose class-typed source is not in the configuration is left for later (not applied with a
# missing value); every source is re-checked by its own action before it is read; a namespace is handed over as a dict exactly when the
# receiving side (the target's type, or the compute function's parameter) is a mapping
def ap2_setup(ctx):
    scen = ["class-source-missing", "class-source-present", "class-source-present-with-value-None", "namespace-to-mapping-target", "namespace-to-plain-target", "namespace-to-init_arg-mapping", "fn-with-mapping-parameter", "fn-with-plain-parameter", "fn-with-two-sources(plain declared first,class-typed second)"][ctx.choose(9, "scenario")]
    ctx.classes.add("Namespace", ["object"])
    ctx.classes.add("ActionTypeHint", ["Action"])
    as_dict = Rec("dict from as_dict")
    ns_val = Rec("Namespace", attrs={"tag": "source value"}, methods={"as_dict": lambda c, s_, a, k: (c.event("as_dict"), as_dict)[1]})
    plain = z3.Int("source value")
    src_action = Rec("ActionTypeHint", attrs={"dest": "src", "class_typed": scen.startswith("class-source")})
    store = {}
    two = scen.startswith("fn-with-two-sources")
    second_action = Rec("ActionTypeHint", attrs={"dest": "model", "class_typed": True})
    second_val = z3.Int("second source value")
    if two:
        store["src"] = plain
        store["model.init_args.width"] = second_val
        store["model"] = Rec("Namespace", attrs={"tag": "model spec"})
    elif scen == "class-source-present-with-value-None":
        store["src"] = None
    elif scen != "class-source-missing":
        store["src"] = ns_val if scen.startswith(("namespace", "fn")) else plain
    target_action = Rec("ActionTypeHint", attrs={"dest": "tgt" if scen != "namespace-to-init_arg-mapping" else "m", "_typehint": Rec("hint"), "mapping": scen == "namespace-to-mapping-target"},
                        methods={"is_mapping_typehint": lambda c, s_, a, k: s_.attrs["mapping"], "is_init_arg_mapping_typehint": lambda c, s_, a, k: (c.event("init-arg-mapping?", a[0], a[1]), scen == "namespace-to-init_arg-mapping")[1]})
    computed = Rec("computed")
    has_fn = scen.startswith("fn")
    link = Rec("ActionLink", attrs={"source": [("src", [src_action])] + ([("model.init_args.width", [second_action])] if two else []), "target": ("tgt" if scen != "namespace-to-init_arg-mapping" else "m.init_args.d", target_action), "compute_fn": Rec("fn") if has_fn else None,
                                    "option_strings": ["--l"], "apply_on": "parse"}, methods={"call_compute_fn": lambda c, s_, a, k: (c.event("compute", list(a[0])), computed)[1]})
    cfg = Rec("Namespace", methods={"__contains__": lambda c, s_, a, k: a[0] in store, "__getitem__": lambda c, s_, a, k: store[a[0]], "get": lambda c, s_, a, k: store.get(a[0], a[1] if len(a) > 1 else None)})
    parser = Rec("ArgumentParser", attrs={"_links_group": Rec("g"), "logger": Rec("Logger", methods={"debug": lambda c, s_, a, k: c.event("logged")})},
                 methods={"_check_value_key": lambda c, s_, a, k: (c.event("check-source", a[0], a[1], a[2], a[3]), a[1])[1]})
    param = Rec("ParamData", attrs={"annotation": Rec("annotation", attrs={"mapping": scen == "fn-with-mapping-parameter"})})
    calls = {
        "apply_config_skip.get": lambda c, a, k: False, "_ActionPrintConfig.is_print_config_requested": lambda c, a, k: False,
        "_ActionSubCommands.get_subcommand": lambda c, a, k: (c.event("get_subcommand", a[0], a[1], dict(k)), (None, None))[1],
        "get_link_actions": lambda c, a, k: (c.event("links-of", a[0], a[1]), [link])[1],
        "ActionTypeHint.is_subclass_typehint": lambda c, a, k: a[0].attrs.get("class_typed", False),
        "ActionTypeHint.is_mapping_typehint": lambda c, a, k: a[0].attrs.get("mapping", False),
        "get_signature_parameters": lambda c, a, k: [param],
        "ActionLink.set_target_value": lambda c, a, k: c.event("set-target", a[0], a[1], a[2], a[3]),
    }
    return Setup(env={"parser": parser, "cfg": cfg}, calls=calls, consts={"Namespace": ClassRef("Namespace"), "ActionTypeHint": ClassRef("ActionTypeHint")},
                 data=dict(scen=scen, link=link, ns_val=ns_val, plain=plain, as_dict=as_dict, computed=computed, parser=parser, cfg=cfg, src_action=src_action, store=store, two=two, second_val=second_val, second_action=second_action))


def ap2_post(ctx, st, result):
    d = st.data
    tag = f"[{d['scen']}]"
    ev = ctx.events
    sets = [e for e in ev if e[0] == "set-target"]
    gs = [e for e in ev if e[0] == "get_subcommand"]
    ctx.oblige("post", "the-selected-subcommand-is-looked-up-on-this-parser-and-configuration,without-failing-when-there-is-none" + tag, len(gs) == 1 and gs[0][1] is d["parser"] and gs[0][2] is d["cfg"] and gs[0][3] == {"fail_no_subcommand": False})
    if d["scen"] == "class-source-missing":
        ctx.oblige("post", "a-link-whose-class-typed-source-is-not-in-the-configuration-is-not-applied(nothing is read from a missing key)" + tag, not sets and not [e for e in ev if e[0] in ("check-source", "compute")])
        return
    ck = [e for e in ev if e[0] == "check-source"]
    if d["two"]:
        cp = [e for e in ev if e[0] == "compute"]
        ctx.oblige("post", "the-function-receives-the-values-of-the-sources-in-the-order-in-which-the-link-declares-them(whatever their types)" + tag,
                   len(cp) == 1 and len(cp[0][1]) == 2 and cp[0][1][0] is d["plain"] and cp[0][1][1] is d["second_val"])
        ctx.oblige("post", "the-target-is-set-once-to-what-the-function-computes" + tag, len(sets) == 1 and sets[0][2] is d["computed"])
        return
    ctx.oblige("post", "the-source-is-re-checked-by-its-own-action,on-its-own-value,before-it-is-read" + tag, len(ck) == 1 and ck[0][1] is d["src_action"] and ck[0][2] is d["store"]["src"] and ck[0][3] == "src" and ck[0][4] is None)
    want = {"class-source-present": d["plain"], "class-source-present-with-value-None": None, "namespace-to-mapping-target": d["as_dict"], "namespace-to-plain-target": d["ns_val"], "namespace-to-init_arg-mapping": d["as_dict"],
            "fn-with-mapping-parameter": d["computed"], "fn-with-plain-parameter": d["computed"]}[d["scen"]]
    ctx.oblige("post", "the-target-is-set-once,to-the-source-value(a namespace as a dict exactly when the target's type is a mapping)-or-to-what-the-function-computes" + tag,
               len(sets) == 1 and sets[0][1] is d["link"] and sets[0][2] is want and sets[0][3] is d["cfg"])
    if d["scen"].startswith("fn"):
        cp = [e for e in ev if e[0] == "compute"]
        arg = d["as_dict"] if d["scen"] == "fn-with-mapping-parameter" else d["ns_val"]
        ctx.oblige("post", "the-function-receives-a-namespace-source-as-a-dict-exactly-when-its-parameter-is-annotated-as-a-mapping" + tag, len(cp) == 1 and len(cp[0][1]) == 1 and cp[0][1][0] is arg)
    ctx.oblige("post", "only-the-parse-links-of-this-parser-are-applied" + tag, [e[1:] for e in ev if e[0] == "links-of"] == [(d["parser"], "parse")])


def ap2_raises(ctx, st, exc):
    ctx.oblige("raises", f"no-own-exception[{st.data['scen']}](got {exc.cls}@{exc.origin})", False)


UNITS.append(Unit("C15", "jsonargparse._link_arguments:ActionLink.apply_parsing_links", ap2_setup, ap2_post, ap2_raises, label="source-handling", max_paths=500,
                  trusted=["is_subclass_typehint / is_mapping_typehint / is_init_arg_mapping_typehint classify type hints", "get_signature_parameters: C13", "set_target_value / call_compute_fn: their own units"]))


# the resolvers of source / target keys used by ActionLink.__init__, link_arguments itself, and the nested links handed to subclass parsers
from contracts.link_helpers import find_parent_or_child_actions_unit, find_subclass_action_or_class_group_unit, get_nested_links_unit, link_arguments_unit  # noqa: E402
UNITS += [find_parent_or_child_actions_unit("C15"), find_subclass_action_or_class_group_unit("C15"), link_arguments_unit("C15"), get_nested_links_unit("C15")]

from contracts.share import carried as _carried  # noqa: E402
UNITS += _carried("C15")
