"""ActionTypeHint._check_type (jsonargparse/_typehints.py): load the given text / config, adapt it to the type hint,
fall back to the original string.  One unit, used by C02 / C03 / C05 / C09 / C19:
  every adapt_typehints call runs inside change_to_path_dir(the config file the value came from)        (C19)
  the previous value handed to adapt_typehints is never the action's own default object                 (C08/C09: the
        callee edits prev_val in place when the class changes, so handing the default would rewrite the parser)
  the retry with default= happens only for values that were text; the first attempt never gets default= (C02)
  only TypeError (naming the key) leaves the function                                                   (C03)
"""
import z3

from pyvc.engine import ClassRef, ExcVal, PyRaise, Rec, Unsupported, is_z3
from pyvc.units import Setup, Unit


def ct_setup(ctx):
    orig_kind = ["text", "dash", "dict-object", "int-object", "dict-object-carrying-__path__(a value that came out of an earlier parse)"][ctx.choose(5, "value-kind")]
    loaded_kind = ["same", "dict-from-config-file", "list-from-config-file", "loader-error", "file-is-not-text(UnicodeDecodeError / embedded null byte: a ValueError)"][ctx.choose(5, "parse_value_or_config")] if orig_kind in ("text", "dash") else "same"
    first = ["accepts", "ValueError", "ValueError-from-PathError", "TypeError"][ctx.choose(4, "first-attempt")]
    second = ["accepts", "ValueError"][ctx.choose(2, "second-attempt")]
    enable_path = ctx.choose(2, "enable_path") == 1
    valid_string = ctx.choose(2, "typehint-admits-str") == 1
    default_kind = ctx.choose(3, "default:none/class-spec/a-number")
    default_is_spec = default_kind == 1
    cfg_prev = ["no-cfg", "cfg-with-previous-value", "cfg-without", "empty-cfg(a falsy Namespace: nothing parsed so far)"][ctx.choose(4, "cfg")]
    text = "-" if orig_kind == "dash" else z3.String("value")
    earlier_path = Rec("Path", attrs={"tag": "the file an earlier parse read this value from"})
    orig = {"text": text, "dash": text, "dict-object": {"a": 1}, "int-object": z3.Int("value"), "dict-object-carrying-__path__(a value that came out of an earlier parse)": {"a": 1, "__path__": earlier_path}}[orig_kind]
    config_path = Rec("Path", attrs={"tag": "config file"}) if loaded_kind in ("dict-from-config-file", "list-from-config-file") else None
    loaded = {"a": 1, "__path__": config_path} if loaded_kind == "dict-from-config-file" else ["item.txt"] if loaded_kind == "list-from-config-file" else orig
    default_obj = Rec("Namespace", attrs={"tag": "THE-ACTION-DEFAULT"}, methods={"__getitem__": lambda c, s_, a, k: "pkg.DefaultClass"}) if default_is_spec else None
    if default_kind == 2:
        default_obj = z3.Int("declared-default")  # a value equal to the declared default is adapted like any other (True == 1 == 1.0: equal is not conforming)
    prev_in_cfg = Rec("Namespace", attrs={"tag": "previous value from cfg"})
    adapted1, adapted2 = (Rec(n, methods={"__setitem__": lambda c, s_, a, k: s_.attrs.__setitem__(a[0], a[1])}) for n in ("adapted-1", "adapted-2"))
    ctx.classes.add("YAMLError", ["Exception"])

    def parse_value_or_config(c, a, k):
        c.event("load", a[0], dict(k))
        if loaded_kind == "loader-error":
            raise PyRaise(ExcVal("YAMLError", origin="parse_value_or_config"))
        if loaded_kind.startswith("file-is-not-text"):
            # reading the file the value names is part of loading it: bytes that are not text, or a name with a null byte, raise (a subclass of) ValueError
            raise PyRaise(ExcVal("UnicodeDecodeError", origin="parse_value_or_config"))
        return (loaded, config_path)

    n_calls = []

    def adapt(c, a, k):
        n_calls.append(1)
        c.event("adapt", a[0], dict(k), tuple(c.ghost.get("dirs", [])), isinstance(a[0], dict) and "__path__" in a[0])
        which = first if len(n_calls) == 1 else second
        if which == "accepts":
            return adapted1 if len(n_calls) == 1 else adapted2
        if which == "TypeError":
            raise PyRaise(ExcVal("TypeError", origin="adapt"))
        ex = ExcVal("ValueError", origin="adapt")
        if which == "ValueError-from-PathError":
            ex.attrs["parent"] = ExcVal("PathError", origin="Path()")
        raise PyRaise(ex)

    def enter_dir(c, a, k):
        c.ghost.setdefault("dirs", []).append(a[0])
        return None

    def exit_dir(c, t, e):
        c.ghost["dirs"].pop()
        return False

    cfg = None
    if cfg_prev != "no-cfg":
        cfg = Rec("Namespace", methods={"get": lambda c, s_, a, k: prev_in_cfg if cfg_prev == "cfg-with-previous-value" else None}, truthy=not cfg_prev.startswith("empty-cfg"))
    self = Rec("ActionTypeHint", attrs={"_enable_path": enable_path, "default": default_obj, "dest": "model", "_typehint": Rec("hint"), "logger": Rec("Logger"), "sub_add_kwargs": {}},
               methods={"_is_valid_string": lambda c, s_, a, k: valid_string and (isinstance(a[0], str) or (is_z3(a[0]) and a[0].sort() == z3.StringSort()))})
    calls = {
        "_is_action_value_list": lambda c, a, k: False, "parse_value_or_config": parse_value_or_config, "get_loader_exceptions": lambda c, a, k: (ClassRef("YAMLError"),),
        "sub_defaults.get": lambda c, a, k: False, "is_subclass_spec": lambda c, a, k: isinstance(a[0], Rec),
        "Namespace": lambda c, a, k: Rec("Namespace", attrs={"tag": "fresh namespace", "kw": dict(k)}),
        "adapt_typehints": adapt, "indent_text": lambda c, a, k: a[0],
        # contract of subclass_spec_as_namespace (C14 unit): a spec that already is a Namespace is returned itself (no copy)
        "subclass_spec_as_namespace": lambda c, a, k: a[0],
    }
    ctx.classes.add("NestedArg", ["tuple"])
    consts = {"NestedArg": ClassRef("NestedArg"), "PathError": ClassRef("PathError")}
    env = {"self": self, "value": orig, "append": False, "cfg": cfg}
    return Setup(env=env, calls=calls, consts=consts, cms={"change_to_path_dir": (enter_dir, exit_dir)},
                 data=dict(earlier_path=earlier_path, orig_kind=orig_kind, loaded_kind=loaded_kind, first=first, second=second, enable_path=enable_path, valid_string=valid_string, default_obj=default_obj, cfg_prev=cfg_prev,
                           orig=orig, config_path=config_path, loaded=loaded, adapted1=adapted1, adapted2=adapted2, prev_in_cfg=prev_in_cfg))


def common_obligations(ctx, d):
    adapts = [e for e in ctx.events if e[0] == "adapt"]
    tag = f"[{d['orig_kind']},{d['loaded_kind']},1st:{d['first']},2nd:{d['second']}]"
    ctx.oblige("proto", "every-adaptation-runs-inside-change_to_path_dir(the config file the value was loaded from)" + tag, all(len(e[3]) == 1 and e[3][0] is d["config_path"] for e in adapts) and len(adapts) >= 1)
    ctx.oblige("frame", "the-previous-value-handed-to-the-adaptation-is-never-the-action's-own-default-object" + tag,
               all(e[2].get("prev_val") is not d["default_obj"] or d["default_obj"] is None for e in adapts))
    ctx.oblige("post", "every-value-given-is-adapted(also one that equals the declared default)" + tag, len(adapts) >= 1)
    want_prev = d["prev_in_cfg"] if d["cfg_prev"] == "cfg-with-previous-value" else None
    if want_prev is not None:
        ctx.oblige("post", "the-value-already-in-the-configuration-is-the-previous-value" + tag, all(e[2].get("prev_val") is want_prev for e in adapts))
    elif isinstance(d["default_obj"], Rec):
        ctx.oblige("post", "without-one,the-previous-value-is-a-fresh-namespace-holding-only-the-default's-class_path" + tag,
                   all(isinstance(e[2].get("prev_val"), Rec) and e[2]["prev_val"].attrs.get("kw") == {"class_path": "pkg.DefaultClass"} for e in adapts))
    ctx.oblige("post", "the-first-attempt-adapts-the-loaded-value-and-never-gets-default=" + tag, adapts and "default" not in adapts[0][2] and (adapts[0][1] is d["loaded"] or adapts[0][1] is d["orig"]))
    was_text = d["orig_kind"] in ("text", "dash")
    if len(adapts) > 1:
        ctx.oblige("post", "a-retry(with default=)-happens-only-for-a-value-that-was-text,and-on-the-original-text" + tag, len(adapts) == 2 and was_text and adapts[1][1] is d["orig"] and "default" in adapts[1][2])
    ctx.oblige("post", "the-original-value-is-always-passed-as-orig_val" + tag, all(e[2].get("orig_val") is d["orig"] for e in adapts))
    ctx.oblige("post", "the-loader's-bookkeeping-key(__path__ of a mapping read from a file)-is-taken-out-before-the-value-meets-its-type(it is not an item of the mapping)" + tag, not any(e[4] for e in adapts))
    return adapts, tag


def _unreadable(ctx, d, outcome, value=None, exc=None):
    """the file the value names cannot be read as text: a failure of this value like any other - the text itself when the type admits str, else TypeError naming the key"""
    tag = f"[{d['orig_kind']},file-is-not-text,admits-str={d['valid_string']}]"
    ctx.oblige("post", "nothing-is-adapted-from-a-file-that-could-not-be-read" + tag, not [e for e in ctx.events if e[0] == "adapt"])
    if outcome == "return":
        ctx.oblige("post", "accepted-only-as-the-text-itself,when-the-type-admits-str" + tag, d["valid_string"] and value is d["orig"])
    else:
        ctx.oblige("raises", f"only-TypeError-naming-the-key-leaves(got {exc.cls}@{exc.origin})" + tag, exc.cls == "TypeError" and exc.origin.startswith("raise@") and not d["valid_string"])


def ct_post(ctx, st, result):
    d = st.data
    if d["loaded_kind"].startswith("file-is-not-text"):
        return _unreadable(ctx, d, "return", value=result)
    adapts, tag = common_obligations(ctx, d)
    out = result
    legit = [d["adapted1"], d["adapted2"]] + ([d["loaded"], d["orig"]] if d["valid_string"] else [])
    ctx.oblige("post", "returns-the-adapted-value(or the text itself when the type admits str)" + tag, any(out is x for x in legit), note=repr(out))
    if d["first"] == "accepts":
        ctx.oblige("post", "first-attempt-accepted=>its-result-is-returned,no-retry" + tag, out is d["adapted1"] and len(adapts) == 1)
    if d["orig_kind"].startswith("dict-object-carrying") and isinstance(out, Rec):
        # re-parsing a result (parse_object(result) == result): the bookkeeping entry is taken out for the type check and put back on what is returned
        ctx.oblige("post", "a-mapping-that-came-with-__path__-gets-it-back-on-the-value-returned(re-parsing a result keeps its metadata)" + tag, out.attrs.get("__path__") is d["earlier_path"])


def ct_raises(ctx, st, exc):
    d = st.data
    if d["loaded_kind"].startswith("file-is-not-text"):
        return _unreadable(ctx, d, "raise", exc=exc)
    adapts, tag = common_obligations(ctx, d)
    ctx.oblige("raises", "only-TypeError-naming-the-key-leaves" + tag, exc.cls == "TypeError" and exc.origin.startswith("raise@"))
    ctx.oblige("raises", "a-value-accepted-by-the-first-attempt-is-never-rejected" + tag, d["first"] != "accepts")


def check_type_unit(prop):
    return Unit(prop, "jsonargparse._typehints:ActionTypeHint._check_type", ct_setup, ct_post, ct_raises, expect_cover=("return", "raise:TypeError"), max_paths=60000,
                trusted=["parse_value_or_config(text) returns (loaded value, Path of the config file or None) or raises a loader exception", "adapt_typehints: by contract (C02 units); it may edit prev_val in place",
                         "single (non-list) action value; no sub-defaults context"])


# ------------------------------------------------------------------------------------------------ ActionTypeHint.__call__ (the argv path)
def atc_setup(ctx):
    use = ["argv", "factory", "factory-nargs-0"][ctx.choose(3, "use")]
    # the option may be spelled with a dash that its dest does not have (--my-list -> my_list): `--m` stands for the option string as declared, dest for its key
    dashed = ctx.choose(2, "option-name-with-a-dash(dest has an underscore)") == 1 if use == "argv" else False
    opt = ["--m", "--m.sub", "--m.init_args.sub", "--m+", None][ctx.choose(5, "option-string")] if use == "argv" else "--m"
    if dashed and opt in ("--m.sub", "--m.init_args.sub"):
        dashed = False  # (dotted sub-options of a dashed option name: outside this unit)
    optional_none = ctx.choose(2, "nargs=?-and-no-value") == 1 if use == "argv" and opt == "--m" else False
    result_kind = ["scalar", "subclass-spec"][ctx.choose(2, "checked-value")] if use == "argv" and not optional_none else "scalar"
    prev_kind = ["none", "spec-with-init_args", "spec-without-init_args", "not-a-spec"][ctx.choose(4, "previous-value")] if result_kind == "subclass-spec" else "none"
    ctx.classes.add("NestedArg", ["tuple"])
    given = z3.String("given text")
    new_init = Rec("init_args of the new value")
    checked = Rec("Namespace", attrs={"spec": True}, methods={"get": lambda c, s_, a, k: new_init if a[0] == "init_args" else None}) if result_kind == "subclass-spec" else Rec("checked value")
    prev_init = Rec("init_args of the previous value")
    prev = {"none": None, "spec-with-init_args": Rec("Namespace", attrs={"spec": True, "init_args": prev_init}, methods={"__contains__": lambda c, s_, a, k: a[0] == "init_args"}),
            "spec-without-init_args": Rec("Namespace", attrs={"spec": True}, methods={"__contains__": lambda c, s_, a, k: False}), "not-a-spec": z3.Int("prev")}[prev_kind]
    store = {"m": prev} if prev is not None else {}
    cfg = Rec("Namespace", methods={"get": lambda c, s_, a, k: store.get(a[0]), "update": lambda c, s_, a, k: (c.event("update", a[0], a[1]), store.__setitem__(a[1], a[0]))[1]})

    def check_type_(c, s_, a, k):
        c.event("_check_type_", a[0], dict(k))
        return checked

    name, dest = ("my-m", "my_m") if dashed else ("m", "m")
    if opt is not None and use == "argv":
        opt = opt.replace("--m", "--" + name, 1)
    if prev is not None:
        store.pop("m")
        store[dest] = prev
    self = Rec("ActionTypeHint", attrs={"dest": dest, "option_strings": ["--" + name, "--" + name + "+"], "nargs": "?" if optional_none else None, "_typehint": Rec("typehint"), "_enable_path": z3.Bool("enable_path")},
               methods={"_check_type_": check_type_})
    made = []
    calls = {"NestedArg": lambda c, a, k: Rec("NestedArg", attrs=dict(k)), "is_subclass_spec": lambda c, a, k: isinstance(a[0], Rec) and a[0].attrs.get("spec", False),
             "ActionTypeHint.discard_init_args_on_class_path_change": lambda c, a, k: c.event("discard", a[0], a[1], a[2]),
             "ActionTypeHint": lambda c, a, k: (made.append(dict(k)), Rec("new ActionTypeHint"))[1]}
    if use == "argv":
        args = (Rec("parser"), cfg, None if optional_none else given, opt)
        kwargs = {}
    else:
        args = ()
        kwargs = {"option_strings": ["--m"], "dest": "m"}
        if use == "factory-nargs-0":
            kwargs["nargs"] = 0
    return Setup(env={"self": self, "args": args, "kwargs": kwargs}, calls=calls, data=dict(dest=dest, name=name, use=use, opt=opt, optional_none=optional_none, result_kind=result_kind, prev_kind=prev_kind, given=given, checked=checked,
                                                                                         prev=prev, prev_init=prev_init, new_init=new_init, store=store, cfg=cfg, self_=self, made=made))


def atc_post(ctx, st, result):
    d = st.data
    tag = f"[{d['use']},{d['opt']}{',no value' if d['optional_none'] else ''},{d['result_kind']},prev:{d['prev_kind']}]"
    if d["use"] != "argv":
        ctx.oblige("post", "called-by-argparse-to-create-the-action:same-type-hint-and-path-setting,nargs=0-refused" + tag,
                   d["use"] == "factory" and len(d["made"]) == 1 and d["made"][0].get("_typehint") is d["self_"].attrs["_typehint"] and d["made"][0].get("_enable_path") is d["self_"].attrs["_enable_path"]
                   and d["made"][0].get("dest") == "m" and isinstance(result, Rec) and result.cls == "new ActionTypeHint")
        return
    ev = [e for e in ctx.events if e[0] == "_check_type_"]
    upd = [e for e in ctx.events if e[0] == "update"]
    if d["optional_none"]:
        ctx.oblige("post", "an-optional-argument-given-without-a-value-stores-None-unchecked" + tag, not ev and len(upd) == 1 and upd[0][1] is None and upd[0][2] == d["dest"])
        return
    ctx.oblige("post", "the-value-is-type-checked-once,with-the-configuration-so-far" + tag, len(ev) == 1 and ev[0][2].get("cfg") is d["cfg"])
    if len(ev) != 1:
        return
    val = ev[0][1]
    if d["opt"] is not None and d["opt"].endswith(".sub"):
        ctx.oblige("post", "--dest.K=v-and---dest.init_args.K=v-denote-the-same-nested-setting(K, v)" + tag, isinstance(val, Rec) and val.cls == "NestedArg" and val.attrs.get("key") == "sub" and val.attrs.get("val") is d["given"])
    else:
        ctx.oblige("post", "otherwise-the-text-given-is-what-is-checked" + tag, val is d["given"])
    ctx.oblige("post", "the-option's-own-`+`-spelling-appends(also when the option name has a dash its dest does not have),every-other-spelling-replaces" + tag,
               ev[0][2].get("append") is (d["opt"] == "--" + d["name"] + "+"))
    ctx.oblige("post", "the-checked-value-is-stored-under-the-option's-dest(overriding what was there: argv is applied left to right)" + tag,
               len(upd) == 1 and upd[0][1] is d["checked"] and upd[0][2] == d["dest"] and result is None)
    dis = [e for e in ctx.events if e[0] == "discard"]
    if d["result_kind"] == "subclass-spec" and d["prev_kind"] == "spec-with-init_args":
        ctx.oblige("post", "a-new-class-spec-over-a-previous-one:init_args-of-a-changed-class-are-discarded-from-(previous, new)" + tag,
                   len(dis) == 1 and dis[0][1] is d["self_"] and dis[0][2] is d["prev_init"] and dis[0][3] is d["new_init"])
    else:
        ctx.oblige("post", "no-discarding-otherwise" + tag, not dis)


def atc_raises(ctx, st, exc):
    d = st.data
    ctx.oblige("raises", f"only-nargs=0-at-creation-is-refused[{d['use']}](got {exc.cls})", d["use"] == "factory-nargs-0" and exc.cls == "ValueError")


def typehint_call_unit(prop):
    return Unit(prop, "jsonargparse._typehints:ActionTypeHint.__call__", atc_setup, atc_post, atc_raises, expect_cover=("return", "raise:ValueError"), max_paths=5000,
                trusted=["_check_type_ is _check_type (its own unit) with the error conversion", "cfg.update(value, key) stores value under key (C11)", "discard_init_args_on_class_path_change: its own unit"])


# ------------------------------------------------------------------------------------------------ ActionTypeHint.serialize
def ser_setup(ctx):
    list_valued = ctx.choose(2, "list-valued(nargs)") == 1
    has_sak = ctx.choose(2, "action-has-sub_add_kwargs") == 1
    items = [z3.Int("item0"), z3.Int("item1")]
    value = list(items) if list_valued else z3.Int("value")
    dump_kwargs = Rec("dump settings of the caller")
    open_cms = []
    sak = {"fail_untyped": True}
    self = Rec("ActionTypeHint", attrs={"_typehint": Rec("typehint"), "default": Rec("default"), "logger": Rec("logger")})
    if has_sak:
        self.attrs["sub_add_kwargs"] = sak

    def adapt(c, a, k):
        c.event("adapt", a[0], a[1], dict(k), list(open_cms))
        return ("serialised", a[0])

    calls = {"_is_action_value_list": lambda c, a, k: list_valued, "adapt_typehints": adapt}
    cms = {"dump_kwargs_context": (lambda c, a, k: open_cms.append(("dump_kwargs", a[0])), lambda c, t, e: (open_cms.pop(), False)[1])}
    return Setup(env={"self": self, "value": value, "dump_kwargs": dump_kwargs}, calls=calls, cms=cms,
                 data=dict(list_valued=list_valued, has_sak=has_sak, items=items, value=value, dump_kwargs=dump_kwargs, self_=self, sak=sak, open_cms=open_cms))


def ser_post(ctx, st, result):
    d = st.data
    tag = f"[{'list-valued' if d['list_valued'] else 'single value'}{',sub_add_kwargs' if d['has_sak'] else ''}]"
    ev = [e for e in ctx.events if e[0] == "adapt"]
    vals = d["items"] if d["list_valued"] else [d["value"]]
    ok = len(ev) == len(vals) and all(e[1] is v and e[2] is d["self_"].attrs["_typehint"] and e[3].get("serialize") is True and e[3].get("default") is d["self_"].attrs["default"]
                                     and (e[3].get("sub_add_kwargs") is d["sak"] if d["has_sak"] else e[3].get("sub_add_kwargs") == {}) and e[4] == [("dump_kwargs", d["dump_kwargs"])] for e, v in zip(ev, vals))
    ctx.oblige("post", "the-serialised-form-is-adapt_typehints(value, the action's own type hint, serialize=True)(item by item for a list-valued option),inside-the-caller's-dump-settings" + tag, ok)
    want = [("serialised", v) for v in vals] if d["list_valued"] else ("serialised", d["value"])
    ctx.oblige("post", "and-that-is-what-is-returned;no-context-left-open" + tag, result == want and not d["open_cms"])


def ser_raises(ctx, st, exc):
    ctx.oblige("raises", f"no-own-exception(got {exc.cls}@{exc.origin})", False)


def serialize_unit(prop):
    return Unit(prop, "jsonargparse._typehints:ActionTypeHint.serialize", ser_setup, ser_post, ser_raises, trusted=["adapt_typehints(serialize=True): the serialise-side obligations of the arms", "dump_kwargs_context sets the dump settings for nested dumps"])
