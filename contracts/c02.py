"""C02 - accepted values conform to the declared type; acceptance is compositional.

Units:
  adapt_typehints @ the Union arm   a Union is accepted exactly when some member accepts (or the documented string
                                    fall-back applies); the value returned is one produced by an accepting member - never
                                    an exception object; order of the members does not change acceptance
  sort_subtypes_for_union           the members tried are a permutation of the declared members
The recursive call adapt_typehints(val, member) is taken by contract: it either returns a value (member accepts) or raises.
Members: 2 or 3 per scenario (each a `str` member or another type), every accept/reject pattern.
"""
import itertools

import z3

from pyvc.engine import ClassRef, ExcVal, PyRaise, Rec, Unsupported, is_z3
from pyvc.units import Setup, Unit


def un_setup(ctx):
    n = 2 + ctx.choose(2, "n-members")
    # which member (if any) is `str`
    str_at = ctx.choose(n + 1, "str-member-position") - 1
    members = [ClassRef("str") if i == str_at else ClassRef(f"T{i}") for i in range(n)]
    val_is_str = ctx.choose(2, "val-is-str") == 1
    orig_is_str = True if val_is_str else ctx.choose(2, "orig_val-is-str") == 1
    val = z3.String("val") if val_is_str else z3.Int("val")
    orig_val = val if val_is_str else (z3.String("orig_val") if orig_is_str else val)
    accepts = {}
    produced = {}

    def adapt(ctx_, args, kwargs):
        v, member = args[0], args[1]
        i = members.index(member) if member in members else None
        if i is None:
            raise Unsupported("recursive call with a type that is not a member")
        if i not in accepts:
            # a `str` member accepts exactly the str values
            if member.name == "str":
                accepts[i] = val_is_str
            else:
                accepts[i] = ctx_.choose(2, f"member[{i}]-accepts") == 1
        ctx_.event("try", i)
        if accepts[i]:
            produced[i] = ctx_.fresh(f"adapted_by_member{i}", z3.IntSort())
            return produced[i]
        # a rejecting member may fail with any exception class (float(10**400) is an OverflowError, a missing key a KeyError ...): the Union must still try the others
        raise PyRaise(ExcVal(["ValueError", "TypeError", "OverflowError", "KeyError"][(i + (0 if val_is_str else 2)) % 4], origin=f"member{i}"))

    def sort_subtypes(ctx_, args, kwargs):
        order = ctx_.choose(2, "sorted-order")  # any permutation is allowed by its contract; two are explored
        return list(args[0]) if order == 0 else list(reversed(args[0]))

    def raise_union(ctx_, args, kwargs):
        raise PyRaise(ExcVal("ValueError", origin="raise_union_unexpected_value"))

    calls = {"adapt_typehints": adapt, "sort_subtypes_for_union": sort_subtypes, "raise_union_unexpected_value": raise_union}
    env = {"val": val, "subtypehints": tuple(members), "append": False, "adapt_kwargs": {}, "orig_val": orig_val}
    return Setup(env=env, calls=calls, data=dict(members=members, accepts=accepts, produced=produced, val_is_str=val_is_str, orig_is_str=orig_is_str, orig_val=orig_val, str_at=str_at))


def fallback(d):
    """The documented string fall-back: a `str` member, a value that was a string on the command line but was loaded as something else."""
    return d["str_at"] >= 0 and not d["val_is_str"] and d["orig_is_str"]


def un_post(ctx, st, result):
    d = st.data
    env = d["env"]
    out = env.lookup("val")
    tried = [e[1] for e in ctx.events if e[0] == "try"]
    some_accepts = any(d["accepts"].get(i) for i in tried)
    ctx.oblige("post", "accepted=>some-member-accepts-or-string-fallback", some_accepts or fallback(d))
    ctx.oblige("post", "result-is-never-an-exception-object", not isinstance(out, ExcVal), note=f"members tried {tried}, accepts {d['accepts']}, result {out!r}")
    legit = [d["produced"][i] for i in d["produced"]] + ([d["orig_val"]] if fallback(d) else [])
    ctx.oblige("post", "result-was-produced-by-an-accepting-member(or is the original string)", any(out is x for x in legit))
    order = list(range(len(d["members"]))) if "sorted-order=0" in ctx.decisions_txt else list(reversed(range(len(d["members"]))))
    ctx.oblige("post", "the-members-are-tried-in-the-sorted-order,none-skipped", tried == order[: len(tried)], note=f"tried {tried} sorted {order}")
    first = next((i for i in tried if d["accepts"].get(i)), None)
    if first is not None:
        ctx.oblige("post", "the-first-member(in that order)-that-accepts-decides:its-result-is-the-value,later-members-are-not-tried", out is d["produced"][first] and tried[-1] == first)
    else:
        ctx.oblige("post", "no-member-accepts=>every-member-was-tried-and-the-value-is-the-original-string", sorted(tried) == list(range(len(d["members"]))) and out is d["orig_val"])


def un_raises(ctx, st, exc):
    d = st.data
    tried = [e[1] for e in ctx.events if e[0] == "try"]
    if exc.origin != "raise_union_unexpected_value":
        ctx.oblige("raises", f"only-the-union-error(got {exc.cls}@{exc.origin})", False)
        return
    ctx.oblige("raises", "rejected=>every-member-was-tried", sorted(tried) == list(range(len(d["members"]))))
    ctx.oblige("raises", "rejected=>no-member-accepts-and-no-string-fallback", not any(d["accepts"].get(i) for i in tried) and not fallback(d))


UNITS = [
    Unit("C02", "jsonargparse._typehints:adapt_typehints@if(typehint_origin == Union)", un_setup, un_post, un_raises,
         expect_cover=("return", "raise:ValueError"), replayer="replayers.c02:replay_union",
         trusted=["recursive adapt_typehints(val, member): returns a value iff the member accepts, raises otherwise (induction hypothesis)",
                  "sort_subtypes_for_union returns a permutation of the members (two permutations explored per scenario)",
                  "the unit is the Union arm only: the rest of adapt_typehints is not part of this unit"]),
]
from contracts.adapt_arms import arms_units  # noqa: E402
UNITS = UNITS + arms_units("C02")

from contracts.check_type import check_type_unit  # noqa: E402
UNITS.append(check_type_unit("C02"))

from contracts.c01 import json_number_lemmas  # noqa: E402
LEMMAS = [json_number_lemmas("C02")]

VERIFIED_CALLEES = ("adapt_typehints",)
LEVEL = "other"
TECHNIQUE = "contract-based deductive verification (VCs from the real AST of the Union arm, recursion by contract) + bounded run-time contract checking against an independent structural validator"
LEVEL_TEXT = 'Verified on the real arms of adapt_typehints (block units, recursive calls by contract = structural induction): Union (2-3 members, every accept/reject pattern, both trial orders: accepted exactly when some member accepts or the documented string fall-back applies; the first accepting member in the sorted order decides; never an exception object - this refuted the shipped code; fixed), leaf types, Tuple/Set, List (incl. `key+` append and dotted sub-options of the last item), Dict, Literal, Enum, registered types, dataclass-like and class types; the dispatch of adapt_typehints sends each of 22 kinds of type hint to its arm; sort_subtypes_for_union never loses or duplicates a member; _check_type, _check_value_key and _apply_actions make every given value meet the action declared for its key (this found that keys equal to Namespace method names bypassed their actions; fixed). Bounded only: conformance and compositional acceptance for the whole type grammar end to end (323 types incl. every Union permutation x value sets, independent structural validator).'
LEVEL_NOTE = "under construction"
EXPLANATION = "under construction"
ASSUMPTIONS = []
TRUSTED = []
BOUNDED = [{"name": "type-conformance-and-acceptance", "script": "bounded/b02_type_conformance.py"}]

from contracts.adapt_arms import dispatch_unit  # noqa: E402
UNITS.append(dispatch_unit("C02"))

from contracts.apply_actions import apply_actions_unit  # noqa: E402
UNITS.append(apply_actions_unit("C02"))

from contracts.check_value_key import check_value_key_unit  # noqa: E402
UNITS.append(check_value_key_unit("C02"))


from contracts.sort_unit import ss_post, ss_raises, ss_setup  # noqa: E402,F401


UNITS.append(Unit("C02", "jsonargparse._typehints:sort_subtypes_for_union", ss_setup, ss_post, ss_raises, max_paths=20000,
                  trusted=["sorted(key=) is stable", "get_typehint_origin classifies list / dict hints"]))


from contracts.any_units import adapt_classes_any_unit, is_action_value_list_unit  # noqa: E402
UNITS += [adapt_classes_any_unit("C02"), is_action_value_list_unit("C02")]
from contracts.any_units import is_single_subclass_typehint_unit, is_subclass_typehint_unit, is_supported_typehint_unit  # noqa: E402
UNITS += [is_supported_typehint_unit("C02"), is_subclass_typehint_unit("C02"), is_single_subclass_typehint_unit("C02")]

from contracts.share import carried as _carried  # noqa: E402
UNITS += _carried("C02")

# "restricted-type predicate": the validation functions of the restricted number / string types and the constructor that runs them (units of C20)
from contracts.share import shared as _shared_c02  # noqa: E402
UNITS += _shared_c02("C02", "contracts.c20", "restricted_number_type.<locals>.validation_fn", "restricted_string_type.<locals>.validation_fn", "TypeCore.__new__")
