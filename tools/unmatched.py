"""List the violation keys of a property's last evidence file (unmatched by known findings), grouped by a prefix depth."""
import json, sys, collections, re
pid = sys.argv[1]; depth = int(sys.argv[2]) if len(sys.argv) > 2 else 3
e = json.load(open(f"/verif/evidence/{pid}.json"))
keys = [v["what"] for v in e["coverage"]["violating_cases"]]
g = collections.OrderedDict()
for k in keys:
    g.setdefault(":".join(k.split(":")[:depth]), []).append(k)
print(pid, "unmatched:", len(keys), "groups:", len(g))
for p, ks in g.items():
    print(f"  [{len(ks)}] {p}    e.g. {ks[0][:170]}")
