"""Archive a confirmed seeded change under /verif/seeded/<id>/ with what was run against it."""
import json, os, shutil, subprocess, sys
pid, src, name = sys.argv[1], sys.argv[2], sys.argv[3]
res = json.loads(subprocess.run([sys.executable, "/verif/tools/seedtest.py", pid, src] + sys.argv[4:], capture_output=True, text=True).stdout.strip().splitlines()[-1])
dst = f"/verif/seeded/{name}"
os.makedirs(dst, exist_ok=True)
for f in ("patch.diff", "demo.py"):
    shutil.copy(os.path.join(src, f), os.path.join(dst, f))
meta = json.load(open(os.path.join(src, "meta.json")))
meta["property"] = pid
meta["confirmed"] = {"patch_applies_to_repo_head": res.get("applies"), "demo_on_unchanged_tree": res.get("demo_clean"), "demo_with_change": res.get("demo_patched"),
                     "existing_suite_still_passes(stable_pass of BASELINE.json)": res.get("suite_ok")}
meta["check_result"] = {"command": f"./check {pid} --tier quick (VERIF_REPO=<scratch clone of /repo with the patch applied>)", "exit": res.get("check_rc"), "summary": res.get("summary"),
                        "refuted_obligations_or_violating_keys": res.get("refuted_obligations"), "violating_cases": res.get("violating_cases"), "violation_lines": res.get("violations")}
meta["detected"] = res.get("check_rc") == 1
json.dump(meta, open(os.path.join(dst, "meta.json"), "w"), indent=1)
ok = res.get("applies") and res.get("demo_clean", [1])[0] == 0 and res.get("demo_patched", [0])[0] != 0 and res.get("suite_ok", True)
print(name, "valid-seed" if ok else "INVALID-SEED", "DETECTED" if meta["detected"] else "MISSED", "|", (res.get("summary") or "")[:150])
for v in (res.get("refuted_obligations") or [])[:3]:
    print("     ", str(v)[:200])
