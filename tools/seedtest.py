"""Confirm a seeded change and run the property's check against it, on a scratch copy of /repo (outside /repo and /verif;
removed afterwards).  usage: seedtest.py <PID> <dir with patch.diff demo.py meta.json> [--no-suite] [--tier quick]
Prints one JSON line: applies, demo_clean, demo_patched, suite_ok, check_rc, violations[...]."""
import json, os, shutil, subprocess, sys, tempfile, xml.etree.ElementTree as ET

pid, d = sys.argv[1], sys.argv[2]
tier = sys.argv[sys.argv.index("--tier") + 1] if "--tier" in sys.argv else "quick"
scratch = tempfile.mkdtemp(prefix="seedtest_")
res = {"property": pid, "dir": d}
try:
    repo = os.path.join(scratch, "repo")
    subprocess.run(["git", "clone", "-q", "--no-hardlinks", "/repo", repo], check=True)
    env = dict(os.environ, PYTHONPATH=repo)
    demo = os.path.join(d, "demo.py")
    r = subprocess.run(["/venv/bin/python", demo], capture_output=True, text=True, env=env, timeout=600, cwd=scratch)
    res["demo_clean"] = (r.returncode, (r.stdout + r.stderr).strip().splitlines()[-1:] )
    a = subprocess.run(["git", "-C", repo, "apply", os.path.abspath(os.path.join(d, "patch.diff"))], capture_output=True, text=True)
    res["applies"] = a.returncode == 0
    if not res["applies"]:
        res["apply_error"] = a.stderr[-300:]
    else:
        r = subprocess.run(["/venv/bin/python", demo], capture_output=True, text=True, env=env, timeout=600, cwd=scratch)
        res["demo_patched"] = (r.returncode, (r.stdout + r.stderr).strip().splitlines()[-1:])
        if "--no-suite" not in sys.argv:
            base = json.load(open("/root/.vp/BASELINE.json"))
            x = os.path.join(scratch, "r.xml")
            subprocess.run(f"cd {repo} && /venv/bin/python -m pytest -ra -q -p no:cacheprovider --timeout=900 --continue-on-collection-errors --junitxml={x}", shell=True, capture_output=True, text=True, env=env)
            passed = set()
            for tc in ET.parse(x).getroot().iter("testcase"):
                if not any(ch.tag in ("failure", "error", "skipped") for ch in tc):
                    passed.add(f"{tc.get('classname')}::{tc.get('name')}")
            missing = [t for t in base["stable_pass"] if t not in passed]
            res["suite_ok"] = not missing
            res["suite_missing"] = missing[:5]
        c = subprocess.run(["/verif/check", pid, "--tier", tier], capture_output=True, text=True, env=dict(os.environ, VERIF_REPO=repo), timeout=7200)
        res["check_rc"] = c.returncode
        lines = c.stdout.strip().splitlines()
        res["violations"] = [l[:260] for l in lines if l.startswith("VIOLATION")][:4]
        res["summary"] = lines[-1][:200] if lines else ""
        ev = os.path.join("/verif/evidence", pid + ".json")
        try:
            e = json.load(open(ev))
            res["refuted_obligations"] = e["coverage"].get("refuted", [])[:6]
            res["violating_cases"] = len(e["coverage"].get("violating_cases", []))
        except Exception:
            pass
finally:
    shutil.rmtree(scratch, ignore_errors=True)
print(json.dumps(res))
