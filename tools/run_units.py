import sys,time; sys.path.insert(0,'/verif')
from pyvc import units, solve
import importlib
from collections import Counter
modname, sel = sys.argv[1], sys.argv[2:]
m = importlib.import_module(modname)
us = m.units("C11") if hasattr(m, "units") else m.UNITS
for u in us:
    if sel and not any(x in u.target + "[" + u.label + "]" for x in sel): continue
    t=time.time(); r=units.run_unit(u); print(u.target.split(":")[1],u.label,'paths',r.paths,'obl',len(r.obligations),'undecided',len(r.undecided), r.covers, round(time.time()-t,1), r.error[:300])
    seen=set()
    for x in r.undecided:
        k=(x.get('why'),x.get('line'))
        if k not in seen and len(seen)<5: seen.add(k); print('   UND',x.get('why'),x.get('line'),x.get('code'))
    d=units.serialize(r)
    res=solve.solve_all([{'smt2':o['smt2'],'timeout_s':20,'pre_verdict':o['meta'].get('pre_verdict',''),'strings':o['meta'].get('strings',False)} for o in d['obligations']])
    print('  ',dict(Counter(x['verdict'] for x in res)))
    n=0
    for o,x in zip(d['obligations'],res):
        if x['verdict']!='unsat' and o['kind']!='canary' and n<8: n+=1; print('     ',x['verdict'], o['name'].split('/',2)[-1][:260])
