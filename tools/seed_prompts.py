"""Writes the self-contained prompts given to the seeding sub-agents (they see only the property text and a scratch git worktree
of /repo; nothing from /verif).  usage: python3 tools/seed_prompts.py <out-dir> <batch-tag> <n-changes> <first-index> C02 C04 ...
Creates the worktrees /tmp/wt<tag>_<id> and the output dirs /tmp/seed<tag>_<id>."""
import glob
import json
import os
import subprocess
import sys

out, tag, n, first = sys.argv[1], sys.argv[2], int(sys.argv[3]), int(sys.argv[4])
ids = sys.argv[5:]
props = {json.loads(l)["id"]: json.loads(l) for l in open("/verif/properties.jsonl")}
os.makedirs(out, exist_ok=True)
for pid in ids:
    p = props[pid]
    wt, sd = f"/tmp/wt{tag}_{pid}", f"/tmp/seed{tag}_{pid}"
    subprocess.run(["git", "-C", "/repo", "worktree", "add", "-q", "--detach", wt, "HEAD"], check=False)
    os.makedirs(sd, exist_ok=True)
    known = []
    for m in sorted(glob.glob(f"/verif/seeded/{pid}-m*/meta.json")):
        known.append("   - " + str(json.load(open(m)).get("summary", ""))[:300])
    ks = ", ".join(f"m{first + i}" for i in range(n))
    txt = f"""You are a careful software engineer doing *mutation seeding* for a verification study of the Python library jsonargparse (builds argparse CLIs from type hints; parses/dumps configs from command line, YAML/JSON files and environment variables).

You have your own scratch git worktree of the library at {wt} (a detached checkout; work ONLY there and in {sd}/; never touch /repo, /verif or any other directory, and do not read anything under /verif; never use `git stash` - the stash is shared by all worktrees of the repository and other agents work in theirs: save a change with `git diff > file`, undo it with `git checkout -- .`, re-apply it with `git apply file`). Python to use: /venv/bin/python (3.12, has pytest, PyYAML, etc.). ALWAYS run with the environment variable PYTHONPATH={wt} and first confirm once that `import jsonargparse; print(jsonargparse.__file__)` points into {wt} (an editable install of another copy exists in that interpreter; PYTHONPATH must win). There is no network.

The property under study:

  {pid}: {p['title']}
  Statement: {p['statement']}
  (It is meant to hold for: {p['quantifier']['text']})

Your task: produce {n} independent, different, realistic changes to the library source (files under {wt}/jsonargparse/ only; never edit the tests) each of which BREAKS this property while the library still imports and the existing test suite still passes. Think of plausible maintainer slips, refactorings or "optimisations" - small diffs (1-15 lines), not sabotage that ordinary use would expose at once. Each change must need something specific to manifest: an unusual input, a particular combination of options/types, a multi-step sequence of operations, a failure at a particular point, or two cooperating code sites that each look fine alone. Prefer changes deep in the mechanism the property relies on, and make the changes differ in location and in the kind of trigger.

These changes were already produced by others for this property; yours must be in OTHER functions or of a clearly different nature:
{chr(10).join(known) if known else '   (none)'}

Name your changes {ks}. For each change k:
 1. Start from a clean worktree (`git -C {wt} checkout -- .`), make the change, and save it as {sd}/<k>/patch.diff with `git -C {wt} diff > {sd}/<k>/patch.diff` (the patch must apply with `git apply` to a clean checkout of the same commit).
 2. Run the existing test suite with the change applied, WITHOUT -x: `cd {wt} && PYTHONPATH={wt} /venv/bin/python -m pytest -q -p no:cacheprovider --timeout=900 --continue-on-collection-errors -q 2>&1 | tail -20`. On the unchanged tree about 13 tests already fail (e.g. test_core.py::test_debug_environment_variable); run the suite once on the clean tree first and keep the list of failing test ids as the baseline. The set of failing tests WITH your change must equal the baseline set. If a test newly fails, pick another change.
 3. Write a demonstration {sd}/<k>/demo.py: a small stand-alone program (uses only the public API of jsonargparse, creates any files it needs in a temporary directory) that exits 0 and prints PASS on the unchanged tree and exits 1 printing FAIL (with a one-line reason) when the change is applied. Verify both directions yourself (`PYTHONPATH={wt} /venv/bin/python {sd}/<k>/demo.py` with and without the patch). The demo must demonstrate a violation of the property as stated (not merely a behaviour change).
 4. Write {sd}/<k>/meta.json with keys: "property" ("{pid}"), "summary" (one sentence: what was changed), "needs" (what specific input/sequence/fault is needed for it to manifest), "files" (list of edited files), "ran" (the commands you ran and their outcomes, briefly).
Finish with a clean worktree (`git -C {wt} checkout -- .`; remove any stray files you created there). Reply with a short summary of the changes (file:function, trigger, what the demo shows). If you cannot find {n}, deliver as many as you can and say so. If while exploring you notice that the UNCHANGED tree already violates the property somewhere, mention it briefly at the end (do not build on it).
"""
    open(os.path.join(out, pid + ".txt"), "w").write(txt)
    print("wrote", os.path.join(out, pid + ".txt"))
