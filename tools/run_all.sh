#!/bin/bash
# run every registered check (quick by default) and summarise: id exit seconds last-line
cd "$(dirname "$0")/.."
tier=${1:-quick}
for p in $(python3 -c "import json; print(' '.join(c['property_id'] for c in json.load(open('MANIFEST.json'))['checks']))"); do
  s=$(date +%s); out=$(./check $p --tier $tier 2>&1); rc=$?; e=$(date +%s)
  echo "$p rc=$rc $((e-s))s  $(echo "$out" | grep -c '^KNOWN-FINDING') known  $(echo "$out" | grep -c '^VIOLATION') viol | $(echo "$out" | tail -1 | cut -c1-170)"
done
