"""Run under /venv/bin/python: dump the implicit-resolver tables that decide how a plain YAML scalar is read back by
jsonargparse's loader and whether PyYAML's SafeDumper emits a str plain (unquoted).  Output: JSON on stdout."""
import json
import sys

import yaml

from jsonargparse._loaders_dumpers import get_yaml_default_loader


def table(cls):
    out = []
    for first, entries in cls.yaml_implicit_resolvers.items():
        for tag, rx in entries:
            out.append({"first": first, "tag": tag, "pattern": rx.pattern, "flags": rx.flags})
    return out


import inspect
import jsonargparse._loaders_dumpers as ld
dumper_src = inspect.getsource(ld.yaml_dump)
# the Dumper class yaml_dump really uses: observed by intercepting yaml.dump / yaml.safe_dump once
seen = {}
_orig_dump, _orig_safe = yaml.dump, yaml.safe_dump
yaml.dump = lambda data, stream=None, Dumper=yaml.Dumper, **kw: (seen.setdefault("cls", Dumper), _orig_dump(data, stream, Dumper=Dumper, **kw))[1]
yaml.safe_dump = lambda data, stream=None, **kw: (seen.setdefault("cls", yaml.SafeDumper), _orig_safe(data, stream, **kw))[1]
try:
    ld.yaml_dump({"probe": "x"})
finally:
    yaml.dump, yaml.safe_dump = _orig_dump, _orig_safe
dumper_cls = seen.get("cls")
json.dump({"loader": table(get_yaml_default_loader()), "dumper": table(dumper_cls) if dumper_cls else [], "dumper_class": getattr(dumper_cls, "__name__", None), "loader_class_bases": [c.__name__ for c in get_yaml_default_loader().__mro__][:3],
           "yaml_dump_uses_safe_dump": dumper_cls is not None and issubclass(dumper_cls, yaml.SafeDumper), "pyyaml": yaml.__version__}, sys.stdout)
