"""Run the repository's pinned baseline and compare with /root/.vp/BASELINE.json (stable_pass must all pass)."""
import json, subprocess, sys, tempfile, os, xml.etree.ElementTree as ET
base = json.load(open("/root/.vp/BASELINE.json"))
with tempfile.TemporaryDirectory() as d:
    x = os.path.join(d, "r.xml")
    cmd = base["cmd"].replace("<file>", x)
    p = subprocess.run(cmd, shell=True, capture_output=True, text=True)
    passed = set()
    for tc in ET.parse(x).getroot().iter("testcase"):
        if not any(ch.tag in ("failure", "error", "skipped") for ch in tc):
            passed.add(f"{tc.get('classname')}::{tc.get('name')}")
missing = [t for t in base["stable_pass"] if t not in passed]
print(f"stable_pass={len(base['stable_pass'])} passed_now={len(passed)} missing={len(missing)}")
for t in missing[:20]:
    print("  NOT PASSING:", t)
sys.exit(1 if missing else 0)
