"""Regenerate MANIFEST.json from the per-property spec modules in contracts/ (run with python3-vt)."""
import importlib
import json
import os
import sys

VERIF = os.path.dirname(os.path.dirname(os.path.abspath(__file__)))
sys.path.insert(0, VERIF)
import contracts
props = [json.loads(l) for l in open(os.path.join(VERIF, "properties.jsonl"))]


def under_contract(spec):
    """The complete list of functions under contract for this property (each verified on its real body against its contract, for every
    input of the scenario space its unit enumerates; see DESIGN 11.7) - appended to the hand-written claim so that the two never drift."""
    names = []
    for u in spec.UNITS:
        n = u.target.split(":", 1)[1].replace("ArgumentParser.validate.<locals>.", "validate/").replace(".<locals>.", "/")
        if "@if(" in n:
            n = n.split("@if(")[0] + "[" + (u.label or "arm") + "]"
        if n not in names:
            names.append(n)
    lem = [l.name.split("lemma:")[-1] for l in getattr(spec, "LEMMAS", [])]
    return " || Functions under contract (" + str(len(names)) + "): " + ", ".join(names) + ("; lemmas: " + ", ".join(lem) if lem else "") + "."
checks, na, engines_props = [], [], []
for p in props:
    pid = p["id"]
    try:
        spec = importlib.import_module(f"contracts.{pid.lower()}")
    except ModuleNotFoundError:
        na.append({"property_id": pid, "reason": "not built yet (see DESIGN.md section 10)"})
        continue
    if getattr(spec, "NOT_APPLICABLE", ""):
        na.append({"property_id": pid, "reason": spec.NOT_APPLICABLE})
        continue
    engines_props.append(pid)
    checks.append({
        "property_id": pid,
        "quick_cmd": f"./check {pid} --tier quick",
        "thorough_cmd": f"./check {pid} --tier thorough",
        "evidence_file": f"evidence/{pid}.json",
        "replay_cmd_template": "./check replay {path}",
        "engine": "pyvc",
        "level_claimed": {"category": spec.LEVEL, "text": spec.LEVEL_TEXT + under_contract(spec), "design_ref": f"DESIGN.md section 5 ({pid}) and section 11 (as built)"},
        "level_note": contracts.text_of(spec, "LEVEL_NOTE"),
        "technique": spec.TECHNIQUE,
    })
m = {
    "version": 1,
    "setup_cmd": "./check --setup",
    "hooks": {"guard": "JSONARGPARSE_VERIF", "enable": "no hooks: sidecar contracts (contracts/) and run-time wrapping (bounded/) need no edit of /repo", "baseline_off_cmd": "cd /repo && /venv/bin/python -m pytest -ra -q -p no:cacheprovider --timeout=900 --continue-on-collection-errors", "source_commits": [], "add_only": True},
    "engines": [{"name": "pyvc", "path": "pyvc/", "serves_properties": engines_props, "kind_free_text": "home-built deductive verifier: VC generation by symbolic execution of the real Python AST of /repo against sidecar contracts (pre/post/raises, loop invariants, ghost state, calls by contract), discharged by z3 5.1 / cvc5; counterexample replay on the real code; the same contracts checked at run time over enumerated inputs as a bounded stand-in (labelled bounded, never counted as proved)"}],
    "checks": checks,
    "notes": "See DESIGN.md. Exit codes of ./check: 0 held, 1 violation (VIOLATION line), 2 undecided with no stand-in, 3 checker crash.",
    "not_applicable": na,
}
json.dump(m, open(os.path.join(VERIF, "MANIFEST.json"), "w"), indent=1)
import jsonschema
jsonschema.validate(m, json.load(open("/root/.vp/MANIFEST.schema.json")))
print("MANIFEST.json:", len(checks), "checks;", len(na), "not applicable")
