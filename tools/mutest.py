"""Pipeline self-test: apply small semantic changes to a scratch copy of /repo (outside /repo and /verif), run a check
against it (VERIF_REPO) and report whether it fired.  usage: mutest.py <PID> <mutants.json> [--tier quick]
mutants.json: [{"name":..., "file": "jsonargparse/_util.py", "old": "...", "new": "..."}]"""
import json, os, shutil, subprocess, sys, tempfile
pid, mfile = sys.argv[1], sys.argv[2]
muts = json.load(open(mfile))
scratch = tempfile.mkdtemp(prefix="mutest_")
try:
    shutil.copytree("/repo/jsonargparse", os.path.join(scratch, "jsonargparse"))
    for m in muts:
        path = os.path.join(scratch, m["file"])
        orig = open(os.path.join("/repo", m["file"])).read()
        if m["old"] not in orig:
            print(f"== {m['name']}: pattern not found"); continue
        open(path, "w").write(orig.replace(m["old"], m["new"], 1))
        env = dict(os.environ, VERIF_REPO=scratch)
        p = subprocess.run(["/verif/check", pid] + sys.argv[3:], capture_output=True, text=True, env=env)
        lines = p.stdout.strip().splitlines()
        viol = [l for l in lines if l.startswith("VIOLATION")]
        print(f"== {m['name']}: exit={p.returncode} violations={len(viol)}  {lines[-1] if lines else ''}")
        for l in viol[:2]:
            print("     ", l[:230])
        open(path, "w").write(orig)
finally:
    shutil.rmtree(scratch, ignore_errors=True)
