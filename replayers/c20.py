"""C20 replays: rebuild the restricted type from the solver's model (base, join, restrictions, value) with the real
restricted_number_type, call it on the value, and judge by a native twin of the accept-iff spec."""
import math
import operator
import re
import struct

OPS = [">", ">=", "<", "<=", "==", "!="]
PY = {">": operator.gt, ">=": operator.ge, "<": operator.lt, "<=": operator.le, "==": operator.eq, "!=": operator.ne}


def parse_smt_value(txt, kind):
    txt = txt.strip()
    if kind == "bool":
        return txt == "true"
    if kind == "str":
        s = txt[1:-1].replace('""', '"')
        return re.sub(r"\\u\{([0-9a-fA-F]+)\}", lambda m: chr(int(m.group(1), 16)), s)
    if kind == "int":
        m = re.fullmatch(r"\(-\s*(\d+)\)", txt)
        return -int(m.group(1)) if m else int(txt)
    # float
    if "NaN" in txt:
        return float("nan")
    if "+oo" in txt:
        return float("inf")
    if "-oo" in txt:
        return float("-inf")
    if "+zero" in txt:
        return 0.0
    if "-zero" in txt:
        return -0.0
    m = re.fullmatch(r"\(fp\s+#b([01])\s+#b([01]+)\s+#(b[01]+|x[0-9a-fA-F]+)\)", txt)
    if not m:
        raise ValueError(f"cannot parse float model value {txt}")
    sign, exp, frac = m.group(1), m.group(2), m.group(3)
    frac_bits = frac[1:] if frac[0] == "b" else bin(int(frac[1:], 16))[2:].zfill(4 * (len(frac) - 1))
    bits = sign + exp + frac_bits.zfill(52)
    return struct.unpack(">d", int(bits, 2).to_bytes(8, "big"))[0]


def accept_native(kind, base, join, restr, v):
    """Twin of contracts/c20.py:accept."""
    if isinstance(v, bool):
        return False
    try:
        if base is int:
            if isinstance(v, float) and not v.is_integer():
                return False
            vv = int(v)
        else:
            vv = float(v)
    except (ValueError, OverflowError, TypeError):
        return False
    checks = [PY[o](vv, r) for o, r in restr]
    return all(checks) if join == "and" else any(checks)


def replay_number(rec):
    from jsonargparse.typing import restricted_number_type
    m = re.search(r"\[(int|float),(and|or),(bool|int|float|str)\]", rec["obligation"])
    base_n, join, kind = m.groups()
    base = int if base_n == "int" else float
    model = rec["solver"]["model"]
    n = max(0, min(2, int(parse_smt_value(model["n_restrictions"], "int"))))
    restr = []
    for i in range(n):
        op = int(parse_smt_value(model[f"op{i}"], "int"))
        ref = parse_smt_value(model[f"ref{i}"], base_n)
        if isinstance(ref, float) and (math.isnan(ref) or math.isinf(ref)):
            return {"reproduced": False, "note": "model uses a NaN/inf reference value, which restricted_number_type's argument check may refuse"}
        restr.append((OPS[op] if 0 <= op <= 5 else "!=", ref))
    v = parse_smt_value(model["v"], kind)
    if kind == "str":
        return {"reproduced": False, "note": "string inputs: int(str)/float(str) are uninterpreted in the model; no concrete string is implied"}
    note = ""
    if not restr:
        restr = [(">", base(-12345))]
        note = "model has an empty restriction list (not constructible through the public API): replayed with the restriction > -12345; the verdict is judged by the native twin on what was actually run"
    try:
        T = restricted_number_type(None, base, restr, join)
    except ValueError as ex:
        return {"reproduced": False, "note": f"restricted_number_type refused the model's restrictions: {ex}"}
    want = accept_native(kind, base, join, restr, v)
    try:
        r = T(v)
        got = ("accepted", repr(r))
    except ValueError as ex:
        got = ("ValueError", str(ex)[:120])
    except BaseException as ex:  # noqa
        got = (type(ex).__name__, str(ex)[:120])
    bad = (got[0] == "accepted") != want or got[0] not in ("accepted", "ValueError")
    vtxt = repr(v) if len(repr(v)) < 60 else repr(v)[:20] + f"...({len(repr(v))} digits)"
    return {"reproduced": bad, "signature": f"{got[0]}:{base_n}:{join}:{kind}", "type": T.__name__, "value": vtxt, "got": got, "spec_accepts": want, "restrictions": restr, "join": join, "note": note}


def replay_secret(rec):
    from jsonargparse.typing import SecretStr
    bad = [v for v in ("", "a", "ab", "abc", "hunter2", "**********", "x" * 50) if str(SecretStr(v)) != "**********"]
    return {"reproduced": bool(bad), "signature": "SecretStr.__str__:not-the-mask", "values_whose_str_is_not_the_mask": bad}


def replay_pattern(rec):
    """Lemma counter-model: a string on which the shipped type and the stated characterisation disagree."""
    from jsonargparse.typing import Email, NotEmptyStr
    s = parse_smt_value(rec["solver"]["model"]["s"], "str")
    which = "Email" if "Email" in rec["obligation"] else "NotEmptyStr"
    T = Email if which == "Email" else NotEmptyStr
    try:
        T(s)
        got = True
    except ValueError:
        got = False
    if which == "Email":
        at = s.find("@")
        want = s.count("@") == 1 and " " not in s and at >= 1 and "." in s[at + 2:-1]
    else:
        want = any(c != " " for c in s) if "\n" not in s else got
    return {"reproduced": got != want, "signature": f"{which}:accepted={got}", "string": s, "accepted": got, "characterisation_accepts": want}
