"""C17 replay: rebuild the scenario of the refuted path (read from the recorded decisions) with real parsers and call the
real get_subcommands; the verdict is judged by the statement's selection rule."""
import re


def replay_get_subcommands(rec):
    from jsonargparse import ArgumentParser, Namespace
    from jsonargparse._actions import _ActionSubCommands, single_subcommand
    dec = dict(x.split("=") for x in rec.get("decisions") or [] if "=" in x)
    names = ["fit", "test", "predict"][: 1 + int(dec.get("n-declared", 0))]
    prefix = ["", "outer."][int(dec.get("prefix", 0))]
    required = dec.get("required") == "1"
    fail = dec.get("fail_no_subcommand") == "1"
    single = dec.get("single_subcommand") == "1"
    parser = ArgumentParser(exit_on_error=False)
    sub = parser.add_subcommands(required=required)
    for nm in names:
        sp = ArgumentParser(exit_on_error=False)
        sp.add_argument("--v", type=int, default=1)
        sub.add_subcommand(nm, sp)
    cfg = Namespace()
    which = int(dec.get("dest-value", 0))
    if which == 1:
        cfg[prefix + "subcommand"] = None
    elif which >= 2:
        cfg[prefix + "subcommand"] = (names + ["undeclared"])[which - 2]
    with_settings = []
    for nm in names:
        kind = int(dec.get(f"section[{nm}]", 0))
        if kind == 1:
            cfg[prefix + nm] = Namespace(v=5)
            with_settings.append(nm)
        elif kind == 2:
            cfg[prefix + nm] = 7
    explicit = cfg.get(prefix + "subcommand")
    chosen = explicit if explicit is not None else (with_settings[0] if with_settings and (fail or single) else None)
    tok = single_subcommand.set(single)
    try:
        try:
            out = _ActionSubCommands.get_subcommands(parser, cfg, prefix=prefix, fail_no_subcommand=fail)
            got = ("ok", out[0])
        except Exception as ex:  # noqa
            got = (type(ex).__name__, str(ex)[:100])
    finally:
        single_subcommand.reset(tok)
    remaining = [nm for nm in names if nm != chosen and isinstance(cfg.get(prefix + nm), Namespace)]
    bad = False
    why = ""
    if got[0] == "ok" and chosen in names:
        if remaining:
            bad, why = True, f"sections of non-chosen subcommands remain: {remaining}"
        elif got[1] != [chosen]:
            bad, why = True, f"returned {got[1]} instead of [{chosen!r}]"
    return {"reproduced": bad, "signature": "other-section-remains" if remaining else ("wrong-name" if bad else ""), "chosen": chosen, "got": got, "why": why,
            "scenario": {"declared": names, "prefix": prefix, "required": required, "fail_no_subcommand": fail, "single": single, "cfg_keys_after": sorted(cfg.keys())}}
