"""C07 replay: an inner parser with a required argument attached under a key that contains a dash."""


def replay_dashed_prefix(rec):
    from jsonargparse import ActionParser, ArgumentParser
    from replayers.c20 import parse_smt_value
    prefix = parse_smt_value(rec["solver"]["model"].get("prefix", '"my-g"'), "str")
    if not prefix.replace("-", "").replace("_", "").isalnum() or prefix.startswith("-"):
        prefix = "my-g"
    inner = ArgumentParser(exit_on_error=False)
    inner.add_argument("--r", type=int, required=True)
    p = ArgumentParser(exit_on_error=False)
    p.add_argument("--" + prefix, action=ActionParser(parser=inner))
    try:
        cfg = p.parse_args([f"--{prefix}.r=1"])
        got = ("ok", str(cfg))
    except Exception as ex:  # noqa
        got = (type(ex).__name__, str(ex)[:160])
    bad = got[0] != "ok"
    return {"reproduced": bad, "signature": "required-key-built-from-raw-prefix" if bad else "", "prefix": prefix, "argv": [f"--{prefix}.r=1"], "got": got}
