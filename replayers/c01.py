"""C01 replays: the lemma's witness string is dumped and re-parsed by a real parser."""


def _s(rec):
    from replayers.c20 import parse_smt_value
    return parse_smt_value(rec["solver"]["model"].get("s", rec["solver"]["model"].get("stripped", '""')), "str")


def replay_scalar(rec):
    from jsonargparse import ArgumentParser
    s = _s(rec)
    p = ArgumentParser(exit_on_error=False)
    p.add_argument("--k", type=str)
    cfg = p.parse_object({"k": s})
    text = p.dump(cfg)
    try:
        back = p.parse_string(text)
        got = ("ok", repr(back.k))
        bad = not (isinstance(back.k, str) and back.k == s)
    except BaseException as ex:  # noqa
        got = (type(ex).__name__, str(ex)[:150])
        bad = True
    region = "loader-float-resolver-vs-dumper" if bad else ""
    return {"reproduced": bad, "signature": region, "string": s, "dump": text, "reparsed": got}


def replay_load_basic(rec):
    from jsonargparse._loaders_dumpers import load_basic, not_loaded
    s = _s(rec)
    r = load_basic(s)
    t = s.strip()
    import re
    if r is True or r is False or r is None:
        bad = t != {True: "true", False: "false", None: "null"}[r]
    elif isinstance(r, int):
        bad = not re.fullmatch(r"-?[0-9]+", t) or r != int(t)
    elif isinstance(r, float):
        bad = not re.fullmatch(r"[0-9.e-]*", t) or r != float(t)
    else:
        bad = t in ("true", "false", "null") or bool(re.fullmatch(r"-?[0-9]+", t))
    return {"reproduced": bad, "signature": f"load_basic:{type(r).__name__}", "text": s, "result": repr(r)}


def replay_json_scalar(rec):
    """Lemma witness: a JSON scalar text that yaml mode does not read as json mode does."""
    import json
    from jsonargparse._loaders_dumpers import yaml_load
    s = _s(rec)
    try:
        want = json.loads(s)
    except Exception:
        return {"reproduced": False, "note": "witness is not valid JSON", "text": s}
    got = yaml_load(s)
    bad = type(got) is not type(want) or got != want
    return {"reproduced": bad, "signature": "json-scalar-read-differently-in-yaml-mode" if bad else "", "text": s, "json": repr(want), "yaml_mode": repr(got)}


def replay_python_number(rec):
    """Lemma witness: a text that Python prints for a number and that the loader does not read back as that number."""
    import ast
    from jsonargparse._loaders_dumpers import yaml_load
    s = _s(rec)
    try:
        want = ast.literal_eval(s)
    except Exception:
        return {"reproduced": False, "note": "witness is not a Python number literal", "text": s}
    got = yaml_load(s)
    bad = type(got) is not type(want) or got != want
    return {"reproduced": bad, "signature": "python-number-text-not-read-as-that-number" if bad else "", "text": s, "python": repr(want), "loader": repr(got)}
