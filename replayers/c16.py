"""C16: counter-models of the graph VCs live in the abstract recursion state (visited/exploring/order/rank), so a
concrete failing input is searched with the exhaustive small-graph twin on the real DirectedGraph."""
from replayers.run import rerun_bounded


def replay_graph(rec):
    res = rerun_bounded("bounded/b16_graph.py", None)
    res["how"] = "concrete input searched by the exhaustive small-graph twin (bounded/b16_graph.py) on the real class"
    return res
