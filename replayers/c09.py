"""C09 replay: a --print_config request whose dump fails stays pending and changes what the next parse does."""


def replay_pending_print_config(rec):
    from jsonargparse import ArgumentParser
    from bounded.common import outcome
    mk = lambda: (lambda p: (p.add_argument("--items", type=list, default=[]), p)[1])(ArgumentParser(exit_on_error=False))  # noqa: E731
    fresh = outcome(mk().parse_args, ["--items=[1]"])
    p = mk()
    first = outcome(p.parse_args, ["--print_config", "--nope"])  # fails after the request was recorded
    after = outcome(p.parse_args, ["--items=[1]"])
    bad = fresh[0] != after[0]
    return {"reproduced": bad, "signature": "pending-print_config-survives-a-failing-parse" if bad else "", "fresh_parser": fresh[:2], "first_call": first[:2], "same_call_after_failing_request": after[:2]}


def replay_dataclass_history(rec):
    from dataclasses import dataclass
    from typing import Optional
    from jsonargparse import ArgumentParser

    @dataclass
    class D:
        a: int = 1
        b: int = 2

    class M:
        def __init__(self, d: Optional[D] = None):
            self.d = d

    def mk():
        p = ArgumentParser(exit_on_error=False)
        p.add_class_arguments(M, "m")
        return p

    p = mk()
    p.parse_args(["--m.d.a=5"])
    after = p.parse_args(['--m.d={"b": 3}']).m.d
    fresh = mk().parse_args(['--m.d={"b": 3}']).m.d
    bad = after != fresh
    return {"reproduced": bad, "signature": "dataclass-prev-value-remembered-in-the-action" if bad else "", "history": ["parse_args(['--m.d.a=5'])", "parse_args(['--m.d={\"b\": 3}'])"], "same_parser": str(after), "fresh_parser": str(fresh)}
