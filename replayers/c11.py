"""C11 replay of the clash-mark lemmas on the real helpers."""


def replay_clash(rec):
    from jsonargparse._namespace import add_clash_mark, clash_names, del_clash_mark
    from replayers.c20 import parse_smt_value
    key = parse_smt_value(rec["solver"]["model"].get("key", '""'), "str")
    keys = [key] + sorted(clash_names)[:40] + ["a", "items", "keys", "x" + "​"]
    bad = []
    for k in keys:
        if not k or k.startswith("​"):
            continue
        a = add_clash_mark(k)
        if del_clash_mark(a) != k or a in clash_names or (a != k) != (k in clash_names):
            bad.append(k)
    return {"reproduced": bool(bad), "signature": "clash-mark-pair-not-inverse", "failing_keys": bad[:5]}
