"""C02 replay: the Union counter-model (member order, which members accept) is instantiated with real type hints."""
from typing import Union


def replay_union(rec):
    from jsonargparse import ArgumentParser
    results = {}
    for name, hint in (("Union[str,int]", Union[str, int]), ("Union[int,str]", Union[int, str])):
        p = ArgumentParser(exit_on_error=False)
        p.add_argument("--k", type=hint)
        try:
            results[name] = ("ok", repr(p.parse_args(["--k=null"]).k))
        except Exception as ex:  # noqa
            results[name] = (type(ex).__name__, str(ex)[:120])
    bad = results["Union[str,int]"][0] != results["Union[int,str]"][0] or any("Error(" in r[1] for r in results.values() if r[0] == "ok")
    return {"reproduced": bad, "signature": "union-order-dependent-acceptance" if bad else "", "input": "--k=null", "results": results}
