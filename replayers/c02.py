"""C02 replay: the Union counter-model (member order, which members accept) is instantiated with real type hints."""
from typing import Union


def replay_union(rec):
    from jsonargparse import ArgumentParser
    results = {}
    for name, hint in (("Union[str,int]", Union[str, int]), ("Union[int,str]", Union[int, str])):
        p = ArgumentParser(exit_on_error=False)
        p.add_argument("--k", type=hint)
        try:
            results[name] = ("ok", repr(p.parse_args(["--k=null"]).k))
        except Exception as ex:  # noqa
            results[name] = (type(ex).__name__, str(ex)[:120])
    bad = results["Union[str,int]"][0] != results["Union[int,str]"][0] or any("Error(" in r[1] for r in results.values() if r[0] == "ok")
    return {"reproduced": bad, "signature": "union-order-dependent-acceptance" if bad else "", "input": "--k=null", "results": results}


def _parser(hint):
    from jsonargparse import ArgumentParser
    p = ArgumentParser(exit_on_error=False)
    p.add_argument("--k", type=hint)
    return p


def replay_dict_key(rec):
    from typing import Dict
    try:
        out = _parser(Dict[str, int]).parse_object({"k": {7: 0}}).k
        bad = any(not isinstance(key, str) for key in out)
        got = ("ok", repr(out))
    except Exception as ex:  # noqa
        bad, got = False, (type(ex).__name__, str(ex)[:120])
    return {"reproduced": bad, "signature": "dict-str-key-unchecked" if bad else "", "input": "{'k': {7: 0}} for Dict[str,int]", "got": got}


def replay_literal(rec):
    from typing import Literal
    res = {}
    bad = False
    for v in (True, 1.0):
        try:
            out = _parser(Literal[1, 2, "a"]).parse_object({"k": v}).k
            res[repr(v)] = ("ok", repr(out))
            bad = bad or type(out) is not int
        except Exception as ex:  # noqa
            res[repr(v)] = (type(ex).__name__, str(ex)[:100])
    return {"reproduced": bad, "signature": "literal-membership-by-equality" if bad else "", "results": res}
