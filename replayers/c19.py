"""C19 replays: turn the solver's counter-model (mode multiset + file-system predicates of the path) into a real
fixture (temp tree: missing / file / directory / fifo, chmod bits, run under an unprivileged uid so that os.access
answers as the model says) and run the real Path on it; the verdict is judged by a native twin of the spec."""
import json
import os
import stat
import subprocess
import sys
import tempfile

ALPHA = "fdrwxcusFDRWX"


def _mode_from_model(model):
    return "".join(c * int(model.get(f"count[{c}]", "0")) for c in ALPHA)


def valid_mode_native(mode):
    if not isinstance(mode, str) or set(mode) - set(ALPHA):
        return False
    if any(mode.count(c) > (2 if c == "c" else 1) for c in set(mode)):
        return False
    return not (("f" in mode and "d" in mode) or ("u" in mode and "d" in mode) or ("s" in mode and "d" in mode))


def mode_ok_native(mode, a):
    """Twin of contracts/c19.py:mode_ok over the real file system."""
    ex = os.access(a, os.F_OK)
    isdir, isfile = os.path.isdir(a), os.path.isfile(a)
    fifo = ex and stat.S_ISFIFO(os.stat(a).st_mode)
    file_like = isfile or fifo

    def up(p):
        return os.path.realpath(os.path.join(p, ".."))

    ok = True
    if "c" in mode:
        pd = up(a)
        if not os.path.isdir(pd) and mode.count("c") == 2:
            while not os.path.isdir(pd) and up(pd) != pd:
                pd = up(pd)
        ok = ok and os.path.isdir(pd) and os.access(pd, os.W_OK)
        if "d" in mode:
            ok = ok and not (ex and not isdir)
        if "f" in mode:
            ok = ok and not (ex and not isfile)
    elif "d" in mode or "f" in mode:
        ok = ok and ex and ("d" not in mode or isdir) and ("f" not in mode or file_like)
    r, w, x = os.access(a, os.R_OK), os.access(a, os.W_OK), os.access(a, os.X_OK)
    ok = ok and ("r" not in mode or r) and ("w" not in mode or w) and ("x" not in mode or x)
    ok = ok and ("D" not in mode or not isdir) and ("F" not in mode or not file_like)
    ok = ok and ("R" not in mode or not r) and ("W" not in mode or not w) and ("X" not in mode or not x)
    return ok


CHILD = r'''
import json, os, sys, stat
spec = json.loads(sys.argv[1])
sys.path.insert(0, spec["verif"])
from replayers.c19 import mode_ok_native, valid_mode_native
from jsonargparse import Path
from jsonargparse._util import PathError
try:  # everything is imported: now drop privileges so that os.access answers for an ordinary user
    os.setgid(65534); os.setuid(65534)
except Exception as ex:
    pass
uid = os.getuid()
os.chdir(spec["cwd"])
mode, p = spec["mode"], spec["path"]
want_valid = valid_mode_native(mode)
want = want_valid and (p == "-" or mode_ok_native(mode, os.path.join(spec["cwd"], os.path.expanduser(p)) if not os.path.isabs(os.path.expanduser(p)) else os.path.expanduser(p)))
try:
    obj = Path(p, mode=mode)
    got = ("accepted", obj.relative, obj.absolute)
except PathError as ex:
    got = ("PathError", str(ex)[:200])
except ValueError as ex:
    got = ("ValueError", str(ex)[:200])
except BaseException as ex:
    got = (type(ex).__name__, str(ex)[:200])
if got[0] == "accepted":
    bad = not want
elif got[0] == "PathError":
    bad = want or not want_valid
elif got[0] == "ValueError":
    bad = want_valid
else:
    bad = True
print(json.dumps({"reproduced": bad, "signature": f"{got[0]}:mode={mode}", "got": got, "spec_accepts": want, "uid": uid, "mode": mode, "path": p}))
'''


def _run_child(mode, path, cwd):
    spec = {"mode": mode, "path": path, "cwd": cwd, "verif": os.path.dirname(os.path.dirname(os.path.abspath(__file__)))}
    p = subprocess.run([sys.executable, "-c", CHILD, json.dumps(spec)], capture_output=True, text=True, timeout=60)
    try:
        return json.loads(p.stdout.strip().splitlines()[-1])
    except Exception:
        return {"reproduced": False, "error": (p.stdout + p.stderr)[-800:]}


def replay_path_init(rec):
    model = rec["solver"]["model"]
    mode = _mode_from_model(model)
    tf = lambda k: model.get(k) == "true"  # noqa: E731
    with tempfile.TemporaryDirectory(prefix="c19replay") as tmp:
        os.chmod(tmp, 0o755)
        base = os.path.join(tmp, "base")
        os.mkdir(base)
        # parent: existing directory or missing
        parent = base if tf("parent_isdir") else os.path.join(base, "nodir")
        target = os.path.join(parent, "target")
        note = ""
        if tf("exists"):
            os.makedirs(parent, exist_ok=True)
            if tf("isdir"):
                os.mkdir(target)
            elif tf("isfile"):
                open(target, "w").close()
            elif tf("isfifo"):
                os.mkfifo(target)
            else:
                import socket
                sk = socket.socket(socket.AF_UNIX)
                sk.bind(target)  # exists, but neither file, directory nor fifo
                sk.close()
                note = "existing path that is neither file, directory nor fifo: a unix socket"
            if os.path.lexists(target):
                bits = (0o444 if tf("R") else 0) | (0o222 if tf("W") else 0) | (0o111 if tf("X") else 0)
                os.chmod(target, bits)
        if os.path.isdir(parent):
            os.chmod(parent, 0o777 if tf("parent_W") else 0o555)
        os.chmod(base, 0o777 if (tf("parent_W") or not tf("parent_isdir")) else 0o555)
        out = _run_child(mode, "target" if parent == base else os.path.join("nodir", "target"), base)
        out["fixture"] = {"mode": mode, "exists": tf("exists"), "kind": "dir" if tf("isdir") else "file" if tf("isfile") else "fifo" if tf("isfifo") else "socket" if tf("exists") else "missing", "note": note}
        # restore permissions so the temp dir can be removed
        for root, dirs, files in os.walk(tmp):
            for d in dirs:
                os.chmod(os.path.join(root, d), 0o777)
        return out


def replay_check_mode(rec):
    model = rec["solver"]["model"]
    mode = _mode_from_model(model)
    from jsonargparse import Path
    try:
        Path._check_mode(mode)
        got = "accepted"
    except ValueError:
        got = "ValueError"
    except BaseException as ex:  # noqa
        got = type(ex).__name__
    want = valid_mode_native(mode)
    bad = (got == "accepted") != want or got not in ("accepted", "ValueError")
    return {"reproduced": bad, "signature": f"{got}:mode={mode}", "mode": mode, "spec_valid": want, "note": "characters outside the flag alphabet are not part of the model's watched terms"}
