"""Replay a recorded counterexample / contract violation against the real code in /repo (runs under /venv/bin/python).

usage: python -m replayers.run <replay-file.json>   -> last stdout line is a JSON object {"reproduced": bool, ...}
"""
import importlib
import json
import os
import subprocess
import sys
import tempfile

VERIF = os.path.dirname(os.path.dirname(os.path.abspath(__file__)))


def rerun_bounded(script, key):
    """Re-run a bounded harness and report whether the recorded case still violates its contract."""
    with tempfile.NamedTemporaryFile(suffix=".json", delete=False) as f:
        out = f.name
    try:
        subprocess.run([sys.executable, os.path.join(VERIF, script), "--out", out], capture_output=True, text=True, timeout=3600, cwd=VERIF)
        data = json.load(open(out))
    finally:
        if os.path.exists(out):
            os.remove(out)
    hits = [v for v in data.get("violations", []) if key is None or v["key"] == key]
    return {"reproduced": bool(hits), "signature": hits[0]["key"] if hits else "", "detail": hits[:3]}


def main():
    rec = json.load(open(sys.argv[1]))
    if rec.get("kind") == "bounded-contract-violation":
        res = rerun_bounded(rec["harness"], rec["key"])
    else:
        mod, fn = rec["replayer"].split(":")
        res = getattr(importlib.import_module(mod), fn)(rec)
    print(json.dumps(res, default=str))


if __name__ == "__main__":
    main()
