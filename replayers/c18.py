"""C18 replays: the protocol counter-models (an exception between open(p,'w') and the write) are made concrete by the
fault-enumeration twin bounded/b18_save.py, which injects the failure on real parsers and compares directory snapshots."""
import json
import os
import subprocess
import sys
import tempfile

VERIF = os.path.dirname(os.path.dirname(os.path.abspath(__file__)))


def replay_save(rec):
    which = "single" if "[single]" in rec["obligation"] or "open#1" in rec["obligation"] and "multifile=0" in (rec.get("decisions") or []) else "multi"
    with tempfile.NamedTemporaryFile(suffix=".json", delete=False) as f:
        out = f.name
    try:
        subprocess.run([sys.executable, os.path.join(VERIF, "bounded/b18_save.py"), "--out", out], capture_output=True, text=True, timeout=1800, cwd=VERIF)
        data = json.load(open(out))
    finally:
        if os.path.exists(out):
            os.remove(out)
    hits = [v for v in data.get("violations", []) if f":{which}:" in v["key"] and "all-or-nothing" in v["key"]]
    return {"reproduced": bool(hits), "signature": f"all-or-nothing:{which}", "how": "fault enumeration on real parsers (bounded/b18_save.py)", "detail": hits[:3]}
