"""pyvc - verification-condition generator for a subset of Python.

The functions under contract are read from /repo's *current* source with `ast`
on every run; contracts are sidecar files in /verif/contracts.  See DESIGN.md 2.
"""
import os

REPO = os.environ.get("VERIF_REPO", "/repo")
VERIF = os.path.dirname(os.path.dirname(os.path.abspath(__file__)))
VENV_PY = os.environ.get("VERIF_VENV_PY", "/venv/bin/python")
