"""Python `re` pattern -> z3 RegLan, from re._parser's parse tree (literals, classes, ranges, categories \\d \\s \\w (ASCII),
branches, greedy/lazy repeats, groups, ^ $ anchors at the ends, re.X, re.I on ASCII letters).  Anything else raises
RegexUnsupported and the obligation that needs it is undecided.  `match` semantics: anchored at the start only unless the
pattern ends with $ (which, as in Python, also matches just before one trailing newline)."""
import re
import re._constants as sc
import re._parser as sp

import z3

STR = z3.StringSort()
ANYCHAR = z3.AllChar(z3.ReSort(STR))


class RegexUnsupported(Exception):
    pass


def _lit(code, flags):
    ch = chr(code)
    if flags & re.I and ch.isascii() and ch.isalpha():
        return z3.Union(z3.Re(ch.lower()), z3.Re(ch.upper()))
    return z3.Re(ch)


def _category(av):
    digit = z3.Range("0", "9")
    space = z3.Union(*[z3.Re(c) for c in " \t\n\r\f\v"])
    word = z3.Union(z3.Range("a", "z"), z3.Range("A", "Z"), digit, z3.Re("_"))
    table = {
        sc.CATEGORY_DIGIT: digit, sc.CATEGORY_SPACE: space, sc.CATEGORY_WORD: word,
        sc.CATEGORY_NOT_DIGIT: z3.Intersect(ANYCHAR, z3.Complement(digit)),
        sc.CATEGORY_NOT_SPACE: z3.Intersect(ANYCHAR, z3.Complement(space)),
        sc.CATEGORY_NOT_WORD: z3.Intersect(ANYCHAR, z3.Complement(word)),
    }
    if av not in table:
        raise RegexUnsupported(f"category {av}")
    return table[av]


def _cls(items, flags):
    neg = False
    parts = []
    for op, av in items:
        if op is sc.NEGATE:
            neg = True
        elif op is sc.LITERAL:
            parts.append(_lit(av, flags))
        elif op is sc.RANGE:
            parts.append(z3.Range(chr(av[0]), chr(av[1])))
        elif op is sc.CATEGORY:
            parts.append(_category(av))
        else:
            raise RegexUnsupported(f"class item {op}")
    r = z3.Union(*parts) if len(parts) > 1 else parts[0]
    if neg:
        r = z3.Intersect(ANYCHAR, z3.Complement(r))
    return r


def _seq(p, flags, state):
    out = []
    items = list(p)
    for idx, (op, av) in enumerate(items):
        if op is sc.AT:
            if av in (sc.AT_BEGINNING, sc.AT_BEGINNING_STRING) and idx == 0 and state["depth"] == 0:
                state["anchored_start"] = True
                continue
            if av in (sc.AT_END, sc.AT_END_STRING) and idx == len(items) - 1 and state["depth"] == 0:
                state["anchored_end"] = "$" if av is sc.AT_END else "Z"
                continue
            raise RegexUnsupported(f"anchor {av} inside the pattern")
        out.append(_one(op, av, flags, state))
    if not out:
        return z3.Re("")
    return z3.Concat(*out) if len(out) > 1 else out[0]


def _one(op, av, flags, state):
    if op is sc.LITERAL:
        return _lit(av, flags)
    if op is sc.NOT_LITERAL:
        return z3.Intersect(ANYCHAR, z3.Complement(_lit(av, flags)))
    if op is sc.IN:
        return _cls(av, flags)
    if op is sc.ANY:
        if flags & re.S:
            return ANYCHAR
        return z3.Intersect(ANYCHAR, z3.Complement(z3.Re("\n")))
    if op is sc.BRANCH:
        state["depth"] += 1
        try:
            return z3.Union(*[_seq(b, flags, state) for b in av[1]])
        finally:
            state["depth"] -= 1
    if op is sc.SUBPATTERN:
        state["depth"] += 1
        try:
            return _seq(av[3], flags, state)
        finally:
            state["depth"] -= 1
    if op in (sc.MAX_REPEAT, sc.MIN_REPEAT):
        lo, hi, sub = av
        state["depth"] += 1
        try:
            r = _seq(sub, flags, state)
        finally:
            state["depth"] -= 1
        if hi is sc.MAXREPEAT:
            if lo == 0:
                return z3.Star(r)
            if lo == 1:
                return z3.Plus(r)
            return z3.Concat(z3.Loop(r, lo, lo), z3.Star(r))
        if lo == 0 and hi == 1:
            return z3.Option(r)
        return z3.Loop(r, lo, hi)
    raise RegexUnsupported(f"regex construct {op}")


def to_reglan(pattern: str, flags: int = 0):
    """Returns (language of the pattern proper, anchored_start, anchored_end)."""
    state = {"depth": 0, "anchored_start": False, "anchored_end": False}
    r = _seq(sp.parse(pattern, flags), flags, state)
    return r, state["anchored_start"], state["anchored_end"]


def match_lang(pattern: str, flags: int = 0):
    """Language of strings s with re.match(pattern, s): anchored at the start; free tail unless the pattern ends with $."""
    r, _, end = to_reglan(pattern, flags)
    if end == "$":  # `$` matches at the very end or just before one trailing newline
        return z3.Concat(r, z3.Option(z3.Re("\n")))
    return r if end else z3.Concat(r, z3.Star(ANYCHAR))


def fullmatch_lang(pattern: str, flags: int = 0):
    r, _, end = to_reglan(pattern, flags)
    return z3.Concat(r, z3.Option(z3.Re("\n"))) if end == "$" else r
