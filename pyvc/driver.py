"""./check driver: generate VCs from /repo's current source, discharge, replay counterexamples, run the bounded
stand-ins, write evidence/<id>.json, print VIOLATION / KNOWN-FINDING lines.

exit 0 held on everything explored | 1 violation | 2 undecided and no bounded stand-in could run | 3 checker crash
"""
from __future__ import annotations

import argparse
import importlib
import json
import os
import re
import subprocess
import sys
import time
import traceback

from . import REPO, VENV_PY, VERIF


import contracts as _contracts  # noqa: E402  (VERIF is on sys.path via `python -m pyvc.driver` run from /verif)


def _load_spec(pid: str):
    return importlib.import_module(f"contracts.{pid.lower()}")


def _known_findings():
    p = os.path.join(VERIF, "known_findings.json")
    if not os.path.exists(p):
        return {"findings": [], "fixed": []}
    return json.load(open(p))


def cmd_setup():
    ok = True
    try:
        import z3  # noqa
        import cvc5  # noqa
        print("python3-vt: z3", z3.get_version_string())
    except Exception as ex:  # pragma: no cover
        print("setup: z3/cvc5 python modules missing:", ex)
        ok = False
    for cmd in (["z3-new", "--version"], ["/usr/bin/cvc5", "--version"], [VENV_PY, "-c", "import jsonargparse, yaml; print('jsonargparse from', jsonargparse.__file__)"]):
        try:
            out = subprocess.run(cmd, capture_output=True, text=True, timeout=60)
            print(" ".join(cmd[:2]), "->", (out.stdout or out.stderr).strip().splitlines()[0])
            ok = ok and out.returncode == 0
        except Exception as ex:
            print("setup: cannot run", cmd, ex)
            ok = False
    os.makedirs(os.path.join(VERIF, "evidence"), exist_ok=True)
    os.makedirs(os.path.join(VERIF, "replays"), exist_ok=True)
    return 0 if ok else 3


class Ob:
    """Obligation as plain data (name, kind, path, smt2, watch, meta)."""

    def __init__(self, d):
        self.name, self.kind, self.path, self.smt2, self.watch, self.meta = d["name"], d["kind"], d.get("path", 0), d["smt2"], d.get("watch", {}), d.get("meta", {})
        self.smt2_relaxed = d.get("smt2_relaxed", "")


_TIER = {"tier": "quick"}


def _finding_for(kf_prop, kind, text, sig=""):
    """The known finding (if any) whose matcher of this kind covers `text` (an obligation group or a violation key).
    A matcher may be limited to a tier ("tiers": ["thorough"]): the thorough tier explores seed-dependent random cases
    whose keys cannot be listed one by one; such a wider matcher never applies to the quick tier."""
    for f in kf_prop:
        ms = f.get("match", [])
        for m in ms if isinstance(ms, list) else [ms]:
            if m.get("kind") != kind:
                continue
            if m.get("tiers") and _TIER["tier"] not in m["tiers"]:
                continue
            if kind == "vc" and re.fullmatch(m["obligation_regex"], text) and (not m.get("signature_regex") or re.fullmatch(m["signature_regex"], sig or "")):
                return f
            if kind == "bounded" and re.fullmatch(m["key_regex"], text):
                return f
    return None


def _group_reports(ob_reports):
    """One line per obligation (the same obligation arises on many paths): counts per verdict, back ends, solver time."""
    groups = {}
    for r in ob_reports:
        g = groups.setdefault(re.sub(r"/(s\d+)?p\d+$", "", r["obligation"]), {"paths": 0, "discharged": 0, "refuted": 0, "undecided": 0, "backends": set(), "solver_s": 0.0, "kind": r["kind"]})
        g["paths"] += 1
        g[r["verdict"]] += 1
        g["backends"].add(r["backend"].split(" ")[0])
        g["solver_s"] += r["solver_s"]
    if len(groups) > 1200:
        # one obligation per *scenario* of a complete case analysis would make the evidence file huge: merge the scenarios of one
        # clause into one line ("[*]", with the number of scenarios); every single result is still counted
        merged = {}
        for k, v in groups.items():
            m = re.match(r"^(.*?/[a-z]+\.[^\[]*)\[.*$", k)
            k2 = (m.group(1) + "[*]") if m else k
            g = merged.setdefault(k2, {"paths": 0, "discharged": 0, "refuted": 0, "undecided": 0, "backends": set(), "solver_s": 0.0, "kind": v["kind"], "scenarios": 0})
            for f in ("paths", "discharged", "refuted", "undecided", "solver_s"):
                g[f] += v[f]
            g["backends"] |= v["backends"]
            g["scenarios"] += 1
        groups = merged
    return [{"obligation": k, **{kk: (sorted(vv) if isinstance(vv, set) else round(vv, 3) if isinstance(vv, float) else vv) for kk, vv in v.items()}} for k, v in groups.items()]


def _safe(name: str) -> str:
    return re.sub(r"[^A-Za-z0-9_.\-\[\]]+", "_", name)[:180]


def run_property(pid: str, tier: str, seed: int) -> int:
    from . import solve, units

    t0 = time.time()
    _TIER["tier"] = tier
    spec = _load_spec(pid)
    kf = _known_findings()
    kf_prop = [f for f in kf.get("findings", []) if f.get("property") == pid]
    timeout_s = float(os.environ.get("VERIF_SOLVER_TIMEOUT", 20 if tier == "quick" else 120))

    violations = []  # dicts: {what, replay, suffix}
    known_hit = {}
    unit_reports = []
    ob_reports = []
    undecided = []
    trusted = set(getattr(spec, "TRUSTED", []))
    warnings = []
    n_obl = n_dis = 0
    solver_s = 0.0

    # ---------------- proof tier: units (VC generation in worker processes; obligations come back as SMT-LIB text)
    all_obs = []
    unit_list = list(getattr(spec, "UNITS", []))
    for unit, res in zip(unit_list, units.run_units_parallel(spec.__name__, unit_list)):
        if not res["found"]:
            undecided.append({"unit": unit.name, "why": res["error"]})
            unit_reports.append({"unit": unit.name, "found": False})
            continue
        trusted.update(unit.trusted)
        trusted.update(f"assumed contract of `{c}` (used by {unit.target.split(':')[1]})" for c in res["calls_used"] if c not in getattr(spec, "VERIFIED_CALLEES", ()))
        undecided.extend(res["undecided"])
        for cov in unit.expect_cover:
            if not any(k == cov or k.startswith(cov) for k in res["covers"]):
                warnings.append(f"vacuity: unit {unit.name} never reaches `{cov}` (reached: {sorted(res['covers'])})")
        unit_reports.append({
            "unit": unit.name, "function": unit.target, "file": res["file"], "lines": res["lines"], "source_sha256_16": res["src_hash"],
            "paths": res["paths"], "covers": res["covers"], "obligations": len([o for o in res["obligations"] if o["kind"] != "canary"]),
            "undecided_paths": len(res["undecided"]), "vcgen_s": round(res["gen_s"], 3),
        })
        for ob in res["obligations"]:
            all_obs.append((unit, Ob(ob)))
    # lemmas (obligations without code, over extracted tables)
    for lemma in getattr(spec, "LEMMAS", []):
        try:
            for ob in lemma.build():
                all_obs.append((lemma, Ob(ob)))
            trusted.update(getattr(lemma, "trusted", []))
        except Exception as ex:
            undecided.append({"unit": lemma.name, "why": f"lemma could not be built: {ex!r}"})

    jobs = []
    for unit, ob in all_obs:
        job = {"smt2": ob.smt2, "watch": ob.watch, "timeout_s": ob.meta.get("timeout_s", timeout_s), "strings": ob.meta.get("strings", False), "pre_verdict": ob.meta.get("pre_verdict", "")}
        if ob.kind == "canary":
            job.update(timeout_s=3, only="z3", watch={})
        jobs.append(job)
    results = solve.solve_all(jobs) if jobs else []

    # relaxed pass: an undecided obligation is re-asked with the hypotheses that stall the solvers (str.replace chains)
    # removed; proving the goal from fewer hypotheses is sound, so this can only turn undecided into discharged.
    relax = [(i, dict(jobs[i], smt2=ob.smt2_relaxed)) for i, ((unit, ob), r) in enumerate(zip(all_obs, results)) if ob.kind != "canary" and r["verdict"] not in ("sat", "unsat") and ob.smt2_relaxed]
    if relax:
        for (i, _), rr in zip(relax, solve.solve_all([j for _, j in relax])):
            solver_s += rr["time_s"]
            if rr["verdict"] == "unsat":
                rr["backend"] += " (weaker hypothesis set: str.replace facts dropped)"
                results[i] = rr

    # refutation pass (DESIGN 2.4): an undecided obligation is re-asked with the unit's size hints added (e.g. n = 5);
    # `sat` under an extra constraint is `sat` without it, so this can only turn undecided into refuted.
    retry = []
    for idx, ((unit, ob), job, r) in enumerate(zip(all_obs, jobs, results)):
        if ob.kind != "canary" and r["verdict"] not in ("sat", "unsat"):
            for hint in getattr(unit, "refute_hints", ()) or ():
                retry.append((idx, hint, dict(job, smt2=job["smt2"].replace("(check-sat)", hint + "\n(check-sat)"), timeout_s=10, only="z3")))
    if retry:
        rres = solve.solve_all([j for _, _, j in retry])
        for (idx, hint, _), rr in zip(retry, rres):
            solver_s += rr["time_s"]
            if rr["verdict"] == "sat" and results[idx]["verdict"] != "sat":
                rr["backend"] = "z3 (refutation pass with " + hint + ")"
                rr["log"] = results[idx]["log"] + rr["log"]
                results[idx] = rr

    refuted = []
    for (unit, ob), job, r in zip(all_obs, jobs, results):
        solver_s += r["time_s"]
        if ob.kind == "canary":
            if r["verdict"] == "unsat":
                warnings.append(f"vacuity: canary of {unit.name} was discharged - contradictory hypotheses")
                undecided.append({"unit": unit.name, "why": "contradictory hypotheses (canary discharged)"})
            continue
        n_obl += 1
        rep = {"obligation": ob.name, "kind": ob.kind, "verdict": {"unsat": "discharged", "sat": "refuted"}.get(r["verdict"], "undecided"), "backend": r["backend"] or "/".join(x["backend"] for x in r["log"]), "solver_s": r["time_s"]}
        if r["verdict"] == "unsat":
            n_dis += 1
        elif r["verdict"] == "sat":
            refuted.append((unit, ob, job, r))
        else:
            undecided.append({"unit": unit.name, "obligation": ob.name, "why": "solver: " + ", ".join(f"{x['backend']}={x['verdict']}" for x in r["log"])})
        if r["time_s"] > 5:
            rep["slow"] = True
        ob_reports.append(rep)

    # ---------------- counterexamples: replay on the real code
    os.makedirs(os.path.join(VERIF, "replays", pid), exist_ok=True)
    for old in os.listdir(os.path.join(VERIF, "replays", pid)):  # replay files of earlier runs
        if old.endswith(".json"):
            os.remove(os.path.join(VERIF, "replays", pid, old))
    # group the refuted obligations (same obligation on different paths); replay up to 6 members of a group until one
    # reproduces on the real code; one VIOLATION line per group
    groups = {}
    for unit, ob, job, r in refuted:
        groups.setdefault(re.sub(r"/(s\d+)?p\d+$", "", ob.name), []).append((unit, ob, job, r))
    for group, members in groups.items():
        pre = _finding_for([f for f in kf_prop if not any(m.get("signature_regex") for m in (f["match"] if isinstance(f["match"], list) else [f["match"]]))], "vc", group)
        if pre is not None:  # listed finding identified by the obligation alone: no replay needed
            known_hit.setdefault(pre["id"], pre)
            continue
        best = None
        for n_try, (unit, ob, job, r) in enumerate(members):
            rfile = os.path.join(VERIF, "replays", pid, _safe(ob.name.split("/", 1)[1]) + ".json")
            record = {
                "property": pid, "obligation": ob.name, "unit": unit.name, "kind": "vc-counterexample", "decisions": ob.meta.get("decisions"),
                "solver": {"backend": r["backend"], "time_s": r["time_s"], "verdict": "sat (negated obligation satisfiable)", "model": r["model"]},
                "replayer": getattr(unit, "replayer", ""), "note": ob.meta.get("note", ""), "same_obligation_refuted_on_paths": len(members),
            }
            outcome = None
            if getattr(unit, "replayer", "") and n_try < 6:
                json.dump(record, open(rfile, "w"), indent=1)
                outcome = _run_replay(rfile)
                record["replay"] = outcome
            elif n_try >= 6:
                break
            json.dump(record, open(rfile, "w"), indent=1, default=str)
            reproduced = bool(outcome and outcome.get("reproduced"))
            sig = (outcome or {}).get("signature", "")
            if best is None or reproduced:
                best = (rfile, reproduced, sig)
            if reproduced:
                break
        rfile, reproduced, sig = best
        hit = _finding_for(kf_prop, "vc", group, sig)
        if hit is not None:
            known_hit.setdefault(hit["id"], hit)
            continue
        violations.append({"what": group, "replay": rfile, "suffix": "" if reproduced else " no-failing-input-found"})

    # ---------------- bounded stand-ins (same contracts at run time on the real functions; never counted as proved)
    bounded_reports = []
    for b in getattr(spec, "BOUNDED", []):
        out_path = os.path.join(VERIF, "replays", pid, f".bounded_{_safe(b['name'])}.json")
        cmd = [VENV_PY, os.path.join(VERIF, b["script"]), "--tier", tier, "--seed", str(seed), "--out", out_path] + list(b.get("args", []))
        tb = time.time()
        env = dict(os.environ, PYTHONPATH=VERIF + os.pathsep + REPO, VERIF_PROPERTY=pid)
        try:
            if os.path.exists(out_path):
                os.remove(out_path)
            p = subprocess.run(cmd, capture_output=True, text=True, timeout=b.get("timeout_s", 900 if tier == "quick" else 7200), env=env, cwd=VERIF)
            data = json.load(open(out_path)) if os.path.exists(out_path) else None
        except subprocess.TimeoutExpired:
            p, data = None, None
        if data is None:
            bounded_reports.append({"name": b["name"], "status": "unavailable", "detail": (p.stderr[-2000:] if p else "timeout")})
            warnings.append(f"bounded stand-in {b['name']} did not complete: " + ((p.stderr.strip().splitlines() or ['?'])[-1] if p else "timeout"))
            continue
        data["name"] = b["name"]
        data["wall_s"] = round(time.time() - tb, 2)
        for v in data.pop("violations", []):
            hit = _finding_for(kf_prop, "bounded", v["key"])
            if hit is not None:
                known_hit.setdefault(hit["id"], hit)
                continue
            rfile = os.path.join(VERIF, "replays", pid, _safe(b["name"] + "." + v["key"]) + ".json")
            json.dump({"property": pid, "kind": "bounded-contract-violation", "harness": b["script"], "key": v["key"], "what": v.get("what"), "case": v.get("case"), "replayer": b["script"]}, open(rfile, "w"), indent=1, default=str)
            violations.append({"what": v["key"], "replay": rfile, "suffix": ""})
        bounded_reports.append(data)

    # ---------------- thorough tier: in-memory mutation audit of the contracts (informational)
    mutation = []
    if tier == "thorough" and os.environ.get("VERIF_MUTATION_AUDIT", "1") != "0":
        slow = {u["unit"] for u in unit_reports if u.get("vcgen_s", 0) > 8 or u.get("obligations", 0) > 3000}
        try:
            mutation = units.mutation_audit(spec.__name__, unit_list, skip=slow)
        except Exception as ex:
            warnings.append(f"mutation audit did not complete: {ex!r}")

    # ---------------- verdict and evidence
    for f in known_hit.values():
        print(f"KNOWN-FINDING: property={pid} {f['what']}")
    for v in violations[:8]:
        print(f"VIOLATION property={pid} replay={v['replay']}{v['suffix']}")
    if len(violations) > 8:
        print(f"... and {len(violations) - 8} more violating cases (all listed in the evidence file under coverage.violating_cases)")
    for w in warnings:
        print("WARNING:", w)

    level_claimed = getattr(spec, "LEVEL", "other")
    proof_ok = n_obl > 0 and n_dis == n_obl and not undecided and not [w for w in warnings if w.startswith("vacuity")]
    level = level_claimed if (level_claimed != "proof" or proof_ok) and not known_hit else "other"
    if level_claimed == "proof" and level != "proof":
        warnings.append("proof-level claim downgraded to `other` for this run")
    evals = sum(b.get("evaluations", 0) for b in bounded_reports)
    distinct = sum(b.get("distinct_nontrivial", 0) for b in bounded_reports)
    samples = [{"obligation": r["obligation"], "verdict": r["verdict"], "backend": r["backend"], "solver_s": r["solver_s"]} for r in ob_reports[:3]]
    for b in bounded_reports:
        samples.extend(b.get("samples", [])[:3])
    coverage = {
        "obligations": n_obl, "discharged": n_dis,
        "checker_cmd": f"./check {pid} --tier {tier}  (pyvc: AST of {REPO} -> SMT-LIB; z3 5.1.0 CLI `z3-new`, unknowns to /usr/bin/cvc5 1.0.3 --strings-exp)",
        "trusted_base": sorted(trusted),
        "explanation": _contracts.text_of(spec, "EXPLANATION"),
        "units": unit_reports, "obligation_groups": _group_reports(ob_reports),
        "obligation_results_not_discharged": [r for r in ob_reports if r["verdict"] != "discharged"][:300],
        "obligation_results_sample": ob_reports[:60], "undecided": undecided[:300], "solver_s_total": round(solver_s, 2),
        "refuted": [v["what"] for v in violations if "bounded" not in v["what"]],
        "bounded": bounded_reports,
        "evaluations": evals, "distinct_nontrivial": distinct,
        "rule": "; ".join(f"[{b['name']}] {b.get('rule', '')}" for b in bounded_reports if b.get("rule")) or "no bounded stand-in for this property",
        "samples": samples or [{"note": "no obligations generated"}],
        "exhaustive": False,
        "mutation_audit": {"note": "in-memory AST mutants of each unit re-verified; killed = some obligation no longer discharged (refuted: counter-model; undecided: solver unknown / unsupported construct); survivors point at clauses the contracts do not pin down or at equivalent mutants; units with slow VC generation are skipped", "units": mutation},
        "known_findings_reported": sorted(known_hit),
        "violating_cases": [{"what": v["what"], "replay": v["replay"]} for v in violations],
        "warnings": warnings,
    }
    ev = {
        "property_id": pid, "tier": tier, "seed": seed, "level": level, "coverage": coverage,
        "assumptions": list(getattr(spec, "ASSUMPTIONS", [])) or list(_contracts.COMMON_ASSUMPTIONS), "wall_s": round(time.time() - t0, 2), "violations": len(violations),
    }
    os.makedirs(os.path.join(VERIF, "evidence"), exist_ok=True)
    json.dump(ev, open(os.path.join(VERIF, "evidence", f"{pid}.json"), "w"), indent=1, default=str)
    print(f"{pid} [{tier}] obligations={n_obl} discharged={n_dis} undecided={len(undecided)} refuted={len(refuted)} bounded_evaluations={evals} violations={len(violations)} known_findings={len(known_hit)} level={level} wall={ev['wall_s']}s")
    if violations:
        return 1
    if n_obl == 0 and not bounded_reports:
        print("no obligations and no bounded stand-in ran: nothing was checked")
        return 2
    if undecided and not any(b.get("evaluations") for b in bounded_reports):
        return 2
    return 0


def _run_replay(rfile: str) -> dict:
    env = dict(os.environ, PYTHONPATH=VERIF + os.pathsep + REPO)
    try:
        p = subprocess.run([VENV_PY, "-m", "replayers.run", rfile], capture_output=True, text=True, timeout=300, env=env, cwd=VERIF)
        line = (p.stdout.strip().splitlines() or ["{}"])[-1]
        out = json.loads(line)
        out["stderr_tail"] = p.stderr[-500:]
        return out
    except Exception as ex:
        return {"reproduced": False, "error": repr(ex)}


def main(argv=None):
    ap = argparse.ArgumentParser(prog="check")
    ap.add_argument("what", nargs="?")
    ap.add_argument("file", nargs="?")
    try:  # kill -USR1 <pid> prints the Python stack of a run that seems stuck
        import faulthandler
        import signal
        faulthandler.register(signal.SIGUSR1, all_threads=True)
    except Exception:
        pass
    ap.add_argument("--tier", default=os.environ.get("VERIF_TIER", "quick"), choices=["quick", "thorough"])
    ap.add_argument("--setup", action="store_true")
    ap.add_argument("--replay")
    a = ap.parse_args(argv)
    sys.path.insert(0, VERIF)
    if os.environ.get("VERIF_TIER") in ("quick", "thorough"):
        a.tier = os.environ["VERIF_TIER"]
    seed = int(os.environ.get("VERIF_SEED", "0") or 0)
    if a.setup:
        return cmd_setup()
    if a.what == "replay" or a.replay:
        out = _run_replay(a.replay or a.file)
        print(json.dumps(out, indent=1))
        return 1 if out.get("reproduced") else 0
    if not a.what:
        ap.error("property id required")
    try:
        return run_property(a.what.upper(), a.tier, seed)
    except Exception:
        traceback.print_exc()
        print("checker crash (exit 3): this is a failure of the machinery, not a verdict about the property")
        return 3


if __name__ == "__main__":
    sys.exit(main())
