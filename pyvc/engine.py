"""Symbolic executor over the real Python AST (DESIGN.md section 2).

Execution model: *re-execution with a decision tree*.  A unit is interpreted
deterministically from its first statement; every symbolic branch asks the
context which way to go (`Ctx.branch` / `Ctx.choose`).  After a path ends the
driver backtracks to the deepest decision with an unexplored, feasible
alternative and re-runs.  Because every path starts from scratch the state can
be ordinary mutable Python objects, aliasing is Python's own, and modelled
Python exceptions are Python exceptions of the interpreter (`PyRaise`).

Values
  concrete      None, bool, int, str, float, tuple/list/dict/set of values
  symbolic      z3 expressions (Int, Bool, String, FP, uninterpreted sorts)
  SymList       list of symbolic length: (len: Int, arr: Array Int T)
  SymMap        map with symbolic domain: (dom: Array K Bool, val: Array K T)
  CharBag       a string of which only `c in s` / `s.count(c)` are used
  Rec           object with named fields (attrs) and optional method models
  Closure       nested def / lambda of the unit, inlined at calls
  ExcVal        exception instance (class name + args)
"""
from __future__ import annotations

import ast
import builtins
import itertools
from dataclasses import dataclass, field
from typing import Any, Callable, Dict, List, Optional

import z3


# --------------------------------------------------------------------------- signals
class Unsupported(Exception):
    """Construct outside the supported subset on a feasible path -> unit undecided."""

    def __init__(self, why, node=None):
        super().__init__(why)
        self.why = why
        self.node = node


class PathEnd(Exception):
    """Silently ends the current path (after an inv-step obligation, infeasible assumption...)."""


class RestartPath(Exception):
    """Internal: re-run the current path from its start (an and/or operand turned out to fork; see Interp._under)."""


class ReturnSignal(Exception):
    def __init__(self, value):
        self.value = value


class BreakSignal(Exception):
    pass


class ContinueSignal(Exception):
    pass


class PyRaise(Exception):
    """A modelled Python exception propagating through the interpreted code."""

    def __init__(self, exc: "ExcVal"):
        self.exc = exc


# --------------------------------------------------------------------------- values
@dataclass
class ExcVal:
    cls: str
    args: tuple = ()
    cause: Any = None
    origin: str = ""  # where it was raised (label)
    attrs: dict = field(default_factory=dict)

    def __repr__(self):
        return f"<exc {self.cls} @{self.origin}>"


class Rec:
    """Object with fields.  `methods` maps a method name to a model callable(ctx, self, args, kwargs)."""

    def __init__(self, cls: str, attrs: Optional[dict] = None, methods: Optional[dict] = None, truthy=True):
        self.cls = cls
        self.attrs = dict(attrs or {})
        self.methods = dict(methods or {})
        self.truthy = truthy

    def __repr__(self):
        return f"<Rec {self.cls}>"


class Fn:
    """Callable model: fn(ctx, args, kwargs) -> value (may raise PyRaise, branch, oblige)."""

    def __init__(self, fn, name="<fn>"):
        self.fn = fn
        self.name = name

    def __repr__(self):
        return f"<Fn {self.name}>"


class Closure:
    def __init__(self, node, env, name):
        self.node = node
        self.env = env
        self.name = name


class ClassRef:
    """Reference to a class by name (exception classes, isinstance targets)."""

    def __init__(self, name):
        self.name = name

    def __repr__(self):
        return f"<class {self.name}>"


class CharBag:
    """A string used only through `c in s`, `s.count(c)`, set(s), Counter(s) (mode strings).

    Two encodings: with an `alphabet`, one Int counter per alphabet character plus `other` (number of characters
    outside the alphabet) - quantifier free; without, a function cnt: String -> Int over one-character strings."""

    def __init__(self, ctx, name, alphabet=None):
        self.name = name
        self.alphabet = alphabet
        if alphabet is None:
            self.cnt = z3.Function(f"{name}.count", z3.StringSort(), z3.IntSort())
            ch = z3.String("ch!bag")
            ctx.axiom(z3.ForAll([ch], self.cnt(ch) >= 0, patterns=[self.cnt(ch)]))
        else:
            self.counters = {c: z3.Int(f"{name}.count[{c}]") for c in alphabet}
            self.other = z3.Int(f"{name}.count[other]")
            for c in alphabet:
                ctx.axiom(self.counters[c] >= 0)
            ctx.axiom(self.other >= 0)

    def has(self, c):
        return self.count(c) >= 1

    def count(self, c):
        if self.alphabet is None:
            return self.cnt(lift(c))
        if isinstance(c, str) and c in self.counters:
            return self.counters[c]
        raise Unsupported(f"CharBag: {c!r} is outside the declared alphabet")


class SymList:
    """List with symbolic length. Elements are z3 terms of sort `esort` (wrap/unwrap hooks for richer values)."""

    def __init__(self, ctx, name, esort, length=None, arr=None):
        self.ctx = ctx
        self.name = name
        self.esort = esort
        self.len = length if length is not None else ctx.fresh(name + ".len", z3.IntSort())
        self.arr = arr if arr is not None else ctx.fresh(name + ".arr", z3.ArraySort(z3.IntSort(), esort))
        if length is None:
            ctx.assume(self.len >= 0)

    def havoc(self):
        ctx = self.ctx
        self.len = ctx.fresh(self.name + ".len", z3.IntSort())
        self.arr = ctx.fresh(self.name + ".arr", z3.ArraySort(z3.IntSort(), self.esort))
        ctx.assume(self.len >= 0)
        ctx.mutated(self)

    def get(self, i):
        return z3.Select(self.arr, i)

    def set(self, i, v):
        self.arr = z3.Store(self.arr, i, v)
        self.ctx.mutated(self)

    def append(self, v):
        self.arr = z3.Store(self.arr, self.len, v)
        self.len = self.len + 1
        self.ctx.mutated(self)

    def insert0(self, v):
        ctx = self.ctx
        old_arr, old_len = self.arr, self.len
        new = ctx.fresh(self.name + ".ins", z3.ArraySort(z3.IntSort(), self.esort))
        i = z3.Int("i!ins")
        ctx.assume(new[0] == v)
        ctx.assume(z3.ForAll([i], z3.Implies(z3.And(1 <= i, i <= old_len), new[i] == old_arr[i - 1]), patterns=[new[i]]))
        self.arr, self.len = new, old_len + 1
        ctx.mutated(self)

    def snapshot(self):
        return (self.len, self.arr)


class SymMap:
    """Map with symbolic domain: dom: Array K Bool, val: Array K V."""

    def __init__(self, ctx, name, ksort, vsort, dom=None, val=None):
        self.ctx = ctx
        self.name = name
        self.ksort, self.vsort = ksort, vsort
        self.dom = dom if dom is not None else ctx.fresh(name + ".dom", z3.ArraySort(ksort, z3.BoolSort()))
        self.val = val if val is not None else ctx.fresh(name + ".val", z3.ArraySort(ksort, vsort))

    def has(self, k):
        return z3.Select(self.dom, k)

    def get(self, k):
        return z3.Select(self.val, k)

    def set(self, k, v):
        self.dom = z3.Store(self.dom, k, z3.BoolVal(True))
        self.val = z3.Store(self.val, k, v)
        self.ctx.mutated(self)

    def delete(self, k):
        self.dom = z3.Store(self.dom, k, z3.BoolVal(False))
        self.ctx.mutated(self)

    def havoc(self):
        ctx = self.ctx
        self.dom = ctx.fresh(self.name + ".dom", z3.ArraySort(self.ksort, z3.BoolSort()))
        self.val = ctx.fresh(self.name + ".val", z3.ArraySort(self.ksort, self.vsort))
        ctx.mutated(self)

    def snapshot(self):
        return (self.dom, self.val)


def is_z3(v):
    return isinstance(v, z3.ExprRef)


class SymKey:
    """A symbolic term used as a key of a concrete dict (identified by the term itself)."""

    def __init__(self, term):
        self.term = term

    def __hash__(self):
        return hash(self.term.get_id())

    def __eq__(self, other):
        return isinstance(other, SymKey) and self.term.eq(other.term)

    def __repr__(self):
        return f"<key {self.term}>"


def _dkey(k):
    return SymKey(k) if is_z3(k) else k


def _undkey(k):
    return k.term if isinstance(k, SymKey) else k


def lift(v):
    """Concrete scalar -> z3 term."""
    if is_z3(v):
        return v
    if isinstance(v, bool):
        return z3.BoolVal(v)
    if isinstance(v, int):
        return z3.IntVal(v)
    if isinstance(v, str):
        return z3.StringVal(v)
    if isinstance(v, float):
        return z3.FPVal(v, z3.Float64())
    raise Unsupported(f"cannot lift {type(v).__name__} to a term")


def is_concrete(v):
    if is_z3(v) or isinstance(v, (SymList, SymMap, CharBag)):
        return False
    if isinstance(v, (tuple, list, set, frozenset)):
        return all(is_concrete(x) for x in v)
    if isinstance(v, dict):
        return all(is_concrete(k) and is_concrete(x) for k, x in v.items())
    return True


def zbool(v):
    """Python bool or z3 Bool -> z3 Bool."""
    if isinstance(v, bool):
        return z3.BoolVal(v)
    if not is_z3(v):  # a contract wrote `xs and ...`: the truth value of a plain Python object (an empty list, None) is meant
        return z3.BoolVal(bool(v))
    return v


def And(*xs):
    xs = [x for x in xs if not (isinstance(x, bool) and x)]
    if any(isinstance(x, bool) and not x for x in xs):
        return False
    if not xs:
        return True
    return z3.And(*xs) if len(xs) > 1 else xs[0]


def Or(*xs):
    xs = [x for x in xs if not (isinstance(x, bool) and not x)]
    if any(isinstance(x, bool) and x for x in xs):
        return True
    if not xs:
        return False
    return z3.Or(*xs) if len(xs) > 1 else xs[0]


def Not(x):
    return (not x) if isinstance(x, bool) else z3.Not(x)


def Implies(a, b):
    return Or(Not(a), b)


def Ite(c, a, b):
    if isinstance(c, bool):
        return a if c else b
    return z3.If(c, lift(a), lift(b))


# --------------------------------------------------------------------------- class hierarchy
class ClassTable:
    """Exception / class hierarchy: builtins + every ClassDef found in the repo sources (by simple name)."""

    def __init__(self):
        self.bases: Dict[str, List[str]] = {}
        for name in dir(builtins):
            obj = getattr(builtins, name)
            if isinstance(obj, type):
                self.bases[name] = [b.__name__ for b in obj.__bases__]
        self.bases["<Any>"] = ["BaseException"]  # arbitrary exception thrown into a generator

    def add_module_ast(self, tree):
        for node in ast.walk(tree):
            if isinstance(node, ast.ClassDef):
                self.bases.setdefault(node.name, [ast.unparse(b).split(".")[-1] for b in node.bases])

    def add(self, name, bases):
        self.bases[name] = list(bases)

    def is_subclass(self, name, ancestor):
        if name == ancestor:
            return True
        seen, todo = set(), [name]
        while todo:
            n = todo.pop()
            if n in seen:
                continue
            seen.add(n)
            for b in self.bases.get(n, []):
                if b == ancestor:
                    return True
                todo.append(b)
        return False


# --------------------------------------------------------------------------- obligations
@dataclass
class Obligation:
    name: str
    kind: str
    hyps: list
    goal: Any
    path: int
    meta: dict = field(default_factory=dict)
    smt2: str = ""


class Env:
    def __init__(self, vars=None, parent=None):
        self.vars = dict(vars or {})
        self.parent = parent

    def lookup(self, name):
        e = self
        while e is not None:
            if name in e.vars:
                return e.vars[name]
            e = e.parent
        raise KeyError(name)

    def has(self, name):
        e = self
        while e is not None:
            if name in e.vars:
                return True
            e = e.parent
        return False

    def set(self, name, v):
        self.vars[name] = v


@dataclass
class LoopSpec:
    """Cut a loop by an invariant.

    inv(ctx, env, k): the invariant as a z3 Bool, `k` = number of completed iterations (Int term)
    havoc(ctx, env):  replace everything the loop may modify by fresh symbolic state (objects in place)
    havoc_vars:       names of the local variables havoc() replaces; the engine checks after the body that
                      no other variable / object was modified (dynamic frame check)
    """

    inv: Callable
    havoc: Callable
    havoc_vars: tuple = ()
    havoc_objs: Callable = lambda ctx, env: ()


class Ctx:
    """Per-unit context: decision tree, path condition, obligations, ghost log."""

    FEAS_TIMEOUT_MS = 2000

    def __init__(self, unit_name: str, classes: ClassTable):
        self.unit_name = unit_name
        self.classes = classes
        self.trace: List[list] = []  # decision tree path: [options, idx]
        self.obligations: List[Obligation] = []
        self.undecided: List[dict] = []
        self.path_no = 0
        self.path_ends: List[dict] = []
        self.feas_checks = 0
        self.forced_first: Optional[int] = None  # scenario split: the first decision of every path is fixed to this option
        self._reset_path()

    # ---- per-path state
    def _reset_path(self):
        self.pc: List[Any] = []
        self.axioms: List[Any] = []
        self.cursor = 0
        self.fresh_id = itertools.count()
        self.events: List[tuple] = []
        self.ghost: Dict[str, Any] = {}
        self.mutlog: List[Any] = []
        self.decisions_txt: List[str] = []

    def fresh(self, name, sort):
        name = name.replace("'", "_prime").replace("|", "_").replace(" ", "_")
        return z3.Const(f"{name}!{next(self.fresh_id)}", sort)

    def axiom(self, f):
        if isinstance(f, bool):
            if not f:
                raise PathEnd()
            return
        self.axioms.append(f)

    def assume(self, f):
        if isinstance(f, bool):
            if not f:
                raise PathEnd()
            return
        self.pc.append(f)

    def mutated(self, obj):
        self.mutlog.append(obj)

    def event(self, *e):
        self.events.append(tuple(e))

    # ---- decisions
    def _feasible(self, extra):
        s = z3.Solver()
        s.set("timeout", self.FEAS_TIMEOUT_MS)
        s.add(*[a for a in self.axioms if not _has_quantifier(a)])
        s.add(*[p for p in self.pc if not _has_quantifier(p)])
        s.add(extra)
        self.feas_checks += 1
        return s.check() != z3.unsat

    def choose(self, n: int, label: str = "", conds=None) -> int:
        """n-way decision; conds[i] (optional z3 Bool) is assumed on option i and used for pruning."""
        if self.cursor < len(self.trace):
            options, idx = self.trace[self.cursor]
        elif self.cursor == 0 and self.forced_first is not None:
            if self.forced_first >= n:
                raise PathEnd()
            self.trace.append([[self.forced_first], 0])
            options, idx = [self.forced_first], 0
        else:
            options = []
            for i in range(n):
                if conds is None or conds[i] is True:
                    options.append(i)
                elif conds[i] is False:
                    continue
                elif self._feasible(conds[i]):
                    options.append(i)
            if not options:
                raise PathEnd()
            self.trace.append([options, 0])
            idx = 0
        self.cursor += 1
        pick = options[idx]
        self.decisions_txt.append(f"{label}={pick}")
        if conds is not None and not isinstance(conds[pick], bool):
            self.pc.append(conds[pick])
        return pick

    def branch(self, cond, label="") -> bool:
        if isinstance(cond, bool):
            return cond
        cond = z3.simplify(cond)
        if z3.is_true(cond):
            return True
        if z3.is_false(cond):
            return False
        return self.choose(2, label, [cond, z3.Not(cond)]) == 0

    def next_path(self) -> bool:
        """Backtrack; returns False when the tree is exhausted."""
        while self.trace and self.trace[-1][1] >= len(self.trace[-1][0]) - 1:
            self.trace.pop()
        if not self.trace:
            return False
        self.trace[-1][1] += 1
        self.path_no += 1
        self._reset_path()
        return True

    # ---- obligations
    def oblige(self, kind: str, label: str, goal, **meta):
        name = f"{self.unit_name}/{kind}.{label}/p{self.path_no}"
        meta = dict(meta)
        meta.setdefault("decisions", list(self.decisions_txt))
        meta.setdefault("watch", dict(getattr(self, "watch", {}) or {}))
        self.obligations.append(
            Obligation(name=name, kind=kind, hyps=list(self.axioms) + list(self.pc), goal=zbool(goal), path=self.path_no, meta=meta)
        )


def _has_quantifier(e, _cache={}):
    if not is_z3(e):
        return False
    k = e.get_id()
    if k in _cache:
        return _cache[k]
    todo, seen, res = [e], set(), False
    while todo:
        x = todo.pop()
        i = x.get_id()
        if i in seen:
            continue
        seen.add(i)
        if z3.is_quantifier(x):
            res = True
            break
        todo.extend(x.children())
    _cache[k] = res
    return res


# --------------------------------------------------------------------------- interpreter
MUTATING_METHODS = {"append", "insert", "pop", "extend", "remove", "update", "clear", "add", "discard", "setdefault", "sort", "reverse"}


class Interp:
    """Interprets a function body over symbolic values.

    `calls`:  unparsed callee text -> model(ctx, args, kwargs) (contract or assumed external)
    `consts`: unparsed expression text -> value (module constants such as os.W_OK)
    `loops`:  ordinal of the loop in the unit (source order) -> LoopSpec
    `cms`:    unparsed context-manager callee text -> (enter(ctx,args,kwargs)->value, exit(ctx, exc_or_None)->suppress?)
    `drop_calls`: callee texts treated as no-ops (logging, warnings: assumption A7)
    """

    DROP_DEFAULT = ("warnings.warn", "warning", "self._logger.debug", "self._logger.warning", "self._logger.info", "self.logger.debug", "self.logger.warning", "self.logger.info", "logger.debug", "logger.warning")

    def __init__(self, ctx: Ctx, fn_node, calls=None, consts=None, loops=None, cms=None, drop_calls=(), symcall=None, hooks=None, impure=None):
        self.ctx = ctx
        self.fn = fn_node
        self.calls = dict(calls or {})
        self.consts = dict(consts or {})
        self.loops = dict(loops or {})
        self.cms = dict(cms or {})
        self.drop = set(self.DROP_DEFAULT) | set(drop_calls)
        self.symcall = symcall  # callable(ctx, fval, args, kwargs) for calling symbolic values
        self.hooks = dict(hooks or {})  # 'after_stmt': fn(ctx, interp, stmt, env)
        self.impure = impure if impure is not None else set()  # and/or operands known to fork (persist across the paths of a unit)
        cached = getattr(fn_node, "_pyvc_loop_ids", None)
        if cached is None:
            loops_sorted = sorted([x for x in ast.walk(fn_node) if isinstance(x, (ast.For, ast.While))], key=lambda x: (x.lineno, x.col_offset))
            cached = {id(node): i for i, node in enumerate(loops_sorted)}
            fn_node._pyvc_loop_ids = cached
        self.loop_ids = cached

    # ---------------------------------------------------------------- statements
    def exec_block(self, stmts, env):
        for s in stmts:
            self.exec_stmt(s, env)

    def exec_stmt(self, s, env):
        m = getattr(self, "st_" + type(s).__name__, None)
        if m is None:
            raise Unsupported(f"statement {type(s).__name__}", s)
        hb = self.hooks.get("before_stmt")
        if hb:
            hb(self.ctx, self, s, env)
        m(s, env)
        h = self.hooks.get("after_stmt")
        if h:
            h(self.ctx, self, s, env)

    def st_Pass(self, s, env):
        pass

    def st_Expr(self, s, env):
        if isinstance(s.value, ast.Constant):
            return  # docstring
        self.eval(s.value, env)

    def st_Import(self, s, env):
        for a in s.names:
            env.set((a.asname or a.name).split(".")[0], Rec("module:" + a.name))

    def st_ImportFrom(self, s, env):
        for a in s.names:
            nm = a.asname or a.name
            if nm in self.calls or nm in self.consts:
                continue
            env.set(nm, ClassRef(a.name) if a.name in self.ctx.classes.bases else Rec("import:" + a.name))

    def st_Assign(self, s, env):
        v = self.eval(s.value, env)
        for t in s.targets:
            self.assign(t, v, env)

    def st_AnnAssign(self, s, env):
        if s.value is not None:
            self.assign(s.target, self.eval(s.value, env), env)

    def st_AugAssign(self, s, env):
        load = ast.copy_location(_as_load(s.target), s.target)
        cur = self.eval(load, env)
        v = self.binop(s.op, cur, self.eval(s.value, env), s)
        self.assign(s.target, v, env)

    def assign(self, t, v, env):
        if isinstance(t, ast.Name):
            env.set(t.id, v)
        elif isinstance(t, (ast.Tuple, ast.List)):
            if isinstance(v, Rec) and "__iter__" in v.methods:  # a record that unpacks like a (named) tuple
                v = list(v.methods["__iter__"](self.ctx, v, (), {}))
            if isinstance(v, (tuple, list)) and len(v) == len(t.elts):
                for tt, vv in zip(t.elts, v):
                    self.assign(tt, vv, env)
            else:
                raise Unsupported("unpacking of non-concrete sequence", t)
        elif isinstance(t, ast.Attribute):
            obj = self.eval(t.value, env)
            if isinstance(obj, Rec):
                setter = obj.methods.get("__setattr__")
                if setter:
                    setter(self.ctx, obj, (t.attr, v), {})
                else:
                    obj.attrs[t.attr] = v
                    self.ctx.mutated(obj)
            elif isinstance(obj, ExcVal):
                obj.attrs[t.attr] = v
            else:
                raise Unsupported("attribute store on non-record", t)
        elif isinstance(t, ast.Subscript):
            obj = self.eval(t.value, env)
            idx = self.eval(t.slice, env)
            self.store_item(obj, idx, v, t)
        else:
            raise Unsupported(f"assignment target {type(t).__name__}", t)

    def store_item(self, obj, idx, v, node):
        ctx = self.ctx
        if isinstance(obj, SymList):
            i = lift(idx)
            ctx.oblige("safety", f"index-in-range@{node.lineno}", z3.And(0 <= i, i < obj.len))
            obj.set(i, lift(v))
        elif isinstance(obj, SymMap):
            obj.set(lift(idx), lift(v))
        elif isinstance(obj, list) and isinstance(idx, int):
            obj[idx] = v
            ctx.mutated(obj)
        elif isinstance(obj, dict) and (is_concrete(idx) or is_z3(idx)):
            obj[_dkey(idx)] = v  # (a symbolic key is a new entry unless the very same term was used before)
            ctx.mutated(obj)
        elif isinstance(obj, Rec) and "__setitem__" in obj.methods:
            obj.methods["__setitem__"](ctx, obj, (idx, v), {})
        else:
            raise Unsupported("subscript store", node)

    def st_Delete(self, s, env):
        for t in s.targets:
            if isinstance(t, ast.Subscript):
                obj = self.eval(t.value, env)
                idx = self.eval(t.slice, env)
                if isinstance(obj, Rec) and "__delitem__" in obj.methods:
                    obj.methods["__delitem__"](self.ctx, obj, (idx,), {})
                elif isinstance(obj, SymMap):
                    obj.delete(lift(idx))
                elif isinstance(obj, dict) and is_concrete(idx):
                    if idx not in obj:
                        raise PyRaise(ExcVal("KeyError", (idx,), origin=f"del@{s.lineno}"))
                    del obj[idx]
                    self.ctx.mutated(obj)
                else:
                    raise Unsupported("del subscript", s)
            elif isinstance(t, ast.Name):
                env.vars.pop(t.id, None)
            else:
                raise Unsupported("del target", s)

    def st_Return(self, s, env):
        raise ReturnSignal(self.eval(s.value, env) if s.value is not None else None)

    def st_Break(self, s, env):
        raise BreakSignal()

    def st_Continue(self, s, env):
        raise ContinueSignal()

    def st_Assert(self, s, env):
        c = self.eval_truth(s.test, env)
        if not self.ctx.branch(c, f"assert@{s.lineno}"):
            raise PyRaise(ExcVal("AssertionError", origin=f"assert@{s.lineno}"))

    def st_Global(self, s, env):
        pass

    def st_Nonlocal(self, s, env):
        pass

    def st_FunctionDef(self, s, env):
        env.set(s.name, Closure(s, env, s.name))

    def st_ClassDef(self, s, env):
        """A class statement inside a function: the class object is a record whose attributes are the names bound in the class body
        (plain assignments evaluated in the enclosing scope, functions kept as closures, not bound methods).  Decorators, keywords
        (metaclass=) and anything else in the body are outside the subset."""
        if s.decorator_list or s.keywords:
            raise Unsupported("nested class definition with decorators / keywords", s)
        body_env = Env(parent=env)
        for st in s.body:
            if isinstance(st, ast.Expr) and isinstance(st.value, ast.Constant):
                continue  # docstring
            if isinstance(st, (ast.Assign, ast.AnnAssign, ast.FunctionDef, ast.Pass)):
                self.exec_stmt(st, body_env)
            else:
                raise Unsupported("statement in a nested class body", st)
        attrs = dict(body_env.vars) if hasattr(body_env, "vars") else {}
        attrs["__name__"] = s.name
        attrs["__bases__"] = tuple(self.eval(b, env) for b in s.bases)
        env.set(s.name, Rec("class " + s.name, attrs=attrs))

    def st_If(self, s, env):
        c = self.eval_truth(s.test, env)
        if self.ctx.branch(c, f"if@{s.lineno}"):
            self.exec_block(s.body, env)
        else:
            self.exec_block(s.orelse, env)

    def st_Raise(self, s, env):
        if s.exc is None:
            cur = env.lookup("$exc") if env.has("$exc") else None
            if cur is None:
                raise Unsupported("bare raise outside except", s)
            raise PyRaise(cur)
        v = self.eval(s.exc, env)
        if isinstance(v, ClassRef):
            v = ExcVal(v.name, ())
        if not isinstance(v, ExcVal):
            raise Unsupported("raise of non-exception value", s)
        if not v.origin:
            v.origin = f"raise@{s.lineno}"
        if s.cause is not None:
            v.cause = self.eval(s.cause, env)
        raise PyRaise(v)

    def st_Try(self, s, env):
        try:
            try:
                self.exec_block(s.body, env)
            except PyRaise as pr:
                handler = self._match_handler(s.handlers, pr.exc, env)
                if handler is None:
                    raise
                if handler.name:
                    env.set(handler.name, pr.exc)
                saved = env.vars.get("$exc")
                env.set("$exc", pr.exc)
                try:
                    self.exec_block(handler.body, env)
                finally:
                    env.vars["$exc"] = saved
            else:
                self.exec_block(s.orelse, env)
        finally:
            # Python semantics: a return/raise inside finally overrides; Python's own `finally` gives exactly that
            if s.finalbody:
                self.exec_block(s.finalbody, env)

    def _match_handler(self, handlers, exc: ExcVal, env):
        for h in handlers:
            if h.type is None:
                return h
            t = self.eval(h.type, env)
            names = [x.name for x in (t if isinstance(t, tuple) else (t,)) if isinstance(x, ClassRef)]
            if len(names) != (len(t) if isinstance(t, tuple) else 1):
                raise Unsupported("except clause with non-class", h)
            if exc.cls == "<Any>":
                # arbitrary exception: it may or may not be of the handled class
                if any(n in ("BaseException",) for n in names):
                    return h
                if self.ctx.choose(2, f"anyexc-matches@{h.lineno}") == 0:
                    return h
                continue
            if any(self.ctx.classes.is_subclass(exc.cls, n) for n in names):
                return h
        return None

    def st_With(self, s, env):
        self._with_items(s.items, s.body, env, s)

    def _with_items(self, items, body, env, node):
        if not items:
            self.exec_block(body, env)
            return
        item, rest = items[0], items[1:]
        call = item.context_expr
        key = ast.unparse(call.func) if isinstance(call, ast.Call) else ast.unparse(call)
        if key not in self.cms:
            raise Unsupported(f"context manager {key} has no contract", node)
        enter, exit_ = self.cms[key]
        # `with f(x) as y`: the model gets f's arguments; `with obj as y` (an object that is its own context manager): the model gets the object
        args, kwargs = self._eval_args(call, env) if isinstance(call, ast.Call) else ((self.eval(call, env),), {})
        token = enter(self.ctx, args, kwargs)
        value = token[0] if isinstance(token, tuple) and len(token) == 2 and token[1] == "$token" else token
        if item.optional_vars is not None:
            self.assign(item.optional_vars, value, env)
        try:
            self._with_items(rest, body, env, node)
        except PyRaise as pr:
            if exit_(self.ctx, token, pr.exc):
                return
            raise
        except (ReturnSignal, BreakSignal, ContinueSignal):
            exit_(self.ctx, token, None)
            raise
        else:
            exit_(self.ctx, token, None)

    # ---------------------------------------------------------------- loops
    def st_While(self, s, env):
        lid = self.loop_ids.get(id(s), -1)  # -1: a loop of an inlined helper (no LoopSpec: unrolled)
        if lid in self.loops:
            return self._cut_loop(s, env, lid, None)
        # no invariant: unroll while the condition is concrete
        n = 0
        while True:
            c = self.eval_truth(s.test, env)
            if not isinstance(c, bool):
                raise Unsupported(f"while loop #{lid} with symbolic condition needs an invariant", s)
            if not c:
                break
            n += 1
            if n > 64:
                raise Unsupported("while unroll bound", s)
            try:
                self.exec_block(s.body, env)
            except BreakSignal:
                return
            except ContinueSignal:
                continue
        self.exec_block(s.orelse, env)

    def st_For(self, s, env):
        lid = self.loop_ids.get(id(s), -1)
        it = self.eval(s.iter, env)
        if lid in self.loops:
            return self._cut_loop(s, env, lid, it)
        seq = self._concrete_iter(it, s)
        for x in seq:
            self.assign(s.target, x, env)
            try:
                self.exec_block(s.body, env)
            except BreakSignal:
                return
            except ContinueSignal:
                continue
        self.exec_block(s.orelse, env)

    def _concrete_iter(self, it, node):
        if isinstance(it, (list, tuple)):
            return list(it)
        if isinstance(it, range):
            return list(it)
        if isinstance(it, dict):
            return list(it.keys())
        if isinstance(it, (set, frozenset)):
            return sorted(it, key=repr)
        if isinstance(it, str):
            return list(it)
        raise Unsupported("loop over symbolic collection needs an invariant (LoopSpec)", node)

    def _elem_at(self, it, k, node):
        """Element k of a symbolic iterable and its length."""
        if isinstance(it, SymList):
            return it.len, it.get(k)
        if isinstance(it, SymRange):
            return it.n, k + it.start
        if isinstance(it, SymZip):
            lens, elems = zip(*[self._elem_at(x, k, node) for x in it.parts])
            # zip stops at the shortest
            n = lens[0]
            for l in lens[1:]:
                n = z3.If(l < n, l, n)
            return n, tuple(elems)
        if isinstance(it, SymEnum):
            n, e = self._elem_at(it.inner, k, node)
            return n, (k + it.start, e)
        if isinstance(it, (list, tuple)):
            # concrete sequence inside a cut loop: index symbolically through an ite chain
            items = list(it)
            if not items:
                return z3.IntVal(0), None
            e = lift(items[-1])
            for j in range(len(items) - 2, -1, -1):
                e = z3.If(k == j, lift(items[j]), e)
            return z3.IntVal(len(items)), e
        raise Unsupported("cut loop over unsupported iterable", node)

    def _cut_loop(self, s, env, lid, it):
        ctx = self.ctx
        spec: LoopSpec = self.loops[lid]
        is_for = isinstance(s, ast.For)
        label = f"loop{lid}@{s.lineno}"
        # 1. invariant holds on entry
        ctx.oblige("inv-init", label, spec.inv(ctx, env, z3.IntVal(0)))
        which = ctx.choose(2, label)  # 0: an arbitrary iteration, 1: exit
        # 2. havoc
        spec.havoc(ctx, env)
        if it is not None and isinstance(it, (SymList, SymMap)) and it in spec.havoc_objs(ctx, env):
            raise Unsupported("loop modifies the collection it iterates", s)
        k = ctx.fresh("k", z3.IntSort())
        ctx.assume(k >= 0)
        ctx.assume(spec.inv(ctx, env, k))
        if is_for:
            n, elem = self._elem_at(it, k, s)
        if which == 0:
            if is_for:
                ctx.assume(k < n)
                self.assign(s.target, elem, env)
            else:
                c = self.eval_truth(s.test, env)
                ctx.assume(c)
            before_vars = dict(env.vars)
            mark = len(ctx.mutlog)
            allowed = {id(o) for o in spec.havoc_objs(ctx, env)}
            try:
                self.exec_block(s.body, env)
            except ContinueSignal:
                pass
            except BreakSignal:
                self._frame_check(spec, env, before_vars, mark, allowed, s)
                return  # continue after the loop, no else
            self._frame_check(spec, env, before_vars, mark, allowed, s)
            ctx.oblige("inv-step", label, spec.inv(ctx, env, k + 1))
            raise PathEnd()
        else:
            if is_for:
                ctx.assume(k == n)
            else:
                c = self.eval_truth(s.test, env)
                ctx.assume(Not(c))
            self.exec_block(s.orelse, env)

    def _frame_check(self, spec, env, before_vars, mark, allowed, node):
        loop_target = set()
        if isinstance(node, ast.For):
            loop_target = {n.id for n in ast.walk(node.target) if isinstance(n, ast.Name)}
        for name, v in env.vars.items():
            if name.startswith("$"):
                continue
            if name in loop_target or name in spec.havoc_vars:
                continue
            if name not in before_vars:
                continue  # loop-local variable; using it after the loop is the contract's concern (declare it in havoc_vars)
            if before_vars[name] is not v and not _same_value(before_vars[name], v):
                raise Unsupported(f"loop modifies variable {name!r} that its LoopSpec does not havoc", node)
        for obj in self.ctx.mutlog[mark:]:
            if id(obj) not in allowed:
                raise Unsupported(f"loop mutates object {getattr(obj, 'name', obj)!r} that its LoopSpec does not havoc", node)

    # ---------------------------------------------------------------- expressions
    def eval(self, e, env):
        key = None
        if isinstance(e, (ast.Attribute, ast.Name)):
            key = ast.unparse(e)
            if key in self.consts:
                return self.consts[key]
        m = getattr(self, "ex_" + type(e).__name__, None)
        if m is None:
            raise Unsupported(f"expression {type(e).__name__}", e)
        return m(e, env)

    def ex_Constant(self, e, env):
        return e.value

    def ex_Name(self, e, env):
        if env.has(e.id):
            return env.lookup(e.id)
        if e.id in self.calls:
            return Fn(self.calls[e.id], e.id)
        if e.id in self.ctx.classes.bases:
            return ClassRef(e.id)
        if e.id in ("int", "float", "str", "bool", "list", "dict", "tuple", "set", "type", "object"):
            return ClassRef(e.id)
        resolver = getattr(self, "module_resolver", None)
        if resolver is not None:
            # a helper function defined at the top level of the unit's own module (or imported by it from a sibling module of the package) that the contract
            # does not model: its *real body* is interpreted (a refactoring that extracts a helper stays verifiable; a change hidden in a new helper is seen)
            c = resolver(e.id)
            if c is not None:
                return c
        raise Unsupported(f"unknown name {e.id!r}", e)

    def ex_Tuple(self, e, env):
        return tuple(self.eval(x, env) for x in e.elts)

    def ex_List(self, e, env):
        return [self.eval(x, env) for x in e.elts]

    def ex_Set(self, e, env):
        vals = []
        for x in e.elts:
            if isinstance(x, ast.Starred):  # {*a, b}: the elements of a (a concrete collection), then b
                inner = self.eval(x.value, env)
                if not isinstance(inner, (set, frozenset, list, tuple)):
                    raise Unsupported("*x in a set display of a non-concrete collection", e)
                vals.extend(sorted(inner, key=repr) if isinstance(inner, (set, frozenset)) else inner)
            else:
                vals.append(self.eval(x, env))
        if all(is_concrete(v) for v in vals):
            try:
                return set(vals)
            except TypeError:
                pass
        return tuple(vals)  # used only for membership

    def ex_Dict(self, e, env):
        d = {}
        for k, v in zip(e.keys, e.values):
            if k is None:
                inner = self.eval(v, env)
                if isinstance(inner, Rec) and "__kwargs__" in inner.methods:
                    inner = inner.methods["__kwargs__"](self.ctx, inner, (), {})
                if not isinstance(inner, dict):
                    raise Unsupported("** of non-concrete dict in dict display", e)
                d.update(inner)
            else:
                kk = self.eval(k, env)
                if not is_concrete(kk):
                    raise Unsupported("dict display with symbolic key", e)
                d[kk] = self.eval(v, env)
        return d

    def ex_JoinedStr(self, e, env):
        parts = []
        for v in e.values:
            if isinstance(v, ast.Constant):
                parts.append(v.value)
            else:
                try:
                    x = self.eval(v.value, env)
                except (Unsupported, BoundMethod):  # message text only: unconstrained
                    parts.append(self.ctx.fresh("fstr", z3.StringSort()))
                    continue
                if isinstance(x, str) and v.conversion == -1:
                    parts.append(x)
                elif is_z3(x) and x.sort() == z3.StringSort() and v.conversion == -1:
                    parts.append(x)
                elif isinstance(x, int) and not isinstance(x, bool) and v.conversion == -1 and v.format_spec is None:
                    parts.append(str(x))
                elif is_z3(x) and x.sort() == z3.IntSort() and v.conversion == -1 and v.format_spec is None:
                    parts.append(z3.If(x >= 0, z3.IntToStr(x), z3.Concat(z3.StringVal("-"), z3.IntToStr(-x))))  # same encoding as str(int)
                else:
                    parts.append(self.ctx.fresh("fstr", z3.StringSort()))  # message text: unconstrained
        if all(isinstance(p, str) for p in parts):
            return "".join(parts)
        return z3.Concat(*[lift(p) for p in parts]) if len(parts) > 1 else lift(parts[0])

    def ex_IfExp(self, e, env):
        c = self.eval_truth(e.test, env)
        if isinstance(c, bool):
            return self.eval(e.body if c else e.orelse, env)
        # both arms pure and of the same sort: one ite term, no fork
        if id(e) not in self.impure:
            _, a = self._under(c, lambda: self.eval(e.body, env), e)
            _, b = self._under(Not(c), lambda: self.eval(e.orelse, env), e)
            if _same_sort(a, b):
                return z3.If(c, lift(a), lift(b))
            self.impure.add(id(e))
            raise RestartPath()
        if self.ctx.branch(c, f"ifexp@{e.lineno}"):
            return self.eval(e.body, env)
        return self.eval(e.orelse, env)

    def ex_Lambda(self, e, env):
        return Closure(e, env, "<lambda>")

    def ex_UnaryOp(self, e, env):
        v = self.eval(e.operand, env)
        if isinstance(e.op, ast.Not):
            return Not(self.truth(v))  # (operand already evaluated in value context)
        if isinstance(e.op, ast.USub):
            return -v
        if isinstance(e.op, ast.UAdd):
            return v
        raise Unsupported("unary op", e)

    def _under(self, acc, thunk, node):
        """Evaluate an and/or operand that is only reached when `acc` holds.

        Pure operands are evaluated under the temporary hypothesis `acc` and merged into one term (no fork).  If the
        operand makes a decision or raises, the operand is marked impure and the path is re-run; an impure operand is
        preceded by a real branch on `acc`.  Returns (evaluated?, value)."""
        ctx = self.ctx
        if isinstance(acc, bool):
            return (True, thunk()) if acc else (False, None)
        if id(node) in self.impure:
            if not ctx.branch(acc, f"shortcircuit@{getattr(node, 'lineno', 0)}"):
                return False, None
            return True, thunk()
        c0 = ctx.cursor
        n_pc = len(ctx.pc)
        ctx.pc.append(acc)
        try:
            v = thunk()
        except RestartPath:
            raise
        except BaseException:
            self.impure.add(id(node))
            del ctx.trace[c0:]
            raise RestartPath()
        if ctx.cursor != c0:
            self.impure.add(id(node))
            del ctx.trace[c0:]
            raise RestartPath()
        del ctx.pc[n_pc:n_pc + 1]
        return True, v

    def eval_truth(self, e, env):
        """Truth value of an expression in a boolean context: and/or/not over pure operands become one term."""
        if isinstance(e, ast.BoolOp):
            is_and = isinstance(e.op, ast.And)
            acc = True
            parts = []
            for operand in e.values:
                done, t = self._under(acc, lambda: self.eval_truth(operand, env), operand)
                if not done:
                    break
                parts.append(t)
                if isinstance(t, bool):
                    if t != is_and:
                        break
                    continue
                acc = And(acc, t if is_and else Not(t))
            return And(*parts) if is_and else Or(*parts)
        if isinstance(e, ast.UnaryOp) and isinstance(e.op, ast.Not):
            return Not(self.eval_truth(e.operand, env))
        return self.truth(self.eval(e, env))

    def ex_BoolOp(self, e, env):
        """and/or in a value context: no fork when every operand is pure and the sorts agree (DESIGN 2.4)."""
        is_and = isinstance(e.op, ast.And)
        vals = []
        acc = True
        for i, operand in enumerate(e.values):
            done, v = self._under(acc, lambda: self.eval(operand, env), operand)
            if not done:
                break
            t = self.truth(v)
            vals.append((v, t))
            if isinstance(t, bool):
                if t != is_and:
                    break
                continue
            acc = And(acc, t if is_and else Not(t))
        if all(_is_boolish(v) for v, _ in vals):
            ts = [t for _, t in vals]
            return And(*ts) if is_and else Or(*ts)
        # value-returning and/or: the result is the first operand that short-circuits, else the last one evaluated
        live = [(v, t) for v, t in vals[:-1] if not isinstance(t, bool)]
        res = vals[-1][0]
        for v, t in reversed(live):
            stop_here = Not(t) if is_and else t
            if _same_sort(v, res):
                res = z3.If(stop_here, lift(v), lift(res))
            elif self.ctx.branch(stop_here, f"boolop@{e.lineno}"):
                return v
        return res

    def ex_Compare(self, e, env):
        left = self.eval(e.left, env)
        res = True
        for op, right_e in zip(e.ops, e.comparators):
            right = self.eval(right_e, env)
            res = And(res, self.compare(op, left, right, e))
            left = right
        return res

    def compare(self, op, a, b, node):
        if isinstance(op, (ast.Is, ast.IsNot)):
            r = self.identical(a, b, node)
            return r if isinstance(op, ast.Is) else Not(r)
        if isinstance(op, (ast.Eq, ast.NotEq)):
            r = self.equal(a, b, node)
            return r if isinstance(op, ast.Eq) else Not(r)
        if isinstance(op, (ast.In, ast.NotIn)):
            r = self.contains(b, a, node)
            return r if isinstance(op, ast.In) else Not(r)
        if is_concrete(a) and is_concrete(b):
            return {ast.Lt: lambda: a < b, ast.LtE: lambda: a <= b, ast.Gt: lambda: a > b, ast.GtE: lambda: a >= b}[type(op)]()
        a, b = lift(a), lift(b)
        if z3.is_fp(a) or z3.is_fp(b):
            a, b = _to_fp(a), _to_fp(b)
            return {ast.Lt: z3.fpLT, ast.LtE: z3.fpLEQ, ast.Gt: z3.fpGT, ast.GtE: z3.fpGEQ}[type(op)](a, b)
        if a.sort() == z3.StringSort():
            return {ast.Lt: lambda: a < b, ast.LtE: lambda: a <= b, ast.Gt: lambda: b < a, ast.GtE: lambda: b <= a}[type(op)]()
        return {ast.Lt: lambda: a < b, ast.LtE: lambda: a <= b, ast.Gt: lambda: a > b, ast.GtE: lambda: a >= b}[type(op)]()

    def identical(self, a, b, node):
        if a is None or b is None:
            return a is None and b is None
        if isinstance(a, bool) and isinstance(b, bool):
            return a == b
        if is_z3(a) or is_z3(b):
            if isinstance(a, bool) or isinstance(b, bool) or (is_z3(a) and is_z3(b) and a.sort() == z3.BoolSort() == b.sort()):
                la, lb = lift(a), lift(b)
                if la.sort() != lb.sort():
                    return False  # `x is True` for a symbolic value of another type (a str, an int): never the bool object
                return la == lb
            if isinstance(a, (Rec, SymList, SymMap, list, dict, ClassRef)) or isinstance(b, (Rec, SymList, SymMap, list, dict, ClassRef)):
                return False
            if is_z3(a) and is_z3(b) and a.sort() == b.sort() and a.sort().kind() == z3.Z3_UNINTERPRETED_SORT:
                return a == b
            raise Unsupported("identity test on symbolic scalar", node)
        if isinstance(a, ClassRef) and isinstance(b, ClassRef):
            return a.name == b.name
        return a is b

    def equal(self, a, b, node):
        if a is None or b is None:
            return a is None and b is None
        if isinstance(a, ClassRef) or isinstance(b, ClassRef):
            return isinstance(a, ClassRef) and isinstance(b, ClassRef) and a.name == b.name
        if is_concrete(a) and is_concrete(b) and not isinstance(a, Rec) and not isinstance(b, Rec):
            return a == b
        if isinstance(a, (tuple, list)) and isinstance(b, (tuple, list)):
            if type(a) != type(b) or len(a) != len(b):
                return False
            return And(*[self.equal(x, y, node) for x, y in zip(a, b)])
        if isinstance(a, dict) or isinstance(b, dict):
            # dict == dict: same key set and equal values (order is irrelevant); a dict never equals a non-dict (records aside)
            if isinstance(a, dict) and isinstance(b, dict):
                if any(not is_concrete(k) for k in list(a) + list(b)):
                    raise Unsupported("== on dicts with symbolic keys", node)
                if set(a) != set(b):
                    return False
                return And(*[self.equal(a[k], b[k], node) for k in a])
            if not isinstance(a, Rec) and not isinstance(b, Rec):
                return False
        if isinstance(a, Rec) or isinstance(b, Rec):
            r = a if isinstance(a, Rec) else b
            o = b if r is a else a
            if "__eq__" in r.methods:
                return r.methods["__eq__"](self.ctx, r, (o,), {})
            return a is b
        if isinstance(a, (SymList, SymMap)) or isinstance(b, (SymList, SymMap)):
            raise Unsupported("== on symbolic container", node)
        if isinstance(a, CharBag) and isinstance(b, CharBag):
            # two strings known only as multisets of characters: the same object is equal to itself; otherwise equality is an unknown that implies equal counts
            if a is b:
                return True
            eq = self.ctx.fresh("mode-strings-equal", z3.BoolSort())
            if a.alphabet is not None and a.alphabet == b.alphabet:
                self.ctx.assume(z3.Implies(eq, z3.And(a.other == b.other, *[a.counters[c] == b.counters[c] for c in a.alphabet])))
            return eq
        try:
            a, b = lift(a), lift(b)
        except Unsupported:
            return False
        if a.sort() != b.sort():
            bs, is_ = z3.BoolSort(), z3.IntSort()
            if {a.sort(), b.sort()} == {bs, is_}:  # bool is an int: True == 1, False == 0
                ai = z3.If(a, 1, 0) if a.sort() == bs else a
                bi = z3.If(b, 1, 0) if b.sort() == bs else b
                return ai == bi
            if z3.is_fp(a) or z3.is_fp(b):
                try:
                    return z3.fpEQ(_to_fp(a), _to_fp(b))
                except Unsupported:
                    return False
            return False
        if z3.is_fp(a):
            return z3.fpEQ(a, b)
        return a == b

    def contains(self, coll, x, node):
        if isinstance(coll, CharBag):
            if isinstance(x, str) and len(x) == 1:
                return coll.has(x)
            if is_z3(x) and x.sort() == z3.StringSort():
                return z3.And(z3.Length(x) == 1, coll.has(x))
            raise Unsupported("CharBag membership with non-char", node)
        if isinstance(coll, str) and isinstance(x, str):
            return x in coll
        if isinstance(coll, str) or (is_z3(coll) and coll.sort() == z3.StringSort()):
            return z3.Contains(lift(coll), lift(x))
        if isinstance(coll, (list, tuple, set, frozenset)):
            return Or(*[self.equal(x, y, node) for y in coll])
        if isinstance(coll, dict):
            return Or(*[self.equal(x, y, node) for y in coll.keys()])
        if isinstance(coll, SymMap):
            return coll.has(lift(x))
        if isinstance(coll, SymList):
            j = self.ctx.fresh("j", z3.IntSort())
            jj = z3.Int("j!in")
            return z3.Exists([jj], z3.And(0 <= jj, jj < coll.len, coll.arr[jj] == lift(x)))
        if isinstance(coll, Rec) and "__contains__" in coll.methods:
            return coll.methods["__contains__"](self.ctx, coll, (x,), {})
        raise Unsupported("membership test on unsupported collection", node)

    def truth(self, v):
        if v is None:
            return False
        if isinstance(v, (bool, int, float, str, tuple, list, dict, set, frozenset, range)):
            return bool(v)
        if is_z3(v):
            s = v.sort()
            if s == z3.BoolSort():
                return v
            if s == z3.IntSort():
                return v != 0
            if s == z3.StringSort():
                return z3.Length(v) > 0
            if z3.is_fp(v):
                return z3.Not(z3.fpIsZero(v))
            raise Unsupported(f"truth value of sort {s}")
        if isinstance(v, SymList):
            return v.len > 0
        if isinstance(v, Rec):
            if "__bool__" in v.methods:
                return v.methods["__bool__"](self.ctx, v, (), {})
            return v.truthy
        if isinstance(v, (Fn, Closure, ClassRef, ExcVal)):
            return True
        raise Unsupported(f"truth value of {type(v).__name__}")

    def ex_BinOp(self, e, env):
        return self.binop(e.op, self.eval(e.left, env), self.eval(e.right, env), e)

    _DUNDER = {ast.Add: "__add__", ast.Sub: "__sub__", ast.Mult: "__mul__", ast.BitOr: "__or__", ast.BitAnd: "__and__"}

    def binop(self, op, a, b, node):
        if isinstance(a, Rec) and self._DUNDER.get(type(op)) in a.methods:
            return a.methods[self._DUNDER[type(op)]](self.ctx, a, (b,), {})
        if is_concrete(a) and is_concrete(b) and not isinstance(a, Rec) and not isinstance(b, Rec):
            try:
                return {
                    ast.Add: lambda: a + b, ast.Sub: lambda: a - b, ast.Mult: lambda: a * b, ast.Mod: lambda: a % b,
                    ast.FloorDiv: lambda: a // b, ast.BitOr: lambda: a | b, ast.BitAnd: lambda: a & b,
                }[type(op)]()
            except KeyError:
                raise Unsupported(f"binary operator {type(op).__name__}", node)
        if isinstance(op, ast.Add):
            if isinstance(a, list) and isinstance(b, list):
                return a + b
            if isinstance(a, (list, SymList)) and isinstance(b, (list, SymList)):
                return self.list_concat(a, b, node)
            a, b = lift(a), lift(b)
            if a.sort() == z3.StringSort():
                return z3.Concat(a, b)
            return a + b
        if isinstance(op, ast.Sub):
            return lift(a) - lift(b)
        if isinstance(op, ast.Mult):
            if isinstance(a, list) and len(a) == 1 and not isinstance(b, list):
                # [x] * n  -> constant list of symbolic length
                n = lift(b)
                x = lift(a[0])
                lst = SymList(self.ctx, "rep", x.sort(), length=z3.If(n < 0, z3.IntVal(0), n), arr=z3.K(z3.IntSort(), x))
                return lst
            return lift(a) * lift(b)
        raise Unsupported(f"binary operator {type(op).__name__} on symbolic values", node)

    def list_concat(self, a, b, node):
        ctx = self.ctx
        la, lb = self._as_symlist(a, b), self._as_symlist(b, a)
        res = SymList(ctx, "cat", la.esort, length=la.len + lb.len)
        i = z3.Int("i!cat")
        ctx.assume(z3.ForAll([i], z3.Implies(z3.And(0 <= i, i < la.len), res.arr[i] == la.arr[i]), patterns=[res.arr[i]]))
        ctx.assume(z3.ForAll([i], z3.Implies(z3.And(0 <= i, i < lb.len), res.arr[la.len + i] == lb.arr[i]), patterns=[lb.arr[i]]))
        return res

    def _as_symlist(self, a, other):
        if isinstance(a, SymList):
            return a
        esort = other.esort if isinstance(other, SymList) else lift(a[0]).sort()
        arr = z3.K(z3.IntSort(), _default_of(esort))
        for j, x in enumerate(a):
            arr = z3.Store(arr, j, lift(x))
        return SymList(self.ctx, "lit", esort, length=z3.IntVal(len(a)), arr=arr)

    def ex_Subscript(self, e, env):
        obj = self.eval(e.value, env)
        if isinstance(e.slice, ast.Slice):
            lo = self.eval(e.slice.lower, env) if e.slice.lower is not None else None
            hi = self.eval(e.slice.upper, env) if e.slice.upper is not None else None
            if e.slice.step is not None:
                raise Unsupported("slice step", e)
            return self.slice(obj, lo, hi, e)
        idx = self.eval(e.slice, env)
        return self.load_item(obj, idx, e)

    def slice(self, obj, lo, hi, node):
        if is_concrete(obj) and is_concrete(lo) and is_concrete(hi) and isinstance(obj, (str, list, tuple)):
            return obj[lo:hi]
        if isinstance(obj, (list, tuple)) and (lo is None or isinstance(lo, int)) and (hi is None or isinstance(hi, int)):
            return obj[lo:hi]  # a concrete sequence of (possibly symbolic) elements, concrete bounds
        if isinstance(obj, str) or (is_z3(obj) and obj.sort() == z3.StringSort()):
            s = lift(obj)
            n = z3.Length(s)
            lo_t = z3.IntVal(0) if lo is None else lift(lo)
            hi_t = n if hi is None else lift(hi)
            # Python semantics for non-negative bounds; negative bounds are normalised
            lo_t = z3.If(lo_t < 0, z3.If(lo_t + n < 0, 0, lo_t + n), z3.If(lo_t > n, n, lo_t))
            hi_t = z3.If(hi_t < 0, z3.If(hi_t + n < 0, 0, hi_t + n), z3.If(hi_t > n, n, hi_t))
            return z3.SubString(s, lo_t, z3.If(hi_t - lo_t < 0, 0, hi_t - lo_t))
        raise Unsupported("slice of unsupported value", node)

    def load_item(self, obj, idx, node):
        ctx = self.ctx
        if isinstance(obj, SymList):
            i = lift(idx)
            ctx.oblige("safety", f"index-in-range@{node.lineno}", z3.And(0 <= i, i < obj.len))
            return obj.get(i)
        if isinstance(obj, SymMap):
            return obj.get(lift(idx))
        if isinstance(obj, (list, tuple, str)) and isinstance(idx, int):
            try:
                return obj[idx]
            except IndexError:
                raise PyRaise(ExcVal("IndexError", origin=f"index@{node.lineno}"))
        if isinstance(obj, (list, tuple)) and is_z3(idx):
            n, elem = self._elem_at(obj, idx, node)
            ctx.oblige("safety", f"index-in-range@{node.lineno}", z3.And(0 <= idx, idx < n))
            return elem
        if isinstance(obj, dict) and is_concrete(idx):
            if idx in obj or hasattr(type(obj), "__missing__"):
                return obj[idx]
            raise PyRaise(ExcVal("KeyError", (idx,), origin=f"key@{node.lineno}"))
        if isinstance(obj, Rec) and "__getitem__" in obj.methods:
            return obj.methods["__getitem__"](ctx, obj, (idx,), {})
        if is_z3(obj) and obj.sort() == z3.StringSort():
            i = lift(idx)
            return z3.SubString(obj, z3.If(i < 0, i + z3.Length(obj), i), 1)
        raise Unsupported("subscript load", node)

    def ex_Attribute(self, e, env):
        obj = self.eval(e.value, env)
        return self.getattr(obj, e.attr, e)

    def getattr(self, obj, attr, node):
        if isinstance(obj, Rec):
            if attr in obj.attrs:
                return obj.attrs[attr]
            if attr in obj.methods:
                m = obj.methods[attr]
                return Fn(lambda ctx, args, kwargs, _m=m, _o=obj: _m(ctx, _o, args, kwargs), f"{obj.cls}.{attr}")
            if "__getattr__" in obj.methods:
                return obj.methods["__getattr__"](self.ctx, obj, (attr,), {})
            raise Unsupported(f"attribute {attr!r} of {obj.cls} not modelled", node)
        if obj is None and (not attr.startswith("__") or attr == "__dict__"):
            raise PyRaise(ExcVal("AttributeError", (f"'NoneType' object has no attribute {attr!r}",), origin=f"None.{attr}@{getattr(node, 'lineno', 0)}"))
        if isinstance(obj, ExcVal):
            if attr == "args":
                return obj.args
            if attr in obj.attrs:
                return obj.attrs[attr]
            raise Unsupported(f"attribute {attr!r} of exception", node)
        h = self.hooks.get("getattr")
        if h is not None:
            r = h(self.ctx, obj, attr)
            if r is not NotImplemented:
                return r
        if attr == "__class__" and (obj is None or type(obj) in (dict, list, tuple, str, int, float, bool, set, frozenset)):
            return ClassRef(type(obj).__name__)  # the class of a concrete built-in value
        raise BoundMethod(obj, attr)

    def _eval_args(self, call, env):
        args = []
        for a in call.args:
            if isinstance(a, ast.Starred):
                v = self.eval(a.value, env)
                if not isinstance(v, (list, tuple)):
                    raise Unsupported("*args of non-concrete sequence", call)
                args.extend(v)
            else:
                args.append(self.eval(a, env))
        kwargs = {}
        for k in call.keywords:
            if k.arg is None:
                v = self.eval(k.value, env)
                if isinstance(v, dict):
                    kwargs.update(v)
                elif isinstance(v, Rec) and "__kwargs__" in v.methods:
                    kwargs["**"] = v
                else:
                    raise Unsupported("**kwargs of non-concrete dict", call)
            else:
                kwargs[k.arg] = self.eval(k.value, env)
        return tuple(args), kwargs

    def ex_Call(self, e, env):
        key = ast.unparse(e.func)
        if key in self.drop:
            return None
        if key in self.calls:
            args, kwargs = self._eval_args(e, env)
            return self.calls[key](self.ctx, args, kwargs)
        if key in PURE_TEXT_FUNCTIONS:
            # pure functions of texts from the standard library, evaluated by CPython when every argument is a concrete string (symbolic arguments: no contract)
            args, kwargs = self._eval_args(e, env)
            if not kwargs and args and all(isinstance(a, str) for a in args):
                return PURE_TEXT_FUNCTIONS[key](*args)
            raise Unsupported(f"call of {key} on symbolic text has no contract", e)
        # generator / comprehension arguments of all/any
        if key in ("all", "any") and len(e.args) == 1 and isinstance(e.args[0], (ast.GeneratorExp, ast.ListComp)):
            return self.all_any(key, e.args[0], env)
        # method call on a value
        if isinstance(e.func, ast.Attribute):
            try:
                fval = self.eval(e.func, env)
            except BoundMethod as bm:
                args, kwargs = self._eval_args(e, env)
                return self.method(bm.obj, bm.attr, args, kwargs, e)
        else:
            fval = self.eval(e.func, env)
        args, kwargs = self._eval_args(e, env)
        return self.call_value(fval, args, kwargs, e, key)

    def call_value(self, fval, args, kwargs, node, key=""):
        if isinstance(fval, Fn):
            return fval.fn(self.ctx, args, kwargs)
        if isinstance(fval, Closure):
            return self.call_closure(fval, args, kwargs, node)
        if isinstance(fval, ClassRef):
            return self.call_class(fval, args, kwargs, node)
        if isinstance(fval, BuiltinFn):
            return fval.fn(self, args, kwargs, node)
        if isinstance(fval, Rec) and "__call__" in fval.methods:
            return fval.methods["__call__"](self.ctx, fval, args, kwargs)
        if self.symcall is not None:
            r = self.symcall(self.ctx, fval, args, kwargs)
            if r is not NotImplemented:
                return r
        raise Unsupported(f"call of {key or fval!r} has no contract", node)

    def call_class(self, c: ClassRef, args, kwargs, node):
        if c.name in self.calls:
            return self.calls[c.name](self.ctx, args, kwargs)
        if self.ctx.classes.is_subclass(c.name, "BaseException"):
            return ExcVal(c.name, tuple(args))
        b = BUILTINS.get(c.name)
        if b is not None:
            return b.fn(self, args, kwargs, node)
        raise Unsupported(f"instantiation of class {c.name}", node)

    def call_closure(self, c: Closure, args, kwargs, node):
        fn = c.node
        env = Env(parent=c.env)
        a = fn.args
        params = [p.arg for p in a.posonlyargs + a.args]
        defaults = [None] * (len(params) - len(a.defaults)) + list(a.defaults)
        if len(args) > len(params) and a.vararg is None:
            raise Unsupported("too many positional arguments", node)
        for i, p in enumerate(params):
            if i < len(args):
                env.set(p, args[i])
            elif p in kwargs:
                env.set(p, kwargs.pop(p))
            elif defaults[i] is not None:
                env.set(p, self.eval(defaults[i], c.env))
            else:
                raise Unsupported(f"missing argument {p}", node)
        if a.vararg is not None:
            env.set(a.vararg.arg, tuple(args[len(params):]))
        for p, d in zip(a.kwonlyargs, a.kw_defaults):
            if p.arg in kwargs:
                env.set(p.arg, kwargs.pop(p.arg))
            elif d is not None:
                env.set(p.arg, self.eval(d, c.env))
            else:
                raise Unsupported(f"missing kw-only argument {p.arg}", node)
        if a.kwarg is not None:
            env.set(a.kwarg.arg, dict(kwargs))
        elif kwargs:
            raise Unsupported("unexpected keyword arguments", node)
        if isinstance(fn, ast.Lambda):
            return self.eval(fn.body, env)
        try:
            self.exec_block(fn.body, env)
        except ReturnSignal as r:
            return r.value
        return None

    def all_any(self, which, gen, env):
        """all(<expr> for x in coll [if ...]) -> conjunction (concrete) or quantified formula (SymList)."""
        if len(gen.generators) != 1:
            raise Unsupported("nested generators", gen)
        g = gen.generators[0]
        it = self.eval(g.iter, env)
        if isinstance(it, (SymList, SymRange, SymZip, SymEnum)):
            j = z3.Int(f"j!{which}{gen.lineno}_{gen.col_offset}")
            n, elem = self._elem_at(it, j, gen)
            sub = Env(parent=env)
            self.assign(g.target, elem, sub)
            conds = [self.truth(self.eval(c, sub)) for c in g.ifs]
            body = self.truth(self.eval(gen.elt, sub))
            rng = z3.And(0 <= j, j < n)
            if which == "all":
                return z3.ForAll([j], zbool(Implies(And(rng, *conds), body)))
            return z3.Exists([j], zbool(And(rng, *conds, body)))
        seq = self._concrete_iter(it, gen)
        out = []
        for x in seq:
            sub = Env(parent=env)
            self.assign(g.target, x, sub)
            conds = [self.truth(self.eval(c, sub)) for c in g.ifs]
            body = self.truth(self.eval(gen.elt, sub))
            out.append(Implies(And(*conds), body) if which == "all" else And(*conds, body))
        return And(*out) if which == "all" else Or(*out)

    def ex_ListComp(self, e, env):
        g = e.generators[0]
        if len(e.generators) == 1:
            it = self.eval(g.iter, env)
            if isinstance(it, (SymList, SymRange, SymZip, SymEnum)):
                if g.ifs:
                    raise Unsupported("filtering comprehension over symbolic list", e)
                j = z3.Int(f"j!comp{e.lineno}_{e.col_offset}")
                n, elem = self._elem_at(it, j, e)
                sub = Env(parent=env)
                self.assign(g.target, elem, sub)
                n_pc = len(self.ctx.pc)
                self.ctx.pc.append(z3.And(0 <= j, j < n))  # obligations raised by the element expression hold for every j in range
                try:
                    body = lift(self.eval(e.elt, sub))
                finally:
                    del self.ctx.pc[n_pc:n_pc + 1]
                return SymList(self.ctx, "comp", body.sort(), length=n, arr=z3.Lambda([j], body))
        out = []
        self._comp_rec(e.generators, 0, env, lambda sub: out.append(self.eval(e.elt, sub)), e)
        return out

    def _comp_rec(self, gens, idx, env, emit, node):
        """Nested generators over concrete iterables (symbolic `if` conditions fork)."""
        if idx == len(gens):
            emit(env)
            return
        g = gens[idx]
        seq = self._concrete_iter(self.eval(g.iter, env), node)
        for x in seq:
            sub = Env(parent=env)
            self.assign(g.target, x, sub)
            keep = And(*[self.truth(self.eval(c, sub)) for c in g.ifs])
            if isinstance(keep, bool):
                if not keep:
                    continue
            elif not self.ctx.branch(keep, f"compif@{node.lineno}"):
                continue
            self._comp_rec(gens, idx + 1, sub, emit, node)

    def ex_GeneratorExp(self, e, env):
        return self.ex_ListComp(e, env)

    def ex_SetComp(self, e, env):
        return tuple(self.ex_ListComp(e, env))

    def ex_DictComp(self, e, env):
        out = {}

        def emit(sub):
            k = self.eval(e.key, sub)
            if is_z3(k):
                out[_dkey(k)] = self.eval(e.value, sub)  # as for d[k] = v: a symbolic key is a new entry unless the very same term was used before
                return
            if not is_concrete(k):
                raise Unsupported("dict comprehension with symbolic key", e)
            out[k] = self.eval(e.value, sub)

        self._comp_rec(e.generators, 0, env, emit, e)
        return out

    def ex_Yield(self, e, env):
        """@contextmanager units: the with-body is an arbitrary effect that returns or throws."""
        v = self.eval(e.value, env) if e.value is not None else None
        if self.hooks.get("generator"):
            # a generator function (not a context manager): the yielded values are the result, nothing is thrown in
            self.ctx.event("yield", v)
            return None
        h = self.hooks.get("yield")
        if h:
            h(self.ctx, self, v, env)
        self.ctx.event("yield", v)
        if self.ctx.choose(2, f"yield@{e.lineno}") == 1:
            raise PyRaise(ExcVal("<Any>", origin=f"thrown-into-yield@{e.lineno}"))
        return None

    # ---------------------------------------------------------------- methods of built-in values
    def method(self, obj, name, args, kwargs, node):
        ctx = self.ctx
        if isinstance(obj, CharBag):
            if name == "count" and (isinstance(args[0], str) and len(args[0]) == 1):
                return obj.count(args[0])
            raise Unsupported(f"CharBag method {name}", node)
        if isinstance(obj, SymList):
            if name == "append":
                return obj.append(lift(args[0]))
            if name == "insert" and args[0] == 0:
                return obj.insert0(lift(args[1]))
            if name == "copy":
                return SymList(ctx, obj.name + ".copy", obj.esort, length=obj.len, arr=obj.arr)
            if name == "index" and len(args) == 1:
                x = lift(args[0])
                jj = z3.Int("j!idx")
                present = z3.Exists([jj], z3.And(0 <= jj, jj < obj.len, obj.arr[jj] == x))
                if ctx.branch(present, f"index@{node.lineno}"):
                    i = ctx.fresh("idx", z3.IntSort())
                    ctx.assume(z3.And(0 <= i, i < obj.len, obj.arr[i] == x))
                    ctx.assume(z3.ForAll([jj], z3.Implies(z3.And(0 <= jj, jj < i), obj.arr[jj] != x), patterns=[obj.arr[jj]]))
                    return i
                raise PyRaise(ExcVal("ValueError", origin=f"list.index@{node.lineno}"))
            raise Unsupported(f"SymList method {name}", node)
        if isinstance(obj, SymMap):
            if name == "get":
                k = lift(args[0])
                d = args[1] if len(args) > 1 else None
                if ctx.branch(obj.has(k), f"mapget@{node.lineno}"):
                    return obj.get(k)
                return d
            raise Unsupported(f"SymMap method {name}", node)
        if isinstance(obj, list) and name == "sort":
            keyf = kwargs.get("key")
            keys = [self.call_value(keyf, (x,), {}, node) if keyf is not None else x for x in obj]
            if not all(is_concrete(k_) and not isinstance(k_, Rec) for k_ in keys):
                raise Unsupported("list.sort with symbolic keys", node)
            order = sorted(range(len(obj)), key=lambda i_: keys[i_], reverse=bool(kwargs.get("reverse", False)))
            obj[:] = [obj[i_] for i_ in order]
            ctx.mutated(obj)
            return None
        if isinstance(obj, list):
            if name in ("append", "insert", "extend", "pop", "remove", "clear", "reverse") and all(
                not is_z3(a) or name in ("append", "insert") for a in args
            ):
                if name == "insert" and not isinstance(args[0], int):
                    raise Unsupported("list.insert at symbolic index", node)
                if name == "pop" and not obj:
                    raise PyRaise(ExcVal("IndexError", origin=f"pop@{node.lineno}"))
                if name == "remove":
                    for i_, x_ in enumerate(obj):  # identity / concrete equality, as far as it can be decided
                        same = x_ is args[0] or (is_concrete(x_) and is_concrete(args[0]) and not isinstance(x_, Rec) and x_ == args[0])
                        if same:
                            del obj[i_]
                            ctx.mutated(obj)
                            return None
                    if all(isinstance(x_, Rec) or is_concrete(x_) for x_ in obj):
                        raise PyRaise(ExcVal("ValueError", origin=f"list.remove@{node.lineno}"))
                    raise Unsupported("list.remove with symbolic elements", node)
                r = getattr(obj, name)(*args)
                ctx.mutated(obj)
                return r
            if name == "index" and is_concrete(args[0]) and is_concrete(obj):
                try:
                    return obj.index(args[0])
                except ValueError:
                    raise PyRaise(ExcVal("ValueError", origin=f"index@{node.lineno}"))
            if name == "copy":
                return list(obj)
            raise Unsupported(f"list method {name} with symbolic arguments", node)
        if isinstance(obj, dict):
            if name == "keys":
                return [_undkey(k) for k in obj.keys()]
            if name == "items":
                return [(_undkey(k), v) for k, v in obj.items()]
            if name == "values":
                return list(obj.values())
            if name == "get":
                k = args[0]
                if is_concrete(k):
                    return obj.get(k, args[1] if len(args) > 1 else kwargs.get("default"))
            if name == "pop" and is_concrete(args[0]):
                if args[0] in obj:
                    ctx.mutated(obj)
                    return obj.pop(args[0])
                if len(args) > 1:
                    return args[1]
                raise PyRaise(ExcVal("KeyError", (args[0],), origin=f"pop@{node.lineno}"))
            if name == "update" and len(args) == 1 and isinstance(args[0], dict):
                obj.update(args[0])
                ctx.mutated(obj)
                return None
            if name == "copy":
                return dict(obj)
            if name == "setdefault" and is_concrete(args[0]):
                ctx.mutated(obj)
                return obj.setdefault(args[0], args[1] if len(args) > 1 else None)
            raise Unsupported(f"dict method {name}", node)
        if isinstance(obj, str) and name == "join" and len(args) == 1 and isinstance(args[0], (list, tuple)) and not is_concrete(args[0]):
            parts = []
            for i, x in enumerate(args[0]):
                if i:
                    parts.append(z3.StringVal(obj))
                parts.append(lift(x))
            return z3.Concat(*parts) if len(parts) > 1 else (parts[0] if parts else "")
        if isinstance(obj, str) and all(is_concrete(a) for a in args) and not kwargs:
            if name in STR_METHODS:
                return getattr(obj, name)(*args)
            raise Unsupported(f"str method {name}", node)
        if isinstance(obj, str) or (is_z3(obj) and obj.sort() == z3.StringSort()):
            return self.str_method(lift(obj), name, args, node)
        if isinstance(obj, (tuple, set, frozenset)) and is_concrete(obj) and all(is_concrete(a) for a in args):
            if name in ("count", "index", "union", "intersection", "difference", "issubset"):
                return getattr(obj, name)(*args)
        if isinstance(obj, set) and name in ("add", "discard", "remove", "update", "copy", "clear", "pop", "difference_update", "intersection_update", "symmetric_difference_update") and all((is_concrete(a) and not isinstance(a, (Rec, list, dict))) or (isinstance(a, Rec) and "__eq__" not in a.methods and "__hash__" not in a.methods) for a in args if not isinstance(a, (set, frozenset, list, tuple))):
            # a concrete set of hashable concrete values (strings, numbers, tuples of them; records without __eq__/__hash__: identity): CPython's own set
            try:
                r = getattr(obj, name)(*args)
            except KeyError:
                raise PyRaise(ExcVal("KeyError", tuple(args), origin=f"set.{name}@{node.lineno}"))
            ctx.mutated(obj)
            return r
        if isinstance(obj, ClassRef):
            k = f"{obj.name}.{name}"
            if k in self.calls:
                return self.calls[k](ctx, args, kwargs)
        raise Unsupported(f"method {name} on {type(obj).__name__}", node)

    SPLIT_MAX = 4

    def str_method(self, s, name, args, node):
        a = [lift(x) if isinstance(x, (str, int)) or is_z3(x) else x for x in args]
        if name == "startswith" and len(a) == 1:
            if isinstance(args[0], tuple):
                return Or(*[z3.PrefixOf(lift(x), s) for x in args[0]])
            return z3.PrefixOf(a[0], s)
        if name == "endswith" and len(a) == 1:
            if isinstance(args[0], tuple):
                return Or(*[z3.SuffixOf(lift(x), s) for x in args[0]])
            return z3.SuffixOf(a[0], s)
        if name == "find" and len(a) == 1:
            return z3.IndexOf(s, a[0], 0)
        if name == "rfind" and len(a) == 1:
            return z3.LastIndexOf(s, a[0])
        if name == "replace" and len(a) == 2:
            return _replace_all(s, a[0], a[1])
        if name == "replace" and len(a) == 3 and isinstance(args[2], int) and 0 <= args[2] <= 4 and isinstance(args[0], str) and args[0] and args[1] == "":
            # replace(old, "", n): removing the first occurrence n times equals removing the first n occurrences
            out = s
            for _ in range(args[2]):
                out = z3.Replace(out, a[0], a[1])
            return out
        if name == "strip" and not a:
            # str.strip(): an uninterpreted function of the string with the facts that hold for every string (no claim about which characters
            # count as white space): the result is a substring, the empty string strips to itself, a string without a leading/trailing
            # space-like ASCII character is its own strip
            f = z3.Function("py.str.strip", z3.StringSort(), z3.StringSort())
            r = f(s)
            ws = z3.Union(*[z3.Re(c) for c in (" ", "\t", "\n", "\r", "\x0b", "\x0c")])
            self.ctx.assume(z3.Contains(s, r))
            self.ctx.assume(z3.Implies(s == z3.StringVal(""), r == z3.StringVal("")))
            self.ctx.assume(z3.Implies(z3.InRe(s, z3.Star(ws)), r == z3.StringVal("")))
            return r
        if name in ("split", "rsplit") and 1 <= len(args) <= 2 and isinstance(args[0], str) and args[0] and (len(args) == 1 or (isinstance(args[1], int) and args[1] >= 0)):
            # exact semantics of str.split(sep[, maxsplit]) / str.rsplit(sep, maxsplit) for a concrete non-empty separator: the path forks on
            # "the separator occurs in what is left"; each fork cuts at the first (split) / last (rsplit) occurrence. The number of parts is
            # unbounded without maxsplit: a path that needs more than SPLIT_MAX cuts is undecided (never accepted).
            sep, n_sep = z3.StringVal(args[0]), len(args[0])
            limit = args[1] if len(args) == 2 else None
            if name == "rsplit" and limit is None:
                raise Unsupported("str.rsplit without maxsplit on symbolic string", node)
            parts, rest, cuts = [], s, 0
            while limit is None or cuts < limit:
                if getattr(self.ctx, "split_limit", None) is not None and cuts >= self.ctx.split_limit:
                    # the unit's stated precondition "at most split_limit separators" (set by its setup), imposed as a hypothesis
                    self.ctx.assume(z3.Not(z3.Contains(rest, sep)))
                    break
                if not self.ctx.branch(z3.Contains(rest, sep), f"{name}:separator-occurs#{cuts}"):
                    break
                if cuts >= self.SPLIT_MAX:
                    raise Unsupported(f"str.{name}: more than {self.SPLIT_MAX} cuts on a symbolic string", node)
                # the cut, characterised without IndexOf (unique decomposition; far easier for both solvers): rest == a + sep + b with the
                # separator not occurring in a-plus-the-separator's-proper-prefix (split: first occurrence) / in b (rsplit: last occurrence)
                a_, b_ = self.ctx.fresh(f"{name}.head", z3.StringSort()), self.ctx.fresh(f"{name}.tail", z3.StringSort())
                self.ctx.assume(rest == z3.Concat(a_, sep, b_))
                if name == "split":
                    self.ctx.assume(z3.Not(z3.Contains(z3.Concat(a_, z3.StringVal(args[0][:-1])), sep)))
                    parts.append(a_)
                    rest = b_
                else:
                    self.ctx.assume(z3.Not(z3.Contains(z3.Concat(z3.StringVal(args[0][1:]), b_), sep)))
                    parts.insert(0, b_)
                    rest = a_
                cuts += 1
            return parts + [rest] if name == "split" else [rest] + parts
        if name == "isdigit" and not a:
            # ASCII model (assumption A2)
            return z3.InRe(s, z3.Plus(z3.Range("0", "9")))
        if name == "lower" and not a and hasattr(z3, "StrToLower"):
            raise Unsupported("str.lower on symbolic string", node)
        raise Unsupported(f"str method {name} on symbolic string", node)


STR_METHODS = {
    "startswith", "endswith", "find", "rfind", "replace", "split", "rsplit", "join", "strip", "lstrip", "rstrip", "lower", "upper",
    "count", "index", "isdigit", "isidentifier", "format", "partition", "rpartition", "title", "capitalize", "splitlines", "zfill",
}


def _replace_all(s, a, b):
    f = z3.Function("str.replace_all", z3.StringSort(), z3.StringSort(), z3.StringSort(), z3.StringSort())
    # z3py has no wrapper; build through the SMT-LIB name so that both z3 and cvc5 read the native operator
    return _mk_replace_all(s, a, b)


def _mk_replace_all(s, a, b):
    ctx = s.ctx
    try:
        return z3.SeqRef(z3.Z3_mk_seq_replace_all(ctx.ref(), s.as_ast(), a.as_ast(), b.as_ast()), ctx)
    except Exception:
        raise Unsupported("str.replace (all occurrences) not available in this z3")


import os as _os  # noqa: E402

PURE_TEXT_FUNCTIONS = {"os.path.splitext": _os.path.splitext, "os.path.basename": _os.path.basename, "os.path.dirname": _os.path.dirname, "os.path.join": _os.path.join,
                       "os.path.normpath": _os.path.normpath, "os.path.isabs": _os.path.isabs}


class BoundMethod(Exception):
    """Internal: attribute access on a non-record value (resolved by ex_Call as a method call)."""

    def __init__(self, obj, attr):
        self.obj = obj
        self.attr = attr


class SymRange:
    def __init__(self, n, start=0):
        self.n = n
        self.start = start


class SymZip:
    def __init__(self, parts):
        self.parts = parts


class SymEnum:
    def __init__(self, inner, start=0):
        self.inner = inner
        self.start = start


class BuiltinFn:
    def __init__(self, fn, name):
        self.fn = fn
        self.name = name


def _b_sum(interp, args, kwargs, node):
    """sum over a concrete sequence of numbers / truth values (symbolic items become an integer sum term)."""
    items = interp._concrete_iter(args[0], node)
    total = args[1] if len(args) > 1 else 0
    for x in items:
        if isinstance(x, (bool, int, float)) and isinstance(total, (int, float)):
            total = total + x
        elif is_z3(x) or is_z3(total):
            lx = lift(x)
            if lx.sort() == z3.BoolSort():
                lx = z3.If(lx, 1, 0)
            total = lift(total) + lx
        else:
            raise Unsupported("sum of unsupported items", node)
    return total


def _b_len(interp, args, kwargs, node):
    (x,) = args
    if isinstance(x, (str, list, tuple, dict, set, frozenset, range)):
        return len(x)
    if isinstance(x, SymList):
        return x.len
    if is_z3(x) and x.sort() == z3.StringSort():
        return z3.Length(x)
    if isinstance(x, Rec) and "__len__" in x.methods:
        return x.methods["__len__"](interp.ctx, x, (), {})
    raise Unsupported("len of unsupported value", node)


def _b_range(interp, args, kwargs, node):
    if all(isinstance(a, int) for a in args):
        return range(*args)
    if len(args) == 1:
        return SymRange(lift(args[0]))
    if len(args) == 2:
        return SymRange(lift(args[1]) - lift(args[0]), lift(args[0]))
    raise Unsupported("range with step on symbolic values", node)


def _b_isinstance(interp, args, kwargs, node):
    v, t = args
    ts = t if isinstance(t, tuple) else (t,)
    names = []
    for x in ts:
        if isinstance(x, Fn) and x.name in interp.ctx.classes.bases:
            x = ClassRef(x.name)  # a class whose constructor has a call model
        if not isinstance(x, ClassRef):
            raise Unsupported("isinstance with non-class", node)
        names.append(x.name)
    return Or(*[_isinstance1(interp, v, n, node) for n in names])


def _isinstance1(interp, v, n, node):
    if v is None:
        return n in ("NoneType", "object")
    if isinstance(v, bool):
        return n in ("bool", "int", "object")
    if isinstance(v, int):
        return n in ("int", "object")
    if isinstance(v, float):
        return n in ("float", "object")
    if isinstance(v, str):
        return n in ("str", "object", "Iterable", "Sequence", "Collection", "Container", "Sized")
    if isinstance(v, list) or isinstance(v, SymList):
        return n in ("list", "object", "Iterable", "Sequence", "MutableSequence", "Collection", "Container", "Sized")
    if isinstance(v, tuple):
        return n in ("tuple", "object", "Iterable", "Sequence", "Collection", "Container", "Sized")
    if isinstance(v, dict) or isinstance(v, SymMap):
        return n in ("dict", "object", "Iterable", "Mapping", "MutableMapping", "Collection", "Container", "Sized")
    if isinstance(v, (set, frozenset)):
        return n in ("set", "object", "Iterable", "Set", "AbstractSet", "Collection", "Container", "Sized")
    if isinstance(v, CharBag):
        return n in ("str", "object")
    if isinstance(v, ExcVal):
        return interp.ctx.classes.is_subclass(v.cls, n)
    if isinstance(v, Rec):
        if "__isinstance__" in v.methods:
            return v.methods["__isinstance__"](interp.ctx, v, (n,), {})
        return interp.ctx.classes.is_subclass(v.cls, n)
    if is_z3(v):
        s = v.sort()
        if s == z3.BoolSort():
            return n in ("bool", "int", "object")
        if s == z3.IntSort():
            return n in ("int", "object")
        if s == z3.StringSort():
            return n in ("str", "object", "Iterable", "Sequence", "Collection", "Container", "Sized")
        if z3.is_fp(v):
            return n in ("float", "object")
        h = interp.hooks.get("isinstance")
        if h:
            return h(interp.ctx, v, n)
    raise Unsupported(f"isinstance on {type(v).__name__}", node)


def _b_str(interp, args, kwargs, node):
    if not args:
        return ""
    (x,) = args
    if is_concrete(x) and not isinstance(x, (Rec, ExcVal)):
        return str(x)
    if is_z3(x) and x.sort() == z3.StringSort():
        return x
    if is_z3(x) and x.sort() == z3.IntSort():
        return z3.If(x >= 0, z3.IntToStr(x), z3.Concat(z3.StringVal("-"), z3.IntToStr(-x)))
    if isinstance(x, Rec) and "__str__" in x.methods:
        return x.methods["__str__"](interp.ctx, x, (), {})
    return interp.ctx.fresh("str", z3.StringSort())  # text of an arbitrary object: unconstrained


def _b_bool(interp, args, kwargs, node):
    return interp.truth(args[0]) if args else False


def _b_list(interp, args, kwargs, node):
    if not args:
        return []
    (x,) = args
    if isinstance(x, SymList):
        return SymList(interp.ctx, x.name + ".copy", x.esort, length=x.len, arr=x.arr)
    return list(interp._concrete_iter(x, node))


def _b_tuple(interp, args, kwargs, node):
    if not args:
        return ()
    return tuple(interp._concrete_iter(args[0], node))


def _b_set(interp, args, kwargs, node):
    if not args:
        return set()
    x = args[0]
    if is_concrete(x):
        return set(x)
    raise Unsupported("set() of symbolic value", node)


def _b_dict(interp, args, kwargs, node):
    d = {}
    if args:
        if isinstance(args[0], dict):
            d.update(args[0])
        else:
            raise Unsupported("dict() of non-dict", node)
    d.update(kwargs)
    return d


def _b_enumerate(interp, args, kwargs, node):
    x = args[0]
    start = args[1] if len(args) > 1 else kwargs.get("start", 0)
    if isinstance(x, (SymList, SymRange, SymZip)):
        return SymEnum(x, start)
    return [(i + start, v) for i, v in enumerate(interp._concrete_iter(x, node))]


def _b_zip(interp, args, kwargs, node):
    if any(isinstance(a, (SymList, SymRange)) for a in args):
        return SymZip(list(args))
    return list(zip(*[interp._concrete_iter(a, node) for a in args]))


def _b_all(interp, args, kwargs, node):
    (x,) = args
    if isinstance(x, SymList):
        j = z3.Int(f"j!all{node.lineno}")
        return z3.ForAll([j], z3.Implies(z3.And(0 <= j, j < x.len), zbool(interp.truth(x.get(j)))))
    return And(*[interp.truth(v) for v in interp._concrete_iter(x, node)])


def _b_any(interp, args, kwargs, node):
    (x,) = args
    if isinstance(x, SymList):
        j = z3.Int(f"j!any{node.lineno}")
        return z3.Exists([j], z3.And(0 <= j, j < x.len, zbool(interp.truth(x.get(j)))))
    return Or(*[interp.truth(v) for v in interp._concrete_iter(x, node)])


def _b_sorted(interp, args, kwargs, node):
    x = args[0]
    if is_concrete(x) and not kwargs:
        return sorted(x)
    if is_concrete(x) and set(kwargs) <= {"key", "reverse"} and isinstance(x, (list, tuple, set, frozenset)):
        base = list(x)
        if isinstance(x, (set, frozenset)):
            # a set iterates in an unspecified order and sorted() is stable: every iteration order is explored
            import itertools
            elems = sorted(x, key=repr)
            if len(elems) > 4:
                raise Unsupported("sorted(set, key=...) of more than 4 elements", node)
            perms = list(itertools.permutations(elems))
            base = list(perms[interp.ctx.choose(len(perms), f"set-iteration-order@{node.lineno}")]) if len(perms) > 1 else elems
        keys = [interp.call_value(kwargs["key"], (e,), {}, node) for e in base] if kwargs.get("key") is not None else base
        if not all(is_concrete(k) for k in keys) or not isinstance(kwargs.get("reverse", False), bool):
            raise Unsupported("sorted with a symbolic key", node)
        order = sorted(range(len(base)), key=lambda i: keys[i], reverse=kwargs.get("reverse", False))
        return [base[i] for i in order]
    raise Unsupported("sorted of symbolic value", node)


def _b_getattr(interp, args, kwargs, node):
    obj, name = args[0], args[1]
    if not isinstance(name, str):
        raise Unsupported("getattr with symbolic name", node)
    if isinstance(obj, Rec):
        if name in obj.attrs or name in obj.methods:
            return interp.getattr(obj, name, node)
        if "__getattr__" in obj.methods:
            try:
                return interp.getattr(obj, name, node)
            except PyRaise as pr:
                if len(args) > 2 and pr.exc.cls == "AttributeError":
                    return args[2]
                raise
        if len(args) > 2:
            return args[2]
        raise PyRaise(ExcVal("AttributeError", (name,), origin=f"getattr@{node.lineno}"))
    if isinstance(obj, ExcVal):
        if name in obj.attrs:
            return obj.attrs[name]
        if len(args) > 2:
            return args[2]
        raise PyRaise(ExcVal("AttributeError", (name,), origin=f"getattr@{node.lineno}"))
    if obj is None and len(args) > 2 and not name.startswith("__"):
        return args[2]
    if len(args) > 2 and type(obj) in (dict, list, tuple, str, set, frozenset) and not hasattr(obj, name):
        return args[2]  # concrete built-in container without that attribute (CPython's own answer): the default
    raise Unsupported("getattr on non-record", node)


def _b_hasattr(interp, args, kwargs, node):
    obj, name = args
    if isinstance(obj, Rec) and isinstance(name, str):
        if "__hasattr__" in obj.methods:
            return obj.methods["__hasattr__"](interp.ctx, obj, (name,), {})
        return name in obj.attrs or name in obj.methods
    if isinstance(name, str) and (obj is None or type(obj) in (dict, list, tuple, str, int, float, bool, set, frozenset)):
        return hasattr(obj, name)  # concrete built-in value: CPython's own answer
    raise Unsupported("hasattr on non-record", node)


def _b_setattr(interp, args, kwargs, node):
    obj, name, v = args
    if isinstance(obj, Rec) and isinstance(name, str):
        setter = obj.methods.get("__setattr__")
        if setter:
            setter(interp.ctx, obj, (name, v), {})
            return None
        obj.attrs[name] = v
        interp.ctx.mutated(obj)
        return None
    raise Unsupported("setattr on non-record", node)


def _b_delattr(interp, args, kwargs, node):
    obj, name = args
    if isinstance(obj, Rec) and isinstance(name, str):
        if name not in obj.attrs:
            raise PyRaise(ExcVal("AttributeError", (name,), origin=f"delattr@{node.lineno}"))
        del obj.attrs[name]
        interp.ctx.mutated(obj)
        return None
    raise Unsupported("delattr on non-record", node)


def _b_int(interp, args, kwargs, node):
    (x,) = args
    if isinstance(x, (bool, int)):
        return int(x)
    if isinstance(x, float):
        try:
            return int(x)
        except (ValueError, OverflowError) as ex:
            raise PyRaise(ExcVal(type(ex).__name__, origin=f"int@{node.lineno}"))
    if is_z3(x) and x.sort() == z3.IntSort():
        return x
    if is_z3(x) and x.sort() == z3.BoolSort():
        return z3.If(x, 1, 0)
    raise Unsupported("int() of this symbolic value needs a contract model", node)


def _b_type(interp, args, kwargs, node):
    (x,) = args
    for n, t in (("bool", bool), ("int", int), ("float", float), ("str", str), ("list", list), ("tuple", tuple), ("dict", dict)):
        if type(x) is t:
            return ClassRef(n)
    if x is None:
        return ClassRef("NoneType")
    if isinstance(x, Rec):
        return ClassRef(x.cls)
    if isinstance(x, ExcVal):
        return ClassRef(x.cls)
    if is_z3(x):
        srt = x.sort()
        for n, test in (("bool", srt == z3.BoolSort()), ("int", srt == z3.IntSort()), ("str", srt == z3.StringSort()), ("float", z3.is_fp(x))):
            if test:
                return ClassRef(n)
    raise Unsupported("type() of symbolic value", node)


def _b_next(interp, args, kwargs, node):
    it = args[0]
    if isinstance(it, (list, tuple)):  # generator expressions are evaluated eagerly into lists
        if it:
            return it[0]
        if len(args) > 1:
            return args[1]
        raise PyRaise(ExcVal("StopIteration", origin=f"next@{node.lineno}"))
    raise Unsupported("next() of a symbolic iterator", node)


def _b_min(interp, args, kwargs, node):
    if len(args) == 2:
        a, b = lift(args[0]), lift(args[1])
        return z3.If(b < a, b, a)
    raise Unsupported("min", node)


def _b_max(interp, args, kwargs, node):
    if len(args) == 2:
        a, b = lift(args[0]), lift(args[1])
        return z3.If(b > a, b, a)
    raise Unsupported("max", node)


def _b_reversed(interp, args, kwargs, node):
    x = args[0]
    if isinstance(x, (list, tuple, range, str)):
        return list(reversed(x))
    raise Unsupported("reversed() of a symbolic sequence", node)


def _b_vars(interp, args, kwargs, node):
    if len(args) == 1 and isinstance(args[0], Rec) and isinstance(args[0].attrs.get("__dict__"), dict):
        return args[0].attrs["__dict__"]
    if len(args) == 1 and isinstance(args[0], Rec) and "__dict__" not in args[0].attrs and "__getattr__" not in args[0].methods and "__setattr__" not in args[0].methods:
        return args[0].attrs  # a plain object record: its instance dictionary is its attribute table (a write through vars() is an attribute write)
    raise Unsupported("vars() of a value without a modelled __dict__", node)


BUILTINS = {
    n: BuiltinFn(f, n)
    for n, f in dict(
        len=_b_len, range=_b_range, isinstance=_b_isinstance, str=_b_str, bool=_b_bool, list=_b_list, tuple=_b_tuple,
        set=_b_set, dict=_b_dict, enumerate=_b_enumerate, zip=_b_zip, all=_b_all, any=_b_any, sorted=_b_sorted,
        getattr=_b_getattr, hasattr=_b_hasattr, setattr=_b_setattr, delattr=_b_delattr, int=_b_int, type=_b_type,
        min=_b_min, max=_b_max, next=_b_next, vars=_b_vars, reversed=_b_reversed, sum=_b_sum,
    ).items()
}

# names that resolve to builtins when not shadowed
_orig_ex_Name = Interp.ex_Name


def _ex_Name(self, e, env):
    if env.has(e.id):
        return env.lookup(e.id)
    if e.id in ("int", "float", "str", "bool", "list", "dict", "tuple", "set", "type"):
        return ClassRef(e.id)  # a builtin class stays a class (`typehint is float`); calling it consults the contract's model first
    if e.id in self.calls:
        return Fn(self.calls[e.id], e.id)
    if e.id in BUILTINS and e.id not in ("int", "str", "bool", "list", "dict", "tuple", "set", "type"):
        return BUILTINS[e.id]
    return _orig_ex_Name(self, e, env)


Interp.ex_Name = _ex_Name


def _as_load(t):
    t2 = ast.parse(ast.unparse(t), mode="eval").body
    return t2


def _is_boolish(v):
    return isinstance(v, bool) or (is_z3(v) and v.sort() == z3.BoolSort())


def _same_sort(a, b):
    try:
        return lift(a).sort() == lift(b).sort()
    except Unsupported:
        return False


def _same_value(a, b):
    if is_z3(a) and is_z3(b):
        return a.eq(b)
    try:
        return type(a) == type(b) and is_concrete(a) and is_concrete(b) and not isinstance(a, (Rec, list, dict)) and a == b
    except Exception:
        return False


def _to_fp(x):
    if z3.is_fp(x):
        return x
    if x.sort() == z3.IntSort():
        return z3.fpToFP(z3.RNE(), z3.ToReal(x), z3.Float64())
    raise Unsupported("float conversion of non-number")


def _default_of(sort):
    if sort == z3.IntSort():
        return z3.IntVal(0)
    if sort == z3.BoolSort():
        return z3.BoolVal(False)
    if sort == z3.StringSort():
        return z3.StringVal("")
    return z3.Const("dflt!" + str(sort), sort)
