"""Discharge obligations: one SMT query per obligation, z3 5.1 CLI first, cvc5 takes z3's unknowns (and vice versa
for string-heavy queries).  Subprocesses give hard time limits and isolation; 16 run in parallel."""
from __future__ import annotations

import os
import re
import subprocess
import tempfile
import time
from concurrent.futures import ThreadPoolExecutor
from typing import Dict, List, Optional

Z3 = os.environ.get("VERIF_Z3", "z3-new")
CVC5 = os.environ.get("VERIF_CVC5", "/usr/bin/cvc5")


def _run(cmd, inp, timeout):
    t = time.time()
    try:
        p = subprocess.run(cmd, input=inp, capture_output=True, text=True, timeout=timeout)
        out = p.stdout
        err = p.stderr
    except subprocess.TimeoutExpired:
        return "timeout", "", time.time() - t
    first = out.strip().splitlines()[0].strip() if out.strip() else ""
    if first in ("timeout",) or "interrupted by timeout" in (out + err):
        return "timeout", "", time.time() - t
    if first not in ("sat", "unsat", "unknown"):
        return "error", (out + err)[:2000], time.time() - t
    return first, out, time.time() - t


def _parse_values(out: str) -> Dict[str, str]:
    """Parse the (get-value ...) answer: ((name value) ...) - values kept as raw s-expr text."""
    vals = {}
    txt = out.split("\n", 1)[1] if "\n" in out else ""
    # tokenise the s-expression
    toks = re.findall(r'"(?:[^"]|"")*"|\(|\)|[^\s()]+', txt)
    pos = 0

    def parse():
        nonlocal pos
        tok = toks[pos]
        pos += 1
        if tok == "(":
            lst = []
            while toks[pos] != ")":
                lst.append(parse())
            pos += 1
            return lst
        return tok

    def show(x):
        return x if isinstance(x, str) else "(" + " ".join(show(y) for y in x) + ")"

    try:
        while pos < len(toks):
            top = parse()
            if isinstance(top, list):
                for pair in top:
                    if isinstance(pair, list) and len(pair) == 2:
                        vals[f"#{len(vals)}"] = show(pair[1])
    except IndexError:
        pass
    return vals


def solve_one(smt2: str, watch: Dict[str, str], timeout_s: float, strings: bool = False, only: str = "") -> dict:
    """Returns {'verdict': unsat|sat|unknown, 'backend':..., 'time_s':..., 'model': {...}, 'log': [...]}."""
    log = []
    body = smt2
    tail = ""
    if watch:
        tail = "(get-value (" + " ".join(watch.values()) + "))\n"
    order = ["cvc5", "z3"] if strings else ["z3", "cvc5"]
    if only:
        order = [only]
    total = 0.0
    result = {"verdict": "unknown", "backend": "", "time_s": 0.0, "model": {}, "log": log}
    for be in order:
        if be == "z3":
            inp = body + tail
            cmd = [Z3, "-in", "-smt2", f"-T:{int(timeout_s)}", "model.completion=true"]
        else:
            inp = "(set-logic ALL)\n(set-option :produce-models true)\n" + body.replace("(set-info :status unknown)", "") + tail
            cmd = [CVC5, "--lang=smt2", f"--tlimit={int(timeout_s * 1000)}", "--strings-exp", "-q"]
        verdict, out, dt = _run(cmd, inp, timeout_s + 5)
        total += dt
        log.append({"backend": be, "verdict": verdict, "time_s": round(dt, 3), **({"output": out[:500]} if verdict == "error" else {})})
        if verdict in ("sat", "unsat"):
            result.update(verdict=verdict, backend=be)
            if verdict == "sat" and watch:
                raw = _parse_values(out)  # answers come back in the order the terms were asked
                result["model"] = {k: raw.get(f"#{i}", "?") for i, k in enumerate(watch)}
            break
    result["time_s"] = round(total, 3)
    return result


def _solve_job(j):
    if j.get("pre_verdict"):
        return {"verdict": j["pre_verdict"], "backend": "pyvc (goal is literally true on this path)", "time_s": 0.0, "model": {}, "log": []}
    return solve_one(j["smt2"], j.get("watch", {}), j.get("timeout_s", 20), j.get("strings", False), j.get("only", ""))


def solve_all(jobs: List[dict], workers: int = 16) -> List[dict]:
    """jobs: [{'smt2':..., 'watch':{}, 'timeout_s':..., 'strings':bool}]"""
    with ThreadPoolExecutor(max_workers=workers) as ex:
        return list(ex.map(_solve_job, jobs))
