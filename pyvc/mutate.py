"""In-memory mutation audit (DESIGN 2.7): the extracted AST of a unit is mutated with standard operators and the unit is
re-verified; a mutant is *killed* when some obligation is no longer discharged.  The kill ratio and every survivor are
written to the evidence as a measure of contract strength (informational: a survivor means "strengthen the contract or
the mutant is equivalent", never a violation).  Nothing on disk is changed."""
from __future__ import annotations

import ast
import copy
from typing import List, Tuple

CMP_SWAP = {ast.Eq: ast.NotEq, ast.NotEq: ast.Eq, ast.Lt: ast.LtE, ast.LtE: ast.Lt, ast.Gt: ast.GtE, ast.GtE: ast.Gt, ast.In: ast.NotIn, ast.NotIn: ast.In, ast.Is: ast.IsNot, ast.IsNot: ast.Is}


def candidates(fn) -> List[Tuple[str, int, str]]:
    """(operator, ordinal of the node among the nodes this operator applies to, description)"""
    out = []
    counts = {}

    def add(op, node, text):
        n = counts.get(op, 0)
        counts[op] = n + 1
        out.append((op, n, f"{op}@{getattr(node, 'lineno', 0)}: {text[:70]}"))

    for node in ast.walk(fn):
        if isinstance(node, ast.If):
            add("negate-if", node, ast.unparse(node.test))
        elif isinstance(node, ast.Compare) and type(node.ops[0]) in CMP_SWAP:
            add("swap-compare", node, ast.unparse(node))
        elif isinstance(node, ast.BoolOp):
            add("swap-and-or", node, ast.unparse(node))
        elif isinstance(node, ast.Call) and isinstance(node.func, ast.Name) and node.func.id in ("all", "any"):
            add("all-any", node, ast.unparse(node))
        elif isinstance(node, ast.Constant) and isinstance(node.value, int) and not isinstance(node.value, bool):
            add("const+1", node, str(node.value))
        elif isinstance(node, ast.Constant) and isinstance(node.value, bool):
            add("flip-bool", node, str(node.value))
        elif isinstance(node, (ast.Assign, ast.AugAssign, ast.Expr)) and not (isinstance(node, ast.Expr) and isinstance(node.value, ast.Constant)):
            add("drop-stmt", node, ast.unparse(node))
        elif isinstance(node, ast.Call) and len(node.args) >= 2 and not any(isinstance(a, ast.Starred) for a in node.args):
            add("swap-args", node, ast.unparse(node))
        elif isinstance(node, (ast.Break, ast.Continue)):
            add("drop-stmt", node, type(node).__name__.lower())
    return out


def apply(fn, op: str, ordinal: int):
    """Returns a mutated deep copy of fn."""
    new = copy.deepcopy(fn)
    n = -1
    for node in ast.walk(new):
        hit = False
        if op == "negate-if" and isinstance(node, ast.If):
            hit = True
        elif op == "swap-compare" and isinstance(node, ast.Compare) and type(node.ops[0]) in CMP_SWAP:
            hit = True
        elif op == "swap-and-or" and isinstance(node, ast.BoolOp):
            hit = True
        elif op == "all-any" and isinstance(node, ast.Call) and isinstance(node.func, ast.Name) and node.func.id in ("all", "any"):
            hit = True
        elif op == "const+1" and isinstance(node, ast.Constant) and isinstance(node.value, int) and not isinstance(node.value, bool):
            hit = True
        elif op == "flip-bool" and isinstance(node, ast.Constant) and isinstance(node.value, bool):
            hit = True
        elif op == "drop-stmt" and (isinstance(node, (ast.Assign, ast.AugAssign, ast.Break, ast.Continue)) or (isinstance(node, ast.Expr) and not isinstance(node.value, ast.Constant))):
            hit = True
        elif op == "swap-args" and isinstance(node, ast.Call) and len(node.args) >= 2 and not any(isinstance(a, ast.Starred) for a in node.args):
            hit = True
        if not hit:
            continue
        n += 1
        if n != ordinal:
            continue
        if op == "negate-if":
            node.test = ast.UnaryOp(op=ast.Not(), operand=node.test)
        elif op == "swap-compare":
            node.ops[0] = CMP_SWAP[type(node.ops[0])]()
        elif op == "swap-and-or":
            node.op = ast.Or() if isinstance(node.op, ast.And) else ast.And()
        elif op == "all-any":
            node.func.id = "any" if node.func.id == "all" else "all"
        elif op == "const+1":
            node.value = node.value + 1
        elif op == "flip-bool":
            node.value = not node.value
        elif op == "drop-stmt":
            # replace by `pass` in place (keeps the tree shape)
            node.__class__ = ast.Pass
            node._fields = ()
        elif op == "swap-args":
            node.args[0], node.args[1] = node.args[1], node.args[0]
        ast.fix_missing_locations(new)
        return new
    return None
