"""Verification units: locate the real function in /repo, run the symbolic executor, collect obligations."""
from __future__ import annotations

import ast
import hashlib
import os
import time
import traceback
from dataclasses import dataclass, field
from typing import Any, Callable, Dict, List, Optional

import z3

from . import REPO
from .engine import (ClassTable, Closure, Ctx, Env, Interp, Obligation, PathEnd, PyRaise, RestartPath, ReturnSignal, Unsupported, ExcVal, zbool)

_module_cache: Dict[str, tuple] = {}
_class_table: Optional[ClassTable] = None


def module_path(mod: str) -> str:
    return os.path.join(REPO, *mod.split(".")) + ".py"


def load_module(mod: str):
    if mod not in _module_cache:
        path = module_path(mod)
        src = open(path, encoding="utf-8").read()
        _module_cache[mod] = (src, ast.parse(src), path)
    return _module_cache[mod]


def class_table() -> ClassTable:
    global _class_table
    if _class_table is None:
        ct = ClassTable()
        pkg = os.path.join(REPO, "jsonargparse")
        for fn in sorted(os.listdir(pkg)):
            if fn.endswith(".py"):
                try:
                    ct.add_module_ast(ast.parse(open(os.path.join(pkg, fn), encoding="utf-8").read()))
                except SyntaxError:
                    pass
        ct.add("ArgumentError", ["Exception"])
        _class_table = ct
    return _class_table


def find_function(mod: str, qualname: str):
    """Locate a (possibly nested) function by qualified name; `<locals>` segments are skipped.

    `func@if(<test>)` selects, inside the function, the body of the if/elif arm whose test unparses to <test>: the
    verification unit is then that block only (everything of the function outside the arm is dropped; the contract's
    setup supplies the variables the block reads)."""
    block = None
    if "@if(" in qualname:
        qualname, block = qualname.split("@if(", 1)
        block = block[:-1]
        found = find_function(mod, qualname)
        if found is None:
            return None
        fn, src, path = found
        want = ast.unparse(ast.parse(block, mode="eval").body)
        for node in ast.walk(fn):
            if isinstance(node, ast.If) and ast.unparse(node.test) == want:
                synth = ast.FunctionDef(name=fn.name + "@if", args=ast.arguments(posonlyargs=[], args=[], kwonlyargs=[], kw_defaults=[], defaults=[]), body=node.body, decorator_list=[], lineno=node.body[0].lineno, col_offset=node.col_offset, end_lineno=node.body[-1].end_lineno, end_col_offset=node.body[-1].end_col_offset)
                return synth, src, path
        return None
    src, tree, path = load_module(mod)
    node: Any = tree
    for part in [p for p in qualname.split(".") if p != "<locals>"]:
        kinds = (ast.FunctionDef, ast.ClassDef, ast.AsyncFunctionDef)
        # direct children first; of several definitions of one name (typing @overload stubs) the last non-stub one is the one that runs
        direct = [c for c in getattr(node, "body", []) if isinstance(c, kinds) and c.name == part]
        real = [c for c in direct if not any(ast.unparse(dec).endswith("overload") for dec in c.decorator_list)]
        found = (real or direct)[-1] if direct else None
        if found is None:
            for child in ast.walk(node):
                if child is not node and isinstance(child, kinds) and child.name == part:
                    found = child
                    break
        if found is None:
            return None
        node = found
    if not isinstance(node, (ast.FunctionDef, ast.AsyncFunctionDef)):
        return None
    return node, src, path


def _module_level_function(mod: str, name: str, follow_imports: bool = True):
    try:
        _, tree, _ = load_module(mod)
    except OSError:
        return None
    for node in tree.body:
        if isinstance(node, (ast.FunctionDef, ast.AsyncFunctionDef)) and node.name == name:
            return node
    if follow_imports:
        pkg = mod.rsplit(".", 1)[0]
        for node in tree.body:
            if isinstance(node, ast.ImportFrom) and node.level == 1 and node.module and any((a.asname or a.name) == name for a in node.names):
                real = next(a.name for a in node.names if (a.asname or a.name) == name)
                return _module_level_function(f"{pkg}.{node.module}", real, follow_imports=False)
    return None


def _make_resolver(mod: str, helpers):
    cache = {}

    def resolver(name):
        if name not in cache:
            node = _module_level_function(mod, name)
            cache[name] = Closure(node, helpers, name) if node is not None else _module_level_literal(mod, name)
        return cache[name]
    return resolver


def _module_level_literal(mod: str, name: str, follow_imports: bool = True):
    """A module-level `name = <literal>` (tables of strings / numbers) of the unit's module or of the sibling module a helper was taken from."""
    try:
        _, tree, _ = load_module(mod)
    except OSError:
        return None
    for node in tree.body:
        tgt = node.targets[0] if isinstance(node, ast.Assign) and len(node.targets) == 1 else (node.target if isinstance(node, ast.AnnAssign) else None)
        if isinstance(tgt, ast.Name) and tgt.id == name and getattr(node, "value", None) is not None:
            try:
                return ast.literal_eval(node.value)
            except (ValueError, SyntaxError):
                return None
    if follow_imports:
        import glob as _glob
        for path in sorted(_glob.glob(os.path.join(REPO, "jsonargparse", "_*.py"))):
            m2 = "jsonargparse." + os.path.basename(path)[:-3]
            if m2 != mod:
                v = _module_level_literal(m2, name, follow_imports=False)
                if v is not None:
                    return v
    return None


@dataclass
class Setup:
    """What a contract's setup() returns for one path."""

    env: dict
    calls: dict = field(default_factory=dict)
    consts: dict = field(default_factory=dict)
    loops: dict = field(default_factory=dict)
    cms: dict = field(default_factory=dict)
    hooks: dict = field(default_factory=dict)
    symcall: Any = None
    drop_calls: tuple = ()
    data: dict = field(default_factory=dict)  # whatever post()/raises() need (old values, ghost)
    watch: dict = field(default_factory=dict)  # name -> z3 term whose model value a replay needs
    inline: dict = field(default_factory=dict)  # name -> "module:qualname": real helper functions interpreted with their own body


@dataclass
class Unit:
    prop: str
    target: str  # "jsonargparse._util:Path._check_mode"
    setup: Callable  # setup(ctx) -> Setup
    post: Callable  # post(ctx, setup, result) -> None (calls ctx.oblige)
    raises: Callable  # raises(ctx, setup, exc) -> None (calls ctx.oblige)
    trusted: List[str] = field(default_factory=list)
    label: str = ""
    expect_cover: tuple = ("return",)
    replayer: str = ""  # "module:function" under /verif/replayers, run with /venv/bin/python
    doc: str = ""
    max_paths: int = 5000
    split: int = 0  # >0: the first decision of setup() has this many options; each is explored by its own worker process
    refute_hints: tuple = ()  # SMT-LIB assertions tried on undecided obligations to obtain a counter-model (size bounds)

    @property
    def name(self):
        return f"{self.prop}/{self.target}" + (f"[{self.label}]" if self.label else "")


@dataclass
class UnitResult:
    unit: Unit
    found: bool
    file: str = ""
    lines: tuple = (0, 0)
    src_hash: str = ""
    obligations: List[Obligation] = field(default_factory=list)
    undecided: List[dict] = field(default_factory=list)
    paths: int = 0
    covers: Dict[str, int] = field(default_factory=dict)
    calls_used: List[str] = field(default_factory=list)
    gen_s: float = 0.0
    error: str = ""


class _Recording(dict):
    def __init__(self, d, used):
        super().__init__(d)
        self.used = used

    def __getitem__(self, k):
        self.used.add(k)
        return super().__getitem__(k)


def run_unit(unit: Unit, forced: Optional[int] = None, fn_override=None) -> UnitResult:
    mod, qual = unit.target.split(":")
    loc = find_function(mod, qual)
    if loc is None:
        return UnitResult(unit, found=False, error=f"unit {unit.target} not found in {module_path(mod)}")
    fn, src, path = loc
    if fn_override is not None:
        fn = fn_override  # in-memory mutant of the extracted AST (mutation audit)
    seg = ast.get_source_segment(src, fn) or "\n".join(src.splitlines()[fn.lineno - 1:fn.end_lineno])
    res = UnitResult(unit, found=True, file=os.path.relpath(path, REPO), lines=(fn.lineno, fn.end_lineno), src_hash=hashlib.sha256(seg.encode()).hexdigest()[:16])
    ctx = Ctx(unit.name, class_table())
    ctx.forced_first = forced
    used = set()
    t0 = time.time()
    canary_done = False
    impure = set()
    restarts = 0
    while True:
        n_obl_at_start = len(ctx.obligations)
        try:
            st: Setup = unit.setup(ctx)
            ctx.watch = dict(st.watch)
            if not canary_done:
                ctx.oblige("canary", "hypotheses-consistent", False)
                canary_done = True
            interp = Interp(ctx, fn, calls=_Recording(st.calls, used), consts=st.consts, loops=st.loops, cms=_Recording(st.cms, used), hooks=st.hooks, symcall=st.symcall, drop_calls=st.drop_calls, impure=impure)
            env = Env(st.env)
            helpers = Env()  # module-level helpers see each other (and themselves: recursion)
            interp.module_resolver = _make_resolver(mod, helpers)
            for nm, tgt in st.inline.items():
                m2, q2 = tgt.split(":")
                loc2 = find_function(m2, q2)
                if loc2 is None:
                    raise Unsupported(f"inlined helper {tgt} not found")
                helpers.set(nm, Closure(loc2[0], helpers, nm))
                env.set(nm, helpers.lookup(nm))
            # parameters the scenario leaves out take the default written in the signature (so a changed default is seen)
            fa = fn.args
            pos = list(fa.posonlyargs) + list(fa.args)
            for prm, dflt in list(zip(pos, [None] * (len(pos) - len(fa.defaults)) + list(fa.defaults))) + list(zip(fa.kwonlyargs, fa.kw_defaults)):
                if dflt is not None and prm.arg not in st.env:
                    env.set(prm.arg, interp.eval(dflt, env))
            try:
                interp.exec_block(fn.body, env)
                result = None
                outcome = "return"
            except ReturnSignal as r:
                result = r.value
                outcome = "return"
            except PyRaise as pr:
                result = pr.exc
                outcome = "raise:" + pr.exc.cls
            res.covers[outcome] = res.covers.get(outcome, 0) + 1
            st.data["env"] = env
            if outcome == "return":
                unit.post(ctx, st, result)
            else:
                unit.raises(ctx, st, result)
        except RestartPath:
            del ctx.obligations[n_obl_at_start:]
            restarts += 1
            if restarts > 10000:
                res.undecided.append({"unit": unit.name, "why": "too many path restarts"})
                break
            ctx._reset_path()
            continue
        except PathEnd:
            pass
        except Unsupported as u:
            node = u.node
            res.undecided.append({"unit": unit.name, "path": ctx.path_no, "why": u.why, "line": getattr(node, "lineno", None), "code": (ast.unparse(node)[:120] if isinstance(node, ast.AST) else None), "decisions": list(ctx.decisions_txt)})
        except RecursionError:
            res.undecided.append({"unit": unit.name, "path": ctx.path_no, "why": "recursion limit in interpreter"})
        if ctx.path_no >= unit.max_paths:
            res.undecided.append({"unit": unit.name, "why": f"more than {unit.max_paths} paths"})
            break
        if not ctx.next_path():
            break
    res.paths = ctx.path_no + 1
    res.obligations = ctx.obligations
    res.calls_used = sorted(used)
    res.gen_s = time.time() - t0
    return res


def to_smt2(ob: Obligation, watch: Optional[dict] = None) -> str:
    s = z3.Solver()
    for h in ob.hyps:
        s.add(h)
    s.add(z3.Not(zbool(ob.goal)) if not isinstance(ob.goal, bool) else z3.BoolVal(not ob.goal))
    for t in (ob.meta.get("watch") or {}).values():
        if z3.is_expr(t):
            s.add(t == t)  # keeps the watched term's symbols declared in the query
    txt = s.to_smt2()
    return txt


# helpers for contracts -------------------------------------------------------------------------------
def no_raise(ctx, st, exc: ExcVal):
    """raises-clause: the unit must not raise at all."""
    ctx.oblige("raises", f"no-exception({exc.cls}@{exc.origin})", False)


def nothing(ctx, st, result):
    pass


def serialize(res: UnitResult, tag: str = "") -> dict:
    """Plain-data form of a unit result (crosses the process boundary; no z3 objects)."""
    obs = []
    for ob in res.obligations:
        name = ob.name if not tag else ob.name.rsplit("/p", 1)[0] + f"/{tag}p{ob.path}"
        watch = {k: (v.sexpr() if hasattr(v, "sexpr") else str(v)) for k, v in (ob.meta.get("watch") or {}).items()}
        meta = {k: v for k, v in ob.meta.items() if k not in ("watch",)}
        trivially_true = ob.goal is True or (z3.is_expr(ob.goal) and z3.is_true(ob.goal))
        if trivially_true and ob.kind != "canary":
            meta["pre_verdict"] = "unsat"  # the goal is literally `true` on this path: nothing to ask a solver
            obs.append({"name": name, "kind": ob.kind, "path": ob.path, "smt2": "", "watch": {}, "meta": meta})
            continue
        entry = {"name": name, "kind": ob.kind, "path": ob.path, "smt2": to_smt2(ob), "watch": watch, "meta": meta}
        if "str.replace" in entry["smt2"] and ob.kind != "canary":
            # a weaker hypothesis set (sound: fewer assumptions): hypotheses built from str.replace chains stall both solvers
            keep = [h for h in ob.hyps if "str.replace" not in h.sexpr()]
            if len(keep) < len(ob.hyps):
                entry["smt2_relaxed"] = to_smt2(Obligation(ob.name, ob.kind, keep, ob.goal, ob.path, {"watch": ob.meta.get("watch")}))
        obs.append(entry)
    return {
        "found": res.found, "file": res.file, "lines": list(res.lines), "src_hash": res.src_hash, "obligations": obs, "undecided": res.undecided,
        "paths": res.paths, "covers": res.covers, "calls_used": res.calls_used, "gen_s": res.gen_s, "error": res.error,
    }


def _worker(task):
    import importlib
    import sys
    from . import VERIF
    if VERIF not in sys.path:
        sys.path.insert(0, VERIF)
    modname, idx, forced = task
    spec = importlib.import_module(modname)
    unit = spec.UNITS[idx]
    try:
        res = run_unit(unit, forced)
        return serialize(res, tag=(f"s{forced}" if forced is not None else ""))
    except Exception:
        return {"found": True, "file": "", "lines": [0, 0], "src_hash": "", "obligations": [], "paths": 0, "covers": {}, "calls_used": [], "gen_s": 0.0,
                "undecided": [{"unit": unit.name, "why": "VC generator crashed: " + traceback.format_exc()[-1500:]}], "error": "crash"}


def run_units_parallel(modname: str, units_list: List[Unit], workers: int = 16) -> List[dict]:
    """Run every unit (and every scenario of split units) in worker processes; merge per unit."""
    import multiprocessing as mp
    tasks = []
    for i, u in enumerate(units_list):
        if u.split:
            tasks.extend((modname, i, f) for f in range(u.split))
        else:
            tasks.append((modname, i, None))
    if not tasks:
        return []
    with mp.get_context("fork").Pool(min(workers, len(tasks))) as pool:
        parts = pool.map(_worker, tasks, chunksize=1)
    merged: Dict[int, dict] = {}
    for (m, i, f), part in zip(tasks, parts):
        if i not in merged:
            merged[i] = part
            continue
        tgt = merged[i]
        tgt["obligations"].extend(o for o in part["obligations"] if o["kind"] != "canary")
        tgt["undecided"].extend(part["undecided"])
        tgt["paths"] += part["paths"]
        for k, v in part["covers"].items():
            tgt["covers"][k] = tgt["covers"].get(k, 0) + v
        tgt["calls_used"] = sorted(set(tgt["calls_used"]) | set(part["calls_used"]))
        tgt["gen_s"] = max(tgt["gen_s"], part["gen_s"])
    return [merged[i] for i in range(len(units_list))]


@dataclass
class Lemma:
    """Obligations without code (over tables / regexes extracted from the repo): build() -> list of obligation dicts."""

    name: str
    build: Callable
    trusted: List[str] = field(default_factory=list)
    replayer: str = ""
    refute_hints: tuple = ()


def make_ob(name: str, kind: str, hyps: list, goal, watch: Optional[dict] = None, strings: bool = False, timeout_s: Optional[float] = None, **meta) -> dict:
    s = z3.Solver()
    for h in hyps:
        s.add(h)
    s.add(z3.Not(zbool(goal)))
    for t in (watch or {}).values():
        s.add(t == t)
    m = dict(meta)
    m["strings"] = strings
    if timeout_s:
        m["timeout_s"] = timeout_s
    return {"name": name, "kind": kind, "path": 0, "smt2": s.to_smt2(), "watch": {k: v.sexpr() for k, v in (watch or {}).items()}, "meta": m}


def _mut_worker(task):
    """Re-verify one in-memory mutant of a unit -> (description, verdict) with verdict in killed-refuted / killed-undecided / survived / not-applicable."""
    import importlib
    import sys
    from . import VERIF, mutate, solve
    if VERIF not in sys.path:
        sys.path.insert(0, VERIF)
    modname, idx, op, ordinal, desc = task
    unit = importlib.import_module(modname).UNITS[idx]
    # a mutant may make the interpreter loop or allocate without end (e.g. iterate a symbolic sequence): bound both
    import resource
    import signal
    try:
        resource.setrlimit(resource.RLIMIT_AS, (6 << 30, 6 << 30))
    except (ValueError, OSError):
        pass

    def _alarm(signum, frame):
        raise TimeoutError("mutant exceeded its time budget")

    signal.signal(signal.SIGALRM, _alarm)
    signal.alarm(int(os.environ.get("VERIF_MUTANT_TIMEOUT", "240")))
    try:
        mod, qual = unit.target.split(":")
        fn = find_function(mod, qual)[0]
        mutant = mutate.apply(fn, op, ordinal)
        if mutant is None:
            return desc, "not-applicable"
        verdicts = set()
        for forced in (range(unit.split) if unit.split else [None]):
            res = run_unit(unit, forced, fn_override=mutant)
            if res.undecided:
                verdicts.add("killed-undecided")
            ser = serialize(res)
            jobs = [{"smt2": o["smt2"], "timeout_s": 10, "strings": o["meta"].get("strings", False), "pre_verdict": o["meta"].get("pre_verdict", "")} for o in ser["obligations"] if o["kind"] != "canary"]
            for r in solve.solve_all(jobs, workers=2):
                if r["verdict"] == "sat":
                    verdicts.add("killed-refuted")
                elif r["verdict"] != "unsat":
                    verdicts.add("killed-undecided")
            for cov in unit.expect_cover:
                if not any(k == cov or k.startswith(cov) for k in res.covers) and not unit.split:
                    verdicts.add("killed-undecided")
        if "killed-refuted" in verdicts:
            return desc, "killed-refuted"
        if "killed-undecided" in verdicts:
            return desc, "killed-undecided"
        return desc, "survived"
    except Exception as ex:  # a mutant that crashes the generator counts as undecided, not as killed by a counter-model
        return desc, "killed-undecided"
    finally:
        signal.alarm(0)


def mutation_audit(modname: str, units_list: List[Unit], budget_per_unit: int = 40, workers: int = 16, skip=()) -> List[dict]:
    import multiprocessing as mp
    from . import mutate
    tasks, per_unit = [], {}
    for i, u in enumerate(units_list):
        if u.name in skip:
            continue
        mod, qual = u.target.split(":")
        loc = find_function(mod, qual)
        if loc is None:
            continue
        cands = mutate.candidates(loc[0])
        step = max(1, len(cands) // budget_per_unit)
        chosen = cands[::step][:budget_per_unit]
        per_unit[i] = {"unit": u.name, "candidates": len(cands), "run": len(chosen), "killed_refuted": 0, "killed_undecided": 0, "survived": 0, "survivors": []}
        tasks.extend((modname, i, op, n, desc) for op, n, desc in chosen)
    if not tasks:
        return []
    with mp.get_context("fork").Pool(min(workers, len(tasks))) as pool:
        results = pool.map(_mut_worker, tasks, chunksize=1)
    for (m, i, op, n, desc), (_, verdict) in zip(tasks, results):
        r = per_unit[i]
        if verdict == "survived":
            r["survived"] += 1
            r["survivors"].append(desc)
        elif verdict == "killed-refuted":
            r["killed_refuted"] += 1
        elif verdict == "killed-undecided":
            r["killed_undecided"] += 1
    return list(per_unit.values())
