"""C05 bounded stand-in: the same settings give the same configuration through every input channel.

Relational contract, part 1 (one key).  A parser has a key of type T at three positions: flat `k`, in a dotted group
`g.k` (next to `g.o:int=0`) and in a dataclass group `dc.k` (`@dataclass DC: k: T = None; o: int = 0`).  One JSON-like
value v is delivered as the setting {key: v} through every channel
    argv (`--key=text`), env (`APP_KEY=text`, parse_args(env=True)), penv (parse_env()), cfgfile (`--cfg=file`),
    cfgstr (`--cfg=<json>`), envcfg (`APP_CFG=<json>`), string (parse_string), path (parse_path), object (parse_object),
    argvgroup (`--dc=<json of the group>`, dataclass position only)
- the document channels and parse_object also with the dotted spelling {"g.k": v} when the key is nested - under
parser_mode yaml, json, omegaconf and, for a stated subset (it is 30x slower), jsonnet.  Documents are JSON texts.
The text of v on argv / in the environment is the raw string for a top-level string and json.dumps(v) otherwise.
Contract: all outcomes are equal (same normalised namespace, type-sensitive) or all are rejections.

Part 2 (several keys in one document).  For every non-empty subset of {G.k, G.o, G.h.z}, every spelling of every key
(each dot either splits into a nested mapping or stays inside a mapping key) and every order of the keys in the
document, the document must give, through every document channel and mode, what the same options give on the
command line.  A failing document is shrunk by dropping keys; the canonical key names the spelling shapes.

Scope of the comparison follows the quantifier of the property ("settings whose textual form is unambiguous: non-string
values, and strings at str-typed positions"):
  * strings occur only where the position is typed exactly `str` (any string, incl. the look-alikes 1e3, null, 010 ...),
    or where a string is the only way to write the value (Enum member name, Literal string, path of Path_fr), or - letters
    only - at Optional/Union positions that admit str;
  * a non-string value whose TOP-LEVEL type admits free text (str or Path_fr, directly or through Optional/Union) has an
    ambiguous text on the command line (`--k=1` is the string "1" there), so for it only the typed channels are compared
    with each other and the text channels (argv, env, penv) with each other; such keys carry `typed-only` / `text-only`.
Oracle: none needed (relational); the classification above is computed from the type term by this file.

A divergence is re-run on freshly built parsers before it is reported (so that a history effect, property C09, is not
mistaken for a channel effect).  The canonical key is c05:<scope>:<symptom>:<type>:<value>:<positions>:<diverging
channels>; the symptom (null-unchecked-in-config, raw-argument-text-as-element, different-values, accept-vs-reject) is
computed from the outcomes only; violations that differ only in the key position are merged into one key.
"""
import dataclasses
import enum
import itertools
import json
import multiprocessing
import os
import sys
import tempfile
from typing import Dict, List, Literal, Optional, Set, Tuple, Union

from bounded.common import Harness, quiet

MODES = ["yaml", "json", "omegaconf", "jsonnet"]
POSITION = {"k": "flat", "g.k": "nested", "dc.k": "dataclass", "values": "flat-method-name", "g.items": "nested-method-name"}
TEXT = ["argv", "env", "penv"]
TYPED = ["cfgfile", "cfgstr", "string", "path", "object", "envcfg", "argvgroup"]
QUICK_OTHER_MODES = ["argv", "string", "object", "argvgroup"]  # quick tier: channels run under json / omegaconf as well


class Color(enum.Enum):
    RED = 1
    GREEN = 2


# ---------------------------------------------------------------------------------------------- type terms
LEAVES = ["str", "int", "float", "bool", "lit", "enum", "pos", "path"]


def hint(t):
    from jsonargparse.typing import Path_fr, PositiveInt

    if isinstance(t, str):
        return {"str": str, "int": int, "float": float, "bool": bool, "lit": Literal["a", 2], "enum": Color, "pos": PositiveInt, "path": Path_fr,
                "none": type(None)}[t]
    op, *args = t
    a = [hint(x) for x in args]
    if op == "opt":
        return Optional[a[0]]
    if op == "union":
        return Union[tuple(a)]
    if op == "list":
        return List[a[0]]
    if op == "dict":
        return Dict[str, a[0]]
    if op == "tuple":
        return Tuple[tuple(a)]
    if op == "vtuple":
        return Tuple[a[0], ...]
    if op == "set":
        return Set[a[0]]
    raise ValueError(t)


def name(t):
    if isinstance(t, str):
        return {"lit": "Literal['a',2]", "enum": "Color", "pos": "PositiveInt", "path": "Path_fr", "none": "None"}.get(t, t)
    op, *args = t
    inner = ",".join(name(x) for x in args)
    return {"opt": "Optional[%s]", "union": "Union[%s]", "list": "List[%s]", "dict": "Dict[str,%s]", "tuple": "Tuple[%s]", "vtuple": "Tuple[%s,...]",
            "set": "Set[%s]"}[op] % inner


def admits_text(t):
    """True iff any text is (or may be) a value of the type by itself: str or a path, directly or through Optional/Union."""
    if isinstance(t, str):
        return t in ("str", "path")
    if t[0] in ("opt", "union"):
        return any(admits_text(x) for x in t[1:])
    return False


TRICKY = ["1e3", "._", ".5", "1_000", "010", "0x10", "1:30", "true", "True", "yes", "no", "on", "null", "~", "", " ", "-", "=", "nan", ".inf",
          "2020-01-01", "{a: 1}", "[1, 2]", "a: b", "*x", "&a", "abc", "a b", "#c", "'q'", '"q"', "1", "-3", "1.5", "None", "k=v", "a,b", "{}", "[]"]


def conforming(t, top=True, rich=False):
    """Values (JSON-like) that conform to the term; strings only where the quantifier admits them."""
    if isinstance(t, str):
        if t == "str":
            return TRICKY if rich else ["abc", "1e3", "null", ""]
        return {"int": [7, 0, -3], "float": [1.5, 1000.0, 3, -0.25, 1e-07, 1e22], "bool": [True, False], "lit": ["a", 2], "enum": ["RED", "GREEN"],
                "pos": [5, 1], "path": ["file.txt"], "none": [None]}[t]
    op, *args = t
    if op == "opt":
        inner = conforming(args[0], top, rich)
        if args[0] == "str":
            inner = ["abc", "xyz"]  # letters only where None is an alternative reading
        return [None] + inner
    if op == "union":
        out = []
        for x in args:
            vals = conforming(x, top, rich)
            if x == "str":
                vals = ["abc"]
            for v in vals[:3]:
                if v not in out or isinstance(v, bool):
                    out.append(v)
        return out
    sub = [conforming(x, False, rich and x == "str") for x in args]
    if op in ("list", "vtuple", "set"):
        s = sub[0]
        out = [[], [s[0]], list(s[:2]), [s[-1], s[0], s[0]]]
        if rich and args[0] == "str":
            out.append(list(s))
        return out
    if op == "dict":
        s = sub[0]
        return [{}, {"x": s[0]}, {"x": s[-1], "y": s[0]}] + ([{"k%d" % i: v for i, v in enumerate(s)}] if rich and args[0] == "str" else [])
    if op == "tuple":
        return [[s[0] for s in sub], [s[-1] for s in sub]]
    raise ValueError(t)


WRONG_SCALARS = [None, True, 0, 7, -1, 2.5, [], [7], {}, {"x": 7}]


def wrong(t):
    """Non-string values that break the term at one position."""
    if isinstance(t, str):
        return WRONG_SCALARS
    op, *args = t
    if op in ("opt", "union"):
        return WRONG_SCALARS
    sub = [conforming(x, False)[0] for x in args]
    if op in ("list", "vtuple", "set"):
        return [sub[0], {"x": sub[0]}, None, 7] + [[sub[0], w] for w in (None, 2.5, [7], {"x": 7}, True, 7)]
    if op == "dict":
        return [sub[0], [sub[0]], None, 7] + [{"x": sub[0], "y": w} for w in (None, 2.5, [7], {"x": 7}, True, 7)]
    if op == "tuple":
        return [sub[:-1], sub + [sub[-1]], None, 7, {"x": 7}] + [[w] + sub[1:] for w in (None, 2.5, [7], True)] + [sub[:-1] + [w] for w in (None, 2.5, {"x": 7})]
    raise ValueError(t)


def values(t, rich):
    out = []
    for v in conforming(t, True, rich) + wrong(t):
        if not any(type(v) is type(o) and json.dumps(v) == json.dumps(o) for o in out):
            out.append(v)
    return out


def admits_none(t):
    if isinstance(t, str):
        return t == "none"
    return t[0] == "opt" or (t[0] == "union" and any(admits_none(x) for x in t[1:]))


# the types at which a top-level null is tried although the type does not admit None (one divergence class, see the report)
NULL_TYPES = LEAVES + [("list", "int"), ("dict", "int"), ("vtuple", "int"), ("set", "int"), ("tuple", "int"), ("union", "int", "float"), ("union", "str", "int"),
                       ("list", ("list", "int"))]


def terms(thorough):
    d1 = []
    for leaf in LEAVES:
        d1 += [("opt", leaf), ("list", leaf), ("dict", leaf), ("vtuple", leaf), ("set", leaf)]
    d1 += [("tuple", "int"), ("tuple", "str", "int"), ("tuple", "int", "str", "bool"), ("tuple", "float", "float"), ("tuple", "path", "enum"),
           ("tuple", "bool", "pos", "lit")]
    d1 += [("union", a, b) for a in LEAVES for b in LEAVES if a != b]  # every ordered pair: both permutations of every 2-member union
    for trio in (("str", "int", "float"), ("int", "bool", "none"), ("enum", "lit", "int")):
        d1 += [("union",) + p for p in itertools.permutations(trio)]
    d2 = []
    for leaf in ("int", "str") + (("bool", "float", "enum", "path", "pos", "lit") if thorough else ()):
        d2 += [("list", ("opt", leaf)), ("list", ("list", leaf)), ("dict", ("list", leaf)), ("opt", ("list", leaf)), ("opt", ("dict", leaf)),
               ("list", ("dict", leaf)), ("dict", ("dict", leaf)), ("dict", ("opt", leaf)), ("vtuple", ("list", leaf)), ("opt", ("vtuple", leaf)),
               ("list", ("vtuple", leaf)), ("opt", ("set", leaf))]
    for a, b in (("int", "str"), ("str", "int"), ("int", "bool"), ("float", "int")) + ((("bool", "int"), ("int", "float"), ("bool", "str"), ("str", "bool")) if thorough else ()):
        d2 += [("list", ("union", a, b)), ("dict", ("union", a, b)), ("union", ("list", a), b), ("union", b, ("list", a)), ("union", ("list", a), ("list", b)),
               ("union", ("dict", a), ("list", b)), ("opt", ("union", a, b)), ("union", ("opt", a), b), ("tuple", ("union", a, b), ("list", a))]
    d2 += [("tuple", ("list", "int"), ("dict", "str")), ("tuple", ("opt", "int"), ("opt", "str")), ("union", ("tuple", "int", "int"), ("list", "str")),
           ("union", ("dict", "int"), "int", "none"), ("union", "none", ("dict", "int"), "int"), ("dict", ("tuple", "int", "str")), ("set", ("tuple", "int", "int"))]
    return LEAVES[:], d1, d2


# ---------------------------------------------------------------------------------------------- running one setting
def norm(x):
    """Type-sensitive, order-insensitive (for dicts and sets) normal form of a parsed value."""
    from jsonargparse import Namespace
    from jsonargparse import Path as JPath

    if isinstance(x, Namespace):
        x = {k: v for k, v in vars(x).items()}
    if isinstance(x, dict):
        return ["dict"] + sorted([str(k), type(k).__name__, norm(v)] for k, v in x.items() if k not in ("__path__",))
    if isinstance(x, (list, tuple)):
        return [type(x).__name__] + [norm(v) for v in x]
    if isinstance(x, (set, frozenset)):
        return ["set"] + sorted((norm(v) for v in x), key=repr)
    if isinstance(x, enum.Enum):
        return ["enum", x.name]
    if isinstance(x, JPath):
        return ["path", type(x).__name__, str(x)]
    if isinstance(x, float):
        return ["float", repr(x)]
    return [type(x).__name__, repr(x)]


PARSERS: dict = {}
DATACLASSES: dict = {}


def dataclass_for(t):
    """@dataclass class DC: k: <T> = None; o: int = 0   (module level, one per type term)."""
    import dataclasses

    if name(t) not in DATACLASSES:
        cls = dataclasses.make_dataclass("DC%d" % len(DATACLASSES), [("k", hint(t), dataclasses.field(default=None)), ("o", int, dataclasses.field(default=0))])
        cls.__module__ = __name__
        globals()[cls.__name__] = cls
        DATACLASSES[name(t)] = cls
    return DATACLASSES[name(t)]


def parser_for(t, mode, fresh=False):
    from jsonargparse import ArgumentParser

    key = (name(t), mode)
    if fresh or key not in PARSERS:
        p = ArgumentParser(exit_on_error=False, env_prefix="APP", parser_mode=mode)
        p.add_argument("--cfg", action="config")
        p.add_argument("--k", type=hint(t))
        p.add_argument("--g.k", type=hint(t))
        p.add_argument("--g.o", type=int, default=0)
        p.add_argument("--dc", type=dataclass_for(t))
        # options named like Namespace's own methods: every channel must treat them like any other option
        p.add_argument("--values", type=hint(t))
        p.add_argument("--g.items", type=hint(t))
        if fresh:
            return p
        PARSERS[key] = p
    return PARSERS[key]


def text_of(v):
    return v if isinstance(v, str) else json.dumps(v)


def deliver(p, channel, spelling, key, v, tmp):
    """One parse. Returns the normalised outcome: ['ok', namespace] or ['rej']."""
    doc = {key: v} if (spelling == "dotted" or "." not in key) else {key.split(".")[0]: {key.split(".")[1]: v}}
    env_var = "APP_" + key.upper().replace(".", "__")
    try:
        with quiet():
            if channel == "argv":
                res = p.parse_args(["--%s=%s" % (key, text_of(v))])
            elif channel in ("env", "penv"):
                os.environ[env_var] = text_of(v)
                try:
                    res = p.parse_args([], env=True) if channel == "env" else p.parse_env()
                finally:
                    del os.environ[env_var]
            elif channel == "cfgfile":
                with open(os.path.join(tmp, "c.json"), "w") as f:
                    f.write(json.dumps(doc))
                res = p.parse_args(["--cfg=c.json"])
            elif channel == "cfgstr":
                res = p.parse_args(["--cfg=" + json.dumps(doc)])
            elif channel == "argvgroup":
                res = p.parse_args(["--%s=%s" % (key.split(".")[0], json.dumps({key.split(".")[1]: v}))])
            elif channel == "envcfg":
                os.environ["APP_CFG"] = json.dumps(doc)
                try:
                    res = p.parse_args([], env=True)
                finally:
                    del os.environ["APP_CFG"]
            elif channel == "string":
                res = p.parse_string(json.dumps(doc))
            elif channel == "path":
                with open(os.path.join(tmp, "p.json"), "w") as f:
                    f.write(json.dumps(doc))
                res = p.parse_path("p.json")
            elif channel == "object":
                res = p.parse_object(json.loads(json.dumps(doc)))
            else:
                raise ValueError(channel)
        res = res.clone()
        res.pop("cfg", None)
        return ["ok", norm(res)]
    except SystemExit:
        return ["rej"]
    except BaseException:  # noqa  (which exception is raised is property C03's business)
        return ["rej"]


def plan(t, key, jsonnet, full):
    """The deliveries (mode, channel, spelling) of one setting."""
    out = []
    for mode in MODES:
        if mode == "jsonnet":
            if jsonnet:
                out += [(mode, "argv", "-"), (mode, "string", "nested")]
                if "." in key:
                    out.append((mode, "string", "dotted"))
            continue
        # quick tier: json and omegaconf only for the flat key and only on QUICK_OTHER_MODES
        for ch in TEXT:
            if full or mode == "yaml" or (ch in QUICK_OTHER_MODES and "." not in key):
                out.append((mode, ch, "-"))
        for ch in TYPED:
            if not (full or mode == "yaml" or (ch in QUICK_OTHER_MODES and "." not in key)):
                continue
            if ch == "argvgroup":
                if key.startswith("dc."):  # only the dataclass style has a whole-group option (C07's finding for the dotted style)
                    out.append((mode, ch, "nested"))
                continue
            out.append((mode, ch, "nested"))
            if "." in key:
                out.append((mode, ch, "dotted"))
    return out


def run_setting(t, v, key, jsonnet, full, tmp, fresh=False):
    outcomes = {}
    for mode, ch, sp in plan(t, key, jsonnet, full):
        p = parser_for(t, mode, fresh=fresh)
        outcomes[(mode, ch, sp)] = deliver(p, ch, sp, key, v, tmp)
    return outcomes


def classes(outcomes, members):
    """Partition of the deliveries in `members` by outcome, largest class first (ties: first delivery in plan order)."""
    groups = []
    for d in members:
        o = outcomes[d]
        for g in groups:
            if g[0] == o:
                g[1].append(d)
                break
        else:
            groups.append((o, [d]))
    groups.sort(key=lambda g: -len(g[1]))
    return groups


def label(deliveries, all_members):
    """Compact name of a set of deliveries: channel[.dotted]@modes, '*' when every planned mode of that channel diverges."""
    by = {}
    for mode, ch, sp in deliveries:
        by.setdefault(ch + (".dotted" if sp == "dotted" else ""), []).append(mode)
    parts = []
    for chs, modes in by.items():
        planned = [m for m, c, s in all_members if c + (".dotted" if s == "dotted" else "") == chs]
        parts.append(chs + ("" if len(modes) == len(planned) else "@" + "+".join(m[:4] for m in modes)))
    return ",".join(parts)


def leaves_of(n):
    if isinstance(n, list) and len(n) == 2 and n[0] == "str" and isinstance(n[1], str):
        yield n[1]
    elif isinstance(n, list):
        for x in n:
            yield from leaves_of(x)


def symptom(v, outcomes, members):
    """A name for the observed kind of divergence (computed from the outcomes only), used as the defect class in the key."""
    typed = [outcomes[d] for d in members if d[1] in TYPED]
    text = [outcomes[d] for d in members if d[1] in TEXT]
    if v is None and typed and text and all(o[0] == "ok" for o in typed) and all(o[0] == "rej" for o in text):
        return "null-unchecked-in-config"
    if not isinstance(v, str) and any(o[0] == "ok" and repr(text_of(v)) in leaves_of(o[1]) for o in text):
        return "raw-argument-text-as-element"
    if all(o[0] == "ok" for o in typed + text):
        return "different-values"
    return "accept-vs-reject"


def show(o):
    return "rejected" if o[0] == "rej" else "accepted as " + json.dumps(o[1])[:160]


def run_chunk(chunk):
    out = []
    saved = {k: os.environ.pop(k) for k in list(os.environ) if k.startswith("APP_") or k.startswith("JSONARGPARSE_")}
    cwd = os.getcwd()
    with tempfile.TemporaryDirectory(prefix="b05_") as tmp:
        os.chdir(tmp)
        try:
            with open("file.txt", "w") as f:
                f.write("x\n")
            for item in chunk:
                if item[0] == "multi":
                    out.append(run_multi(item[1], item[2], tmp, item[3]))
                    continue
                t, v, key, jsonnet, full = item
                ambiguous = admits_text(t) and not isinstance(v, str)
                outcomes = run_setting(t, v, key, jsonnet, full, tmp)
                members = list(outcomes)
                scopes = [("typed-only", [d for d in members if d[1] in TYPED]), ("text-only", [d for d in members if d[1] in TEXT])] if ambiguous else [("all", members)]
                viols = []
                for scope, mem in scopes:
                    if len(classes(outcomes, mem)) > 1:
                        outcomes2 = run_setting(t, v, key, jsonnet, full, tmp, fresh=True)
                        groups = classes(outcomes2, mem)
                        if len(groups) == 1:
                            out.append(("note", "history effect only: %s %s %s" % (name(t), json.dumps(v), key)))
                            continue
                        ref, rest = groups[0], groups[1:]
                        minority = [d for g in rest for d in g[1]]
                        vkey = (scope, symptom(v, outcomes2, mem), name(t), json.dumps(v), POSITION[key], label(minority, mem))
                        what = "%s: %s; but %s" % (label(ref[1], mem), show(ref[0]), "; ".join("%s: %s" % (label(g[1], mem), show(g[0])) for g in rest))
                        viols.append((vkey, what[:900], {
                            "parser": "ArgumentParser(exit_on_error=False, env_prefix='APP', parser_mode=<mode>); --cfg action=config; --k and --g.k of type T = %s; "
                                      "--g.o int=0; --dc of type `@dataclass class DC: k: T = None; o: int = 0`; cwd contains file.txt" % name(t),
                            "key": key, "value": v, "argv_text": "--%s=%s" % (key, text_of(v)), "json_document": json.dumps({key: v}),
                            "outcomes": {"%s/%s/%s" % d: show(o) for d, o in outcomes2.items() if d in mem}}))
                accepted = sum(1 for o in outcomes.values() if o[0] == "ok")
                out.append(("case", "%s:%s:%s" % (name(t), json.dumps(v), key), len(scopes), viols, accepted, len(outcomes)))
        finally:
            os.chdir(cwd)
            os.environ.update(saved)
    return out


# ---------------------------------------------------------------------------------------------- several keys in one document
@dataclasses.dataclass
class DCH:
    z: int = 0


@dataclasses.dataclass
class DCM:
    k: int = 0
    o: int = 0
    h: DCH = dataclasses.field(default_factory=DCH)


MULTI = {"k": 1, "o": 3, "h.z": 5}  # leaf below the group -> value


def spellings(group, leaf):
    """Every way to write the key group.leaf as a path of mapping keys: each dot either splits or stays inside a key."""
    parts = (group + "." + leaf).split(".")
    out = []
    for mask in range(2 ** (len(parts) - 1)):
        path, cur = [], parts[0]
        for i in range(1, len(parts)):
            if mask >> (i - 1) & 1:
                cur += "." + parts[i]
            else:
                path.append(cur)
                cur = parts[i]
        out.append(path + [cur])
    return out


def build_doc(items):
    """The JSON object in which the items (path, value) appear in this order; nested mappings with the same key are one mapping."""
    doc = {}
    for path, v in items:
        node = doc
        for p in path[:-1]:
            node = node.setdefault(p, {})
        node[path[-1]] = v
    return doc


def shape(path):
    """The spelling of one key with the names abstracted: G = the group, a, b = the levels below; '/' = a nested mapping, '.' = a dot inside a mapping key."""
    out, depth = [], 0
    for comp in path:
        names = []
        for _ in comp.split("."):
            names.append("G" if depth == 0 else "ab"[depth - 1])
            depth += 1
        out.append(".".join(names))
    return "/".join(out)


def multi_parser(mode):
    from jsonargparse import ArgumentParser

    if ("multi", mode) not in PARSERS:
        p = ArgumentParser(exit_on_error=False, env_prefix="APP", parser_mode=mode)
        p.add_argument("--cfg", action="config")
        for leaf in MULTI:
            p.add_argument("--g." + leaf, type=int, default=0)
        p.add_argument("--dc", type=DCM, default=DCM())
        PARSERS[("multi", mode)] = p
    return PARSERS[("multi", mode)]


def multi_outcomes(group, items, tmp, jsonnet):
    """Outcome of the options on the command line (the reference) and of the document through every document channel."""
    doc = json.dumps(build_doc(items))
    out = {}

    def attempt(mode, ch, fn):
        try:
            with quiet():
                res = fn(multi_parser(mode)).clone()
            res.pop("cfg", None)
            out[(mode, ch, "-")] = ["ok", norm(res)]
        except BaseException:  # noqa
            out[(mode, ch, "-")] = ["rej"]

    def with_env(p, name_, value):
        os.environ[name_] = value
        try:
            return p.parse_args([], env=True)
        finally:
            del os.environ[name_]

    def from_file(p, how):
        with open(os.path.join(tmp, "m.json"), "w") as f:
            f.write(doc)
        return p.parse_path("m.json") if how == "path" else p.parse_args(["--cfg=m.json"])

    attempt("yaml", "argv", lambda p: p.parse_args(["--%s=%s" % (".".join(path), v) for path, v in items]))
    for mode in MODES:
        if mode == "jsonnet":
            if jsonnet:
                attempt(mode, "string", lambda p: p.parse_string(doc))
            continue
        attempt(mode, "string", lambda p: p.parse_string(doc))
        attempt(mode, "object", lambda p: p.parse_object(json.loads(doc)))
        attempt(mode, "cfgstr", lambda p: p.parse_args(["--cfg=" + doc]))
        if mode == "yaml":
            attempt(mode, "cfgfile", lambda p: from_file(p, "cfg"))
            attempt(mode, "path", lambda p: from_file(p, "path"))
            attempt(mode, "envcfg", lambda p: with_env(p, "APP_CFG", doc))
    return doc, out


def run_multi(group, items, tmp, jsonnet):
    def bad(its, jn=False):
        doc, out = multi_outcomes(group, its, tmp, jn)
        return doc, out, len(classes(out, list(out))) > 1

    doc, out, failed = bad(items, jsonnet)
    viols = []
    if failed:
        small = items
        progress = True
        while progress and len(small) > 1:  # shrink: drop keys from the document while some channel still disagrees with the command line
            progress = False
            for i in range(len(small)):
                cand = small[:i] + small[i + 1:]
                if bad(cand)[2]:
                    small, progress = cand, True
                    break
        sdoc, sout = multi_outcomes(group, small, tmp, True)
        mem = list(sout)
        groups = classes(sout, mem)
        ref = next(g for g in groups if ("yaml", "argv", "-") in g[1])
        rest = [g for g in groups if g is not ref]
        minority = [d for g in rest for d in g[1]]
        sym = "different-values" if all(o[0] == "ok" for o in sout.values()) else "accept-vs-reject"
        vkey = ("multi", sym, {"g": "dotted-group", "dc": "dataclass-group"}[group], ",".join(shape(p) for p, _ in small), "-", label(minority, mem))
        what = "the options %s give %s; but the document gives, through %s" % (
            " ".join("--%s=%s" % (".".join(p), v) for p, v in small), show(ref[0]), "; ".join("%s: %s" % (label(g[1], mem), show(g[0])) for g in rest))
        viols.append((vkey, what[:900], {
            "parser": "ArgumentParser(exit_on_error=False, env_prefix='APP', parser_mode=<mode>); --cfg action=config; --g.k --g.o --g.h.z int=0; --dc of type "
                      "`@dataclass DCM: k: int = 0; o: int = 0; h: DCH = DCH()` with `@dataclass DCH: z: int = 0`",
            "json_document": sdoc, "found_in_document": doc, "outcomes": {"%s/%s" % d[:2]: show(o) for d, o in sout.items()}}))
    accepted = sum(1 for o in out.values() if o[0] == "ok")
    return ("case", "multi:%s:%s" % (group, doc), 1, viols, accepted, len(out))


def enumerate_multi(thorough):
    for group in ("g", "dc"):
        seen = set()
        leaves = list(MULTI)
        for r in (1, 2, 3):
            for subset in itertools.combinations(leaves, r):
                for spell in itertools.product(*[spellings(group, leaf) for leaf in subset]):
                    for order in itertools.permutations(range(r)):
                        items = [(spell[i], MULTI[subset[i]]) for i in order]
                        text = json.dumps(build_doc(items))
                        if text in seen:
                            continue
                        seen.add(text)
                        yield ("multi", group, items, thorough or r == 2)


# ---------------------------------------------------------------------------------------------- enumeration
def enumerate_settings(thorough, rng):
    leaves, d1, d2 = terms(thorough)
    n = 0
    for depth, ts in ((0, leaves), (1, d1), (2, d2)):
        for t in ts:
            vals = values(t, rich=(depth == 0 or t in (("list", "str"), ("dict", "str"))))
            if not thorough and depth == 1 and t[0] == "union":
                vals = vals[:8]
            if not thorough and depth == 2:
                vals = vals[:4] + vals[-2:]
            for i, v in enumerate(vals):
                if v is None and not admits_none(t) and t not in NULL_TYPES:
                    continue  # bound: a top-level null at a type without None only at the representative types NULL_TYPES
                n += 1
                # position: flat for every setting; in the quick tier the dotted group and the dataclass group for every third one each
                jsonnet = (i == 1 and depth <= 1 and (thorough or t[0] != "union")) or depth == 0 or (thorough and i % 3 == 0)
                yield (t, v, "k", jsonnet, thorough)
                if thorough or n % 4 == 0:
                    yield (t, v, "g.k", jsonnet and depth == 0, thorough)
                if thorough or n % 4 == 2:
                    yield (t, v, "dc.k", jsonnet and depth == 0, thorough)
                if depth == 0 and (thorough or n % 2 == 1):
                    yield (t, v, "values", False, thorough)
                    yield (t, v, "g.items", False, thorough)
    if thorough:
        # seeded random values: mutate conforming values of random depth-2 terms at one random position
        pool = d1 + d2
        for _ in range(2000):
            t = rng.choice(pool)
            vals = values(t, rich=False)
            v = rng.choice([x for x in vals if x is not None or admits_none(t)])
            if isinstance(v, list) and v:
                v = list(v)
                v[rng.randrange(len(v))] = rng.choice(WRONG_SCALARS + [7, 1.5, True])
            elif isinstance(v, dict) and v:
                v = dict(v)
                v[rng.choice(sorted(v))] = rng.choice(WRONG_SCALARS + [7, 1.5, True])
            yield (t, v, rng.choice(["k", "g.k", "dc.k"]), rng.random() < 0.2, True)


# ---------------------------------------------------------------------------------------------- after a rejected parse
class HBase:
    def __init__(self, x: int = 0):
        self.x = x


class HSub(HBase):
    def __init__(self, x: int = 0, y: int = 0):
        super().__init__(x)


def after_rejection_part(h, tmp):
    """The channels agree on a parser that has just rejected an input, exactly as they do on a fresh one: what one parse left behind
    (an aborted namespace, a context variable) must not reach some channels of the next parse and not others."""
    from jsonargparse import ArgumentParser

    def make():
        p = ArgumentParser(exit_on_error=False, env_prefix="APP")
        p.add_argument("--cfg", action="config")
        p.add_argument("--model", type=HBase, default={"class_path": __name__ + ".HBase"})
        p.add_argument("--n", type=int, default=0)
        p.add_argument("--l", type=List[int], default=[1])
        return p

    with open(os.path.join(tmp, "bad.json"), "w") as f:
        f.write(json.dumps({"n": "not-a-number"}))
    sub = __name__ + ".HSub"
    rejections = {
        "class-option-then-a-config-with-a-bad-value": lambda p: p.parse_args(["--model=" + sub, "--model.y=5", "--l+=2", "--cfg=bad.json"]),
        "class-option-then-a-config-string-with-an-unknown-key": lambda p: p.parse_args(["--model=" + sub, "--n=3", '--cfg={"zzq": 1}']),
        "bad-value-after-good-ones-on-argv": lambda p: p.parse_args(["--model=" + sub, "--l+=2", "--n=x"]),
        "bad-config-text": lambda p: p.parse_string(json.dumps({"model": {"class_path": sub, "init_args": {"y": "bad"}}})),
        "bad-object": lambda p: p.parse_object({"model": {"class_path": sub}, "n": "x"}),
    }
    settings = {"init_args-only": {"model": {"init_args": {"x": 1}}}, "append": {"l+": [5]}, "plain": {"n": 4}}

    def deliveries(p, doc):
        out = {}
        with open(os.path.join(tmp, "ar.json"), "w") as f:
            f.write(json.dumps(doc))
        runs = {"cfgfile": lambda: p.parse_args(["--cfg=ar.json"]), "cfgstr": lambda: p.parse_args(["--cfg=" + json.dumps(doc)]), "string": lambda: p.parse_string(json.dumps(doc)),
                "path": lambda: p.parse_path("ar.json"), "object": lambda: p.parse_object(json.loads(json.dumps(doc)))}
        for ch, fn in runs.items():
            try:
                with quiet():
                    r = fn().clone()
                r.pop("cfg", None)
                out[ch] = ["ok", norm(r)]
            except BaseException:  # noqa
                out[ch] = ["rej"]
        return out

    cwd = os.getcwd()
    os.chdir(tmp)
    try:
        for sname, doc in settings.items():
            fresh = deliveries(make(), doc)
            for rname, reject in rejections.items():
                p = make()
                try:
                    with quiet():
                        reject(p)
                    rejected = False
                except BaseException:  # noqa
                    rejected = True
                if not rejected:
                    h.note("after-rejection: the input %r was not rejected; case skipped" % rname)
                    continue
                used = deliveries(p, doc)
                differ = sorted(ch for ch in used if json.dumps(used[ch], sort_keys=True, default=str) != json.dumps(fresh[ch], sort_keys=True, default=str))
                h.check(not differ, "c05:after-a-rejected-parse:%s:%s:channels-that-answer-differently:%s" % (rname, sname, ",".join(differ)),
                        "after the rejected parse, %s answer differently from a fresh parser (and so from the other channels) for %r" % (differ, doc),
                        {"parser": "--cfg (config), --model: HBase = HBase, --n: int = 0, --l: List[int] = [1]", "rejected first": rname, "then": doc,
                         "fresh": {ch: fresh[ch] for ch in differ}, "used": {ch: used[ch] for ch in differ}})
                h.nontrivial(("after-rejection", rname, sname))
    finally:
        os.chdir(cwd)


# ---------------------------------------------------------------------------------------------- JSON documents across parser modes
JSON_DOCS = {
    "surrogate-pair-escape": ('{"s": "\\ud83d\\ude00"}', "s"), "unicode-escapes": ('{"s": "\\u00e9\\n\\t"}', "s"), "string-with-hash": ('{"s": "a #b"}', "s"), "string-with-colon": ('{"s": "a: b"}', "s"),
    "string-???": ('{"s": "???"}', "s"), "string-${x}": ('{"s": "${x}"}', "s"), "string-${oc.env:HOME}": ('{"s": "${oc.env:HOME}"}', "s"), "string-looks-like-jsonnet": ('{"s": "std.length([1])"}', "s"),
    "int-beyond-2^63": ('{"i": 12345678901234567890}', "i"), "int-beyond-2^53-in-a-list": ('{"l": [9007199254740993]}', "l"), "int": ('{"i": -7}', "i"),
    "float-1.0-at-Union[int,float]": ('{"u": 1.0}', "u"), "float-1.0-at-Any": ('{"a": 1.0}', "a"), "float-1.0-at-float": ('{"f": 1.0}', "f"), "float-1e5": ('{"f": 1e5}', "f"), "float-1e2-at-int": ('{"i": 1e2}', "i"),
    "negative-zero": ('{"f": -0.0}', "f"), "float-overflow": ('{"f": 1e400}', "f"), "duplicate-key": ('{"i": 1, "i": 2}', "i"), "empty-mapping": ('{"d": {}}', "d"), "dotted-key-inside-a-dict": ('{"d": {"a.b": 1}}', "d"),
    "null-at-Optional": ('{"o": null}', "o"), "true-at-bool": ('{"b": true}', "b"), "nested-list": ('{"a": [[1, "x"], {"k": null}]}', "a"),
}


def json_documents_part(h):
    """One JSON document is read identically under the yaml, json, jsonnet and omegaconf parser modes (last sentence of the statement):
    parse_string of the same text under each mode; json mode (Python's json.loads) is the reference reading."""
    from typing import Any
    from jsonargparse import ArgumentParser

    def mk(mode):
        p = ArgumentParser(exit_on_error=False, parser_mode=mode)
        for k, t in (("s", str), ("i", int), ("u", Union[int, float]), ("a", Any), ("f", float), ("d", Dict[str, Any]), ("l", List[int]), ("o", Optional[int]), ("b", bool)):
            p.add_argument("--" + k, type=t)
        return p

    def read(mode, text, key):
        try:
            with quiet():
                v = mk(mode).parse_string(text)[key]
            return "%s:%r" % (type(v).__name__, v)
        except BaseException as ex:  # noqa
            return "rejected"

    for name, (text, key) in JSON_DOCS.items():
        ref = read("json", text, key)
        for mode in ("yaml", "jsonnet", "omegaconf"):
            got = read(mode, text, key)
            h.check(got == ref, "c05:json-document-across-modes:%s:%s-%s" % (name, mode, "reads-it-differently" if got != "rejected" and ref != "rejected" else "rejects-it" if got == "rejected" else "accepts-it"),
                    "the JSON document %s is read as %s in json mode and as %s in %s mode" % (text, ref, got, mode), {"document": text, "json mode": ref, mode + " mode": got})
            h.nontrivial(("json-doc", name, mode))


def main():
    h = Harness("b05_channels", rule="one evaluation = one (type, value, key position) setting delivered through every planned channel/mode/spelling and compared "
                "within its scope (1 scope, or 2 for settings whose command line text is ambiguous); distinct non-trivial = distinct setting; a setting "
                "is vacuous only if it had no delivery at all")
    jobs = 12
    limit = 0
    for a in h.extra:
        if a.startswith("--jobs="):
            jobs = int(a[7:])
        if a.startswith("--limit="):  # debugging aid only
            limit = int(a[8:])
    settings = list(enumerate_multi(h.thorough)) + list(enumerate_settings(h.thorough, h.rng))
    if limit:
        settings = settings[:: max(1, len(settings) // limit)]
    multi = [x for x in settings if x[0] == "multi"]
    single = [x for x in settings if x[0] != "multi"]
    chunks = [multi[i: i + 10] for i in range(0, len(multi), 10)] + [single[i: i + 40] for i in range(0, len(single), 40)]
    stats = {"deliveries": 0, "accepted": 0, "all_accept": 0, "all_reject": 0}
    if jobs > 1:
        ctx = multiprocessing.get_context("fork")
        with ctx.Pool(min(jobs, 16)) as pool:
            collect(h, pool.imap(run_chunk, chunks), stats)
    else:
        collect(h, map(run_chunk, chunks), stats)
    import tempfile
    with tempfile.TemporaryDirectory(prefix="b05_ar_") as artmp:
        after_rejection_part(h, artmp)
    json_documents_part(h)
    h.note("deliveries (single parses): %(deliveries)d, accepted: %(accepted)d; settings accepted by every channel: %(all_accept)d, rejected by every channel: %(all_reject)d" % stats)
    leaves, d1, d2 = terms(h.thorough)
    sys.exit(h.finish(exhaustive=True, bound="types: %d leaves, %d of depth 1 (Optional, List, Dict[str,.], Tuple[.,...], Set of every leaf; 6 fixed tuples; every ordered pair of "
                      "leaves as a Union; every permutation of 3 three-member unions), %d selected of depth 2; values: type-directed conforming values, values wrong at one "
                      "position (top-level null at a type without None only at %d representative types), %d look-alike strings at str positions; key flat%s; channels argv, env, "
                      "parse_env, --cfg file, --cfg string, env config, parse_string, parse_path, parse_object, whole-group option (dataclass) x dotted/nested spelling x "
                      "parser_mode yaml (all channels) / json / omegaconf (%s) (+ jsonnet on argv and parse_string for %s)%s; several keys in one "
                      "document: every non-empty subset of {G.k, G.o, G.h.z} (G a dotted group / a dataclass group) x every spelling of every key (each dot splits "
                      "or stays inside a mapping key) x every order of the keys, through parse_string, parse_object, --cfg string (yaml, json, omegaconf), "
                      "--cfg file, parse_path, env config (yaml), parse_string (jsonnet), against the same options on the command line; 3 settings through 5 config-side "
                      "channels on a parser that has just rejected one of 5 inputs, against a fresh parser; %d JSON documents (escapes, numbers at the limits of doubles, strings that mean "
                      "something to a loader, duplicate keys) under the 4 parser modes"
                      % (len(leaves), len(d1), len(d2), len(NULL_TYPES), len(TRICKY),
                         ", dotted group and dataclass group" if h.thorough else " (every setting), dotted group and dataclass group (every fourth setting each)",
                         "all channels" if h.thorough else "argv, parse_string, parse_object at the flat key",
                         "the leaf types, one value of every depth-1 type" + ("" if h.thorough else " that is not a Union") + (", every third value of every type at the flat key" if h.thorough else ""), "; + 2000 seeded random mutated values" if h.thorough else "",
                         len(JSON_DOCS))))


def collect(h, results, stats):
    pending = {}  # violations that differ only in the key position (flat / nested / dataclass) are reported under one key
    collect_cases(h, results, stats, pending)
    for (scope, sym, tname, vjson, lab), rec in pending.items():
        vkey = "c05:%s:%s:%s:%s:%s:%s" % (scope, sym, tname, vjson, "+".join(rec["positions"]), lab)
        if len(vkey) > 148:
            vkey = vkey[:140] + "~%04d" % (sum(map(ord, vkey)) % 10000)
        for _ in rec["positions"]:
            h.check(False, vkey, rec["what"], rec["case"])


def collect_cases(h, results, stats, pending):
    for chunk in results:
        for rec in chunk:
            if rec[0] == "note":
                h.note(rec[1])
                continue
            _, sig, nscopes, viols, accepted, total = rec
            stats["deliveries"] += total
            stats["accepted"] += accepted
            stats["all_accept"] += accepted == total
            stats["all_reject"] += accepted == 0
            for v in viols:
                scope, sym, tname, vjson, pos, lab = v[0]
                merged = pending.setdefault((scope, sym, tname, vjson, lab), {"positions": [], "what": v[1], "case": v[2]})
                if pos not in merged["positions"]:
                    merged["positions"].append(pos)
            for _ in range(nscopes - len(viols)):
                h.check(True, sig)
            h.nontrivial(sig)
            if not viols and accepted and accepted < total and len(h.samples) < 5:
                h.sample({"setting": sig, "accepted": accepted, "deliveries": total})
            elif not viols and len(h.samples) < 3 and h.evaluations % 211 == 0:
                h.sample({"setting": sig, "accepted": accepted, "deliveries": total})


if __name__ == "__main__":
    main()
