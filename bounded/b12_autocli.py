"""C12 bounded stand-in: auto_cli calls the selected component exactly once with exactly the parsed values.

Contract on the real `jsonargparse.auto_cli` (nothing inside jsonargparse is wrapped, the *callee* is instrumented):
every generated component records the arguments it is called with and returns a fresh token.  For a generated signature
and a value assignment (each parameter: given on argv / given through --config / omitted) the reference model below
(written from the property statement, it never calls into jsonargparse) says

  * some parameter without default and without Optional type is omitted  ->  auto_cli must not succeed and must not
    call anything (in particular it must not try to call the component without the parameter -> TypeError);
  * otherwise -> exactly one call of the selected component (class: exactly one constructor call, then exactly one call
    of the chosen method, nothing else), every parameter bound to the hand-written converted value of the given text /
    config value, or to the signature default, or to None for an omitted Optional parameter without default; the
    constructor and the method receive exactly their own parameters; auto_cli returns the callee's token.

Values are compared *strictly* (type and value, recursively: 1 != 1.0 != True, list != tuple).

Enumeration (deterministic, see `bound` in the output):
  quick    n=1: every type of the grammar x {POK,KWO} x {required, default, default None} x as_positional in {T,F} x every
           value x {argv '=', argv ' ', config string, config file} + omission; n=2: every valid shape sequence x rotating
           types x all 3^2 assignments; n=3: every valid shape sequence x rotating types x 8 named assignments; lists of 2-3
           functions, nested dicts (depth 2, with a class inside), classes with 1-3 methods (plain, static, class methods,
           property) x 7 class plans, also inside a list / nested dict; classes without public methods (the instance is
           returned) and inherited methods; a small separate family of legal signatures outside the generated grammar that
           collide with auto_cli's own bookkeeping (parameters called config / subcommand, a constructor parameter named
           like a method, a positional-only parameter) - each with its own tight key.
  thorough the same with denser type rotation, plus 5000 seeded random signatures with 4-6 parameters.

Command lines that are ambiguous by construction are not generated (a required positional that is not on argv followed by
a later bare token; a bare token starting with '-' that is not a plain negative number).
"""
import enum
import itertools
import json
import os
import sys
import tempfile
import zlib
from typing import Dict, List, Literal, Optional, Set, Tuple, Union

from bounded.common import Harness, outcome

from jsonargparse import auto_cli
from jsonargparse.typing import Path_fr, PositiveInt

CALLS: list = []  # (component name, {param: value}, token)


class Color(enum.Enum):
    RED = 1
    GREEN = 2
    BLUE = 3


class PathWant:
    """Expected value of a Path_fr parameter: an instance of Path_fr whose string is the given path."""

    def __init__(self, path):
        self.path = path

    def __repr__(self):
        return "Path_fr(<tmp>/%s)" % os.path.basename(self.path)


class IntLike:
    """Expected value of a PositiveInt parameter: the declared type is an int subclass, so any int (not bool) equal to n."""

    def __init__(self, n):
        self.n = n

    def __repr__(self):
        return "PositiveInt(%d)" % self.n


def same(got, want):
    """Strict structural equality: same type and same value, recursively."""
    if isinstance(want, PathWant):
        return isinstance(got, Path_fr) and str(got) == want.path
    if isinstance(want, IntLike):
        return isinstance(got, int) and not isinstance(got, bool) and got == want.n
    if type(got) is not type(want):
        return False
    if isinstance(want, (list, tuple)):
        return len(got) == len(want) and all(same(g, w) for g, w in zip(got, want))
    if isinstance(want, dict):
        return set(got.keys()) == set(want.keys()) and all(same(got[k], want[k]) for k in want)
    if isinstance(want, (set, frozenset)):
        return got == want and sorted(map(repr, got)) == sorted(map(repr, want))
    return got == want


class Val:
    def __init__(self, text, cfg, want, bare=True):
        self.text, self.cfg, self.want, self.bare = text, cfg, want, bare  # bare: usable as a separate argv token


class TS:
    """A type of the grammar with hand-written (text, config value, converted value) triples and a conforming default."""

    def __init__(self, code, ann, vals, default, optional=False):
        self.code, self.ann, self.vals, self.default, self.optional = code, ann, vals, default, optional


NODEFAULT = object()


def type_table(tmp):
    existing = os.path.join(tmp, "exists.txt")
    with open(existing, "w") as f:
        f.write("x")
    V = Val
    T = [
        TS("str", str, [V("abc", "abc", "abc"), V("hello world", "hello world", "hello world"), V("1e3", "1e3", "1e3"),
                        V("true", "true", "true"), V("007", "007", "007"), V("", "", ""), V("-x", "-x", "-x", bare=False),
                        V("[1, 2]", "[1, 2]", "[1, 2]")], "dflt"),
        TS("int", int, [V("5", 5, 5), V("-3", -3, -3), V("0", 0, 0)], 11),
        TS("float", float, [V("2.5", 2.5, 2.5), V("3", 3, 3.0), V("-1e3", -1000.0, -1000.0, bare=False)], 0.25),
        TS("bool", bool, [V("true", True, True), V("false", False, False)], False),
        TS("Lit[a,b]", Literal["a", "b"], [V("a", "a", "a"), V("b", "b", "b")], "b"),
        TS("Lit[1,x]", Literal[1, "x"], [V("1", 1, 1), V("x", "x", "x")], "x"),
        TS("Color", Color, [V("RED", "RED", Color.RED), V("BLUE", "BLUE", Color.BLUE)], Color.GREEN),
        TS("PosInt", PositiveInt, [V("4", 4, IntLike(4)), V("1", 1, IntLike(1))], 9),
        TS("Path_fr", Path_fr, [V(existing, existing, PathWant(existing))], NODEFAULT),
        TS("Opt[int]", Optional[int], [V("3", 3, 3), V("null", None, None)], 12, optional=True),
        TS("Opt[str]", Optional[str], [V("abc", "abc", "abc"), V("null", None, None)], "od", optional=True),
        TS("Opt[bool]", Optional[bool], [V("true", True, True), V("null", None, None)], True, optional=True),
        TS("Opt[float]", Optional[float], [V("1.5", 1.5, 1.5)], 0.5, optional=True),
        TS("Opt[Color]", Optional[Color], [V("RED", "RED", Color.RED), V("null", None, None)], Color.BLUE, optional=True),
        TS("U[int,str]", Union[int, str], [V("7", 7, 7), V("abc", "abc", "abc")], 1),
        TS("U[str,int]", Union[str, int], [V("abc", "abc", "abc")], "u"),
        TS("U[bool,str]", Union[bool, str], [V("true", True, True), V("abc", "abc", "abc")], "w"),
        TS("U[float,bool]", Union[float, bool], [V("0.5", 0.5, 0.5), V("true", True, True)], 1.5),
        TS("U[int,float,str]", Union[int, float, str], [V("7", 7, 7), V("7.5", 7.5, 7.5), V("abc", "abc", "abc")], 2.5),
        TS("U[Color,int]", Union[Color, int], [V("RED", "RED", Color.RED), V("6", 6, 6)], 3),
        TS("U[int,None]", Union[int, None], [V("8", 8, 8), V("null", None, None)], 13, optional=True),
        TS("L[int]", List[int], [V("[1, 2]", [1, 2], [1, 2]), V("[]", [], []), V("[-1]", [-1], [-1])], [7]),
        TS("L[str]", List[str], [V('["a", "b"]', ["a", "b"], ["a", "b"]), V("[a, b c]", ["a", "b c"], ["a", "b c"])], ["z"]),
        TS("L[bool]", List[bool], [V("[true, false]", [True, False], [True, False])], [True]),
        TS("L[float]", List[float], [V("[1, 2.5]", [1, 2.5], [1.0, 2.5])], [0.5]),
        TS("L[Color]", List[Color], [V("[RED, BLUE]", ["RED", "BLUE"], [Color.RED, Color.BLUE])], [Color.GREEN]),
        TS("D[str,int]", Dict[str, int], [V('{"a": 1, "b": 2}', {"a": 1, "b": 2}, {"a": 1, "b": 2}), V("{}", {}, {})], {"d": 0}),
        TS("D[str,str]", Dict[str, str], [V('{"k": "v"}', {"k": "v"}, {"k": "v"})], {"d": "e"}),
        TS("T[int]", Tuple[int], [V("[4]", [4], (4,))], (1,)),
        TS("T[int,str]", Tuple[int, str], [V('[1, "a"]', [1, "a"], (1, "a"))], (0, "t")),
        TS("T[int,str,bool]", Tuple[int, str, bool], [V('[1, "a", true]', [1, "a", True], (1, "a", True))], (0, "t", False)),
        TS("T[int,...]", Tuple[int, ...], [V("[1, 2, 3]", [1, 2, 3], (1, 2, 3)), V("[]", [], ())], (9,)),
        TS("S[int]", Set[int], [V("[1, 2]", [1, 2], {1, 2})], {5}),
        TS("S[str]", Set[str], [V('["a"]', ["a"], {"a"})], {"s"}),
    ]
    return T


# ---------------------------------------------------------------------------------------------------------------------
# generated components


class P:
    """One parameter: type, default mode ('req' | 'dflt' | 'none'), keyword-only flag."""

    def __init__(self, name, ts, mode, kwonly):
        self.name, self.ts, self.mode, self.kwonly = name, ts, mode, kwonly

    @property
    def required(self):
        return self.mode == "req" and not self.ts.optional

    @property
    def fallback(self):
        """The value the callee must see when the parameter is omitted (statement: signature default, Optional -> None)."""
        if self.mode == "dflt":
            return self.ts.default
        return None  # default None, or Optional without default

    def descr(self):
        return f"{self.ts.code}/{self.mode}/{'kwo' if self.kwonly else 'pok'}"


def sig_source(params, ns, prefix):
    parts, star = [], False
    for p in params:
        if p.kwonly and not star:
            parts.append("*")
            star = True
        ns[f"{prefix}_T_{p.name}"] = p.ts.ann
        s = f"{p.name}: {prefix}_T_{p.name}"
        if p.mode == "dflt":
            ns[f"{prefix}_D_{p.name}"] = p.ts.default
            s += f" = {prefix}_D_{p.name}"
        elif p.mode == "none":
            s += " = None"
        parts.append(s)
    return ", ".join(parts)


def record_body(label, params, indent):
    d = ", ".join(f"{p.name!r}: {p.name}" for p in params)
    return (f"{indent}_tok = ('ret', {label!r}, len(CALLS))\n"
            f"{indent}CALLS.append(({label!r}, {{{d}}}, _tok))\n"
            f"{indent}return _tok\n")


def make_function(name, params):
    ns = {"CALLS": CALLS, "__name__": __name__}
    src = f"def {name}({sig_source(params, ns, 'f')}):\n" + record_body(name, params, "    ")
    exec(src, ns)
    return ns[name]


def make_class(name, init_params, methods):
    """methods: list of (method name, kind in plain|static|class|prop, params)."""
    ns = {"CALLS": CALLS, "__name__": __name__}
    src = f"class {name}:\n"
    d = ", ".join(f"{p.name!r}: {p.name}" for p in init_params)
    src += f"    def __init__(self{', ' if init_params else ''}{sig_source(init_params, ns, 'i')}):\n"
    src += f"        CALLS.append(({name + '.__init__'!r}, {{{d}}}, None))\n"
    for mname, kind, params in methods:
        label = f"{name}.{mname}"
        sig = sig_source(params, ns, mname)
        if kind == "plain":
            src += f"    def {mname}(self{', ' if params else ''}{sig}):\n"
        elif kind == "static":
            src += f"    @staticmethod\n    def {mname}({sig}):\n"
        elif kind == "class":
            src += f"    @classmethod\n    def {mname}(cls{', ' if params else ''}{sig}):\n"
        else:
            src += f"    @property\n    def {mname}(self):\n"
        src += record_body(label, params, "        ")
    exec(src, ns)
    cls = ns[name]
    cls.__module__ = __name__
    globals()[name] = cls
    return cls


# ---------------------------------------------------------------------------------------------------------------------
# rendering of one parser level (function parameters, constructor parameters or method parameters)


class Level:
    def __init__(self, params, assign, vals):
        self.params, self.assign, self.vals = params, assign, vals  # assign[i] in argv|cfg|omit; vals[i]: Val or None

    def expected(self):
        """None if the level must be rejected, else {name: expected value}."""
        exp = {}
        for p, a, v in zip(self.params, self.assign, self.vals):
            if a == "omit":
                if p.required:
                    return None
                exp[p.name] = p.fallback
            else:
                exp[p.name] = v.want
        return exp

    def render(self, as_pos, style, tokens_follow):
        """-> (option tokens, positional tokens, config dict) or None when the command line would be ambiguous."""
        opts, pos, cfg = [], [], {}
        hole_cfg = hole_omit = False  # an earlier required positional is not on argv (given in the config / omitted)
        for p, a, v in zip(self.params, self.assign, self.vals):
            positional = p.required and as_pos
            if a == "omit":
                hole_omit = hole_omit or positional
            elif a == "cfg":
                cfg[p.name] = v.cfg
                hole_cfg = hole_cfg or positional
            elif positional:
                # after a positional that lives in the config a bare token would be taken for that positional: ambiguous.
                # after an *omitted* one the line has one bare token too few and must be rejected whatever shifts where.
                if hole_cfg or not v.bare:
                    return None
                pos.append(v.text)
            elif style == "=" or not v.bare:
                opts.append(f"--{p.name}={v.text}")
            else:
                opts += [f"--{p.name}", v.text]
        if hole_cfg and (tokens_follow or (hole_omit and pos)):
            return None
        return opts, pos, cfg


class Run:
    """Renders config dicts as a --config option (string or file)."""

    def __init__(self, tmp):
        self.tmp, self.n = tmp, 0

    def config_opt(self, cfg, form):
        text = json.dumps(cfg)
        if form == "str":
            return "--config=" + text
        self.n += 1
        path = os.path.join(self.tmp, f"cfg{self.n % 50}.json")
        with open(path, "w") as f:
            f.write(text)
        return "--config=" + path


def short(key):
    return key if len(key) < 140 else key[:120] + "~" + format(zlib.crc32(key.encode()), "08x")


def describe(params):
    return ",".join(p.descr() for p in params)


def culprit(levels_exp, got_levels):
    """First parameter whose value differs: -> 'name=type/mode/kind'."""
    for (label, params, exp), got in zip(levels_exp, got_levels):
        for p in params:
            if p.name not in got or not same(got[p.name], exp[p.name]):
                return p
    return None


def main():
    h = Harness("b12_autocli", rule="generated functions/classes record their calls; one evaluation = one auto_cli run checked against the reference "
                "model (exactly one call, every parameter strictly equal to the converted given value / signature default / None, token returned; or "
                "rejection without any call when a required parameter is omitted); non-trivial = distinct (component kind, signature, as_positional, "
                "assignment, values, channel form) with at least one parameter given or a required one omitted")
    with tempfile.TemporaryDirectory() as tmp:
        cwd = os.getcwd()
        try:
            bound = enumerate_all(h, tmp)
        finally:
            os.chdir(cwd)
    sys.exit(h.finish(exhaustive=True, bound=bound))


# ---------------------------------------------------------------------------------------------------------------------


class Ctx:
    def __init__(self, h, tmp):
        self.h, self.run, self.T = h, Run(tmp), type_table(tmp)
        self.counter = 0
        self.accepted = self.rejected = 0

    def pick_vals(self, params, assign, salt):
        return [None if a == "omit" else p.ts.vals[(salt + i) % len(p.ts.vals)] for i, (p, a) in enumerate(zip(params, assign))]


def check_run(cx, kind, descr, component, argv, as_pos, exp_levels, selected_labels, case_extra):
    """exp_levels: None (must be rejected) or list of (label, params, expected dict) in call order."""
    h = cx.h
    del CALLS[:]
    res = outcome(auto_cli, component, args=list(argv), as_positional=as_pos)
    calls = list(CALLS)
    argv_show = [a if not a.startswith("--config=" + cx.run.tmp) else "--config=<tmp>/" + os.path.basename(a) for a in argv]
    argv_show = [a.replace(cx.run.tmp, "<tmp>") for a in argv_show]
    case = {"component": kind, "signature": descr, "as_positional": as_pos, "argv": argv_show, "outcome": res, "calls": [(c[0], c[1]) for c in calls]}
    case.update(case_extra)
    base = f"c12:{kind}"
    cx.counter += 1
    if cx.counter % 1201 == 7:
        h.sample(case)
    if exp_levels is None:
        cx.rejected += 1
        if res[0] == "ok":
            return h.check(False, short(f"{base}:required-not-enforced:accepted:{descr}:{case_extra.get('plan')}"), "a required parameter was omitted but auto_cli succeeded", case)
        if res[0] == "exc" and res[1] == "TypeError":
            return h.check(False, short(f"{base}:required-not-enforced:TypeError:{descr}:{case_extra.get('plan')}"), "the component was invoked without a required parameter", case)
        return h.check(not calls, short(f"{base}:called-despite-rejection:{descr}:{case_extra.get('plan')}"), "something was called although the command line was rejected", case)
    cx.accepted += 1
    if res[0] != "ok":
        # name the parameters involved as tightly as possible: every given parameter's (type, channel, text)
        given = case_extra.get("given", "")
        return h.check(False, short(f"{base}:rejected:{res[1] if res[0] == 'exc' else 'exit' + str(res[1])}:{given}"), f"valid command line not accepted: {res}", case)
    labels = [c[0] for c in calls]
    if labels != selected_labels:
        return h.check(False, short(f"{base}:calls:{'+'.join(labels) or 'none'}!={'+'.join(selected_labels)}:{descr}"), "not exactly the expected calls", case)
    got_levels = [c[1] for c in calls]
    for (label, params, exp), got in zip(exp_levels, got_levels):
        if set(got) != set(exp):  # cannot happen with real signatures, kept for completeness
            return h.check(False, short(f"{base}:own-parameters:{label}"), "a callee received a different set of parameters", case)
    bad = culprit(exp_levels, got_levels)
    if bad is not None:
        src = case_extra.get("sources", {}).get(bad.name, "?")
        return h.check(False, short(f"{base}:value:{bad.descr()}:{src}"), f"parameter {bad.name} bound to a value different from the reference model", case)
    ok = same(res[1], calls[-1][2])
    return h.check(ok, short(f"{base}:return:{descr}"), "auto_cli did not return the callee's return value", case)


def src_descr(levels):
    """{param: 'argv:text' | 'cfg:json' | 'omit'} and a compact 'given' string for rejected-valid keys."""
    sources, given = {}, []
    for lv in levels:
        for p, a, v in zip(lv.params, lv.assign, lv.vals):
            if a == "omit":
                sources[p.name] = "omit"
            else:
                t = v.text if a == "argv" else json.dumps(v.cfg)
                if os.sep in t:
                    t = "<file>"
                sources[p.name] = f"{a}:{t}"
                given.append(f"{p.descr()}={a}:{t}")
    return sources, ";".join(given)


def run_function(cx, kind, fn, label, params, assign, salt, as_pos, style, form, path=(), nest_cfg=False, wrapper=None):
    """One run for a function reached through the subcommand `path` (empty for a single component)."""
    lv = Level(params, assign, cx.pick_vals(params, assign, salt))
    r = lv.render(as_pos, style, tokens_follow=False)
    if r is None:
        return False
    opts, pos, cfg = r
    argv = []
    body = (opts + pos) if salt % 2 == 0 else (pos + opts)
    if cfg and nest_cfg and path:
        nested = cfg
        for key in reversed(path):
            nested = {key: nested}
        argv.append(cx.run.config_opt(nested, form))  # one top-level config; the subcommands are named on argv as well
        argv += list(path) + body
    else:
        argv += list(path)
        if cfg:
            argv.append(cx.run.config_opt(cfg, form))
        argv += body
    exp = lv.expected()
    sources, given = src_descr([lv])
    descr = describe(params)
    plan = f"{'pos' if as_pos else 'opt'}:{','.join(assign)}:{style}:{form}{':top' if nest_cfg else ''}"
    component = wrapper if wrapper is not None else fn
    check_run(cx, kind, descr, component, argv, as_pos, None if exp is None else [(label, params, exp)], [label],
              {"plan": plan, "sources": sources, "given": given})
    if any(a != "omit" for a in assign) or exp is None:
        cx.h.nontrivial((kind, descr, plan, tuple(v.text if v else None for v in lv.vals), path))
    return True


def shapes(n):
    """Every valid sequence of (mode in req|dflt, kwonly) of length n: POK parameters first, POK defaults trailing."""
    out = []
    for k in range(n + 1):  # k positional-or-keyword parameters
        for ndef in range(k + 1):
            pok = [("req", False)] * (k - ndef) + [("dflt", False)] * ndef
            for kw in itertools.product(("req", "dflt"), repeat=n - k):
                out.append(pok + [(m, True) for m in kw])
    return out


def enumerate_all(h, tmp):
    cx = Ctx(h, tmp)
    T = cx.T
    N = len(T)
    names = ["alpha", "b", "c_3", "dd", "e", "f6"]

    # ---- family 1: single function, one parameter, exhaustive
    for ti, ts in enumerate(T):
        for kwonly in (False, True):
            for mode in ("req", "dflt", "none"):
                if mode == "dflt" and ts.default is NODEFAULT:
                    continue
                p = P("alpha", ts, mode, kwonly)
                fn = make_function("fn1", [p])
                for as_pos in (True, False):
                    if not as_pos and not p.required and not h.thorough:
                        continue  # as_positional only concerns required parameters; the no-effect half is left to the thorough tier
                    for vi in range(len(ts.vals)):
                        for a, style, form in (("argv", "=", "str"), ("argv", " ", "str"), ("cfg", "=", "str"), ("cfg", "=", "file")):
                            if form == "file" and vi and not h.thorough:
                                continue  # config files differ from config strings only in how the text is obtained
                            run_function(cx, "func", fn, "fn1", [p], [a], vi, as_pos, style, form)
                    run_function(cx, "func", fn, "fn1", [p], ["omit"], 0, as_pos, "=", "str")

    # ---- family 2: single function, two parameters: every shape x rotating type pairs x all 9 assignments
    step2 = 1 if h.thorough else 3
    salt = 0
    for shape in shapes(2):
        for base in range(0, N, step2):
            tss = [T[base % N], T[(base * 5 + 7) % N]]
            if any(m == "dflt" and ts.default is NODEFAULT for (m, k), ts in zip(shape, tss)):
                continue
            params = [P(names[i], ts, m, k) for i, ((m, k), ts) in enumerate(zip(shape, tss))]
            fn = make_function("fn2", params)
            for assign in itertools.product(("argv", "cfg", "omit"), repeat=2):
                salt += 1
                as_pos = salt % 2 == 0
                run_function(cx, "func", fn, "fn2", params, list(assign), salt, as_pos, "= "[salt % 2], ("str", "file")[salt // 2 % 2])
                if h.thorough:
                    run_function(cx, "func", fn, "fn2", params, list(assign), salt + 1, not as_pos, "= "[salt % 2], ("str", "file")[salt // 2 % 2])

    # ---- family 3: single function, three parameters: every shape x rotating types x named assignments
    step3 = 2 if h.thorough else 6
    plans3 = [("argv",) * 3, ("cfg",) * 3, ("argv", "cfg", "argv"), ("cfg", "argv", "cfg"), ("omit", "argv", "cfg"), ("argv", "omit", "argv"),
              ("cfg", "cfg", "omit"), ("omit",) * 3]
    for shape in shapes(3):
        for base in range(0, N, step3):
            tss = [T[(base + 11 * i * i + 3 * i) % N] for i in range(3)]
            if any(m == "dflt" and ts.default is NODEFAULT for (m, k), ts in zip(shape, tss)):
                continue
            params = [P(names[i], ts, m, k) for i, ((m, k), ts) in enumerate(zip(shape, tss))]
            fn = make_function("fn3", params)
            for assign in plans3:
                salt += 1
                done = run_function(cx, "func", fn, "fn3", params, list(assign), salt, salt % 2 == 0, "= "[salt // 2 % 2], ("str", "file")[salt % 2])
                if not done:
                    run_function(cx, "func", fn, "fn3", params, list(assign), salt, False, "= "[salt // 2 % 2], ("str", "file")[salt % 2])

    # ---- family 4: seeded random signatures with 4-6 parameters (thorough)
    if h.thorough:
        for _ in range(5000):
            n = h.rng.randint(4, 6)
            shape = h.rng.choice(shapes(n))
            tss = [h.rng.choice(T) for _ in range(n)]
            if any(m == "dflt" and ts.default is NODEFAULT for (m, k), ts in zip(shape, tss)):
                continue
            params = [P(names[i], ts, m, k) for i, ((m, k), ts) in enumerate(zip(shape, tss))]
            fn = make_function("fn6", params)
            for _ in range(4):
                assign = [h.rng.choice(("argv", "argv", "cfg", "omit")) for _ in range(n)]
                salt += 1
                run_function(cx, "func", fn, "fn6", params, assign, salt, h.rng.random() < 0.5, h.rng.choice("= "), h.rng.choice(("str", "file")))

    # ---- family 5: lists of 2-3 functions and nested dicts of functions
    def sig_pool(k, base):
        shape = shapes(k)[(base * 7) % len(shapes(k))]
        tss = [T[(base * 3 + 13 * i) % N] for i in range(k)]
        shape = [(("req" if ts.default is NODEFAULT else m), kw) for (m, kw), ts in zip(shape, tss)]
        # keep the signature valid: a required POK parameter may not follow a POK default
        seen_default = False
        fixed = []
        for (m, kw), ts in zip(shape, tss):
            if not kw and m == "dflt":
                seen_default = True
            if not kw and m == "req" and seen_default:
                kw = True
            fixed.append((m, kw, ts))
        fixed.sort(key=lambda s: s[1])
        return [P(names[i], ts, m, kw) for i, (m, kw, ts) in enumerate(fixed)]

    plans_by_n = {0: [()], 1: [("argv",), ("cfg",), ("omit",)], 2: [("argv", "argv"), ("cfg", "cfg"), ("argv", "cfg"), ("omit", "argv"), ("cfg", "omit")],
                  3: [("argv",) * 3, ("cfg",) * 3, ("argv", "cfg", "omit"), ("omit", "argv", "cfg")]}
    nlists = 40 if h.thorough else 12
    for li in range(nlists):
        k = 2 + li % 2
        sigs = [sig_pool((li + j) % 3 + 1 if (li + j) % 5 else 0, li * 3 + j) for j in range(k)]
        fns = [make_function(f"cmd{j}", sigs[j]) for j in range(k)]
        for j in range(k):
            for assign in plans_by_n[len(sigs[j])]:
                for nest in (False, True):
                    salt += 1
                    if nest and "cfg" not in assign:
                        continue
                    run_function(cx, "list", fns[j], f"cmd{j}", sigs[j], list(assign), salt, salt % 3 != 0, "= "[salt % 2], ("str", "file")[salt // 2 % 2],
                                 path=(f"cmd{j}",), nest_cfg=nest, wrapper=list(fns))
    ndicts = 30 if h.thorough else 10
    for di in range(ndicts):
        sigs = [sig_pool((di + j) % 3 + 1, di * 5 + j + 1) for j in range(4)]
        fns = [make_function(f"leaf{j}", sigs[j]) for j in range(4)]
        comp = {"grp": {"_help": "a group", "one": fns[0], "two": fns[1], "deep": {"three": fns[2]}}, "top": fns[3]}
        paths = [("grp", "one"), ("grp", "two"), ("grp", "deep", "three"), ("top",)]
        for j in range(4):
            for assign in plans_by_n[len(sigs[j])]:
                for nest in (False, True):
                    salt += 1
                    if nest and "cfg" not in assign:
                        continue
                    run_function(cx, "dict", fns[j], f"leaf{j}", sigs[j], list(assign), salt, salt % 3 != 0, "= "[salt % 2], ("str", "file")[salt // 2 % 2],
                                 path=paths[j], nest_cfg=nest, wrapper=comp)

    # ---- family 6: classes with 1-3 methods
    nclasses = 60 if h.thorough else 18
    kinds_cycle = ["plain", "plain", "static", "plain", "class", "plain"]
    for ci in range(nclasses):
        init_params = sig_pool(ci % 4, ci * 7 + 2) if ci % 4 else []
        nm = 1 + ci % 3
        methods = []
        for j in range(nm):
            mk = kinds_cycle[(ci + j) % len(kinds_cycle)]
            # method parameters deliberately reuse the constructor's parameter names (each must get only its own)
            methods.append((f"m{j}", mk, sig_pool((ci + j) % 3 + (0 if (ci + j) % 4 == 3 else 1), ci * 11 + j * 5 + 3)))
        if ci % 5 == 4:
            methods.append(("prop", "prop", []))
        cls = make_class(f"K{ci}", init_params, methods)
        for mname, mk, mparams in methods:
            run_class(cx, cls, f"K{ci}", init_params, mname, mk, mparams, salt + ci)
        # the class inside a dict and inside a list next to a function
        other = make_function("other", sig_pool(1, ci))
        mname, mk, mparams = methods[0]
        run_class(cx, cls, f"K{ci}", init_params, mname, mk, mparams, salt + ci + 1, path=(f"K{ci}",), wrapper=[other, cls], few=True)
        run_class(cx, cls, f"K{ci}", init_params, mname, mk, mparams, salt + ci + 2, path=("g", "k"), wrapper={"g": {"k": cls, "o": other}}, few=True)

    # ---- family 6b: a class-level config that also holds the settings of a method other than the one chosen on the command line; the chosen
    # method may have no parameters at all (its own section is then empty): each call still gets exactly its own parameters
    for ci in range(12 if h.thorough else 6):
        init_params = sig_pool(1 + ci % 2, ci * 13 + 5)
        other_params = sig_pool(1 + ci % 3, ci * 17 + 7)
        chosen_params = [] if ci % 2 == 0 else sig_pool(1, ci * 19 + 1)
        cls = make_class(f"Z{ci}", init_params, [("build", "plain", other_params), ("clean", "plain", chosen_params)])
        for as_pos in (True, False):
            for form in ("str", "file"):
                salt += 1
                li = Level(init_params, ["cfg"] * len(init_params), cx.pick_vals(init_params, ["cfg"] * len(init_params), salt))
                lo = Level(other_params, ["cfg"] * len(other_params), cx.pick_vals(other_params, ["cfg"] * len(other_params), salt + 1))
                lc = Level(chosen_params, ["omit" if not p.required else "argv" for p in chosen_params], cx.pick_vals(chosen_params, ["omit" if not p.required else "argv" for p in chosen_params], salt + 2))
                ri, ro, rc = li.render(as_pos, "=", tokens_follow=True), lo.render(as_pos, "=", tokens_follow=False), lc.render(as_pos, "=", tokens_follow=False)
                if ri is None or ro is None or rc is None or not ro[2]:
                    continue
                cfg = dict(ri[2])
                cfg["build"] = ro[2]
                argv = [cx.run.config_opt(cfg, form), "clean"] + rc[0] + rc[1]
                ei, ec = li.expected(), lc.expected()
                exp = [(f"Z{ci}.__init__", init_params, ei), (f"Z{ci}.clean", chosen_params, ec)] if ei is not None and ec is not None else None
                sources, given = src_descr([li, lc])
                descr = f"init({describe(init_params)}).clean({describe(chosen_params)})+config-section-of-build({describe(other_params)})"
                check_run(cx, "class", descr, cls, argv, as_pos, exp, [f"Z{ci}.__init__", f"Z{ci}.clean"], {"plan": f"{'pos' if as_pos else 'opt'}:cfg-also-holds-another-method", "sources": sources, "given": given})
                cx.h.nontrivial(("class-other-method-section", descr, as_pos, form))

    # ---- family 7: classes without public methods (the instance is the result) and inherited methods
    for ci in range(nclasses // 3):
        init_params = sig_pool(ci % 3 + 1, ci * 5 + 1)
        cls = make_class(f"N{ci}", init_params, [])
        for assign in plans_by_n[len(init_params)]:
            for as_pos in (True, False):
                salt += 1
                lv = Level(init_params, list(assign), cx.pick_vals(init_params, assign, salt))
                r = lv.render(as_pos, "= "[salt % 2], tokens_follow=False)
                if r is None:
                    continue
                argv = ([cx.run.config_opt(r[2], ("str", "file")[salt // 2 % 2])] if r[2] else []) + r[0] + r[1]
                exp = lv.expected()
                sources, given = src_descr([lv])
                del CALLS[:]
                res = outcome(auto_cli, cls, args=argv, as_positional=as_pos)
                calls = list(CALLS)
                descr = f"init({describe(init_params)})"
                plan = f"{'pos' if as_pos else 'opt'}:{','.join(assign)}"
                case = {"component": "class without methods", "signature": descr, "as_positional": as_pos, "argv": [a.replace(tmp, "<tmp>") for a in argv],
                        "outcome": res if res[0] != "ok" else ("ok", "instance of " + type(res[1]).__name__), "calls": [(c[0], c[1]) for c in calls]}
                if exp is None:
                    cx.rejected += 1
                    h.check(res[0] != "ok" and not (res[0] == "exc" and res[1] == "TypeError") and not calls,
                            short(f"c12:class0:required-not-enforced:{descr}:{plan}"), "a required constructor parameter was omitted", case)
                else:
                    cx.accepted += 1
                    ok = res[0] == "ok" and [c[0] for c in calls] == [f"N{ci}.__init__"] and type(res[1]) is cls
                    bad = culprit([("", init_params, exp)], [calls[0][1]]) if ok else None
                    h.check(ok and bad is None, short(f"c12:class0:{'value:' + bad.descr() + ':' + sources[bad.name] if bad else 'call'}:{descr}:{plan}"),
                            "class without methods: not exactly one constructor call with the reference values returning the instance", case)
                h.nontrivial(("class0", descr, plan, tuple(v.text if v else None for v in lv.vals)))
        # a method inherited from a base class is dispatched like an own one
        mparams = sig_pool(ci % 2 + 1, ci * 3 + 4)
        base_cls = make_class(f"B{ci}", [], [("inherited", "plain", mparams)])
        sub = type(f"S{ci}", (base_cls,), {"own": lambda self: None})
        sub.__module__ = __name__
        run_class(cx, sub, f"B{ci}", [], "inherited", "plain", mparams, salt + ci, few=True)

    # ---- family 8: legal signatures outside the generated grammar that collide with auto_cli's own bookkeeping
    unusual_signatures(cx)

    h.note(f"runs with expected acceptance: {cx.accepted}; with expected rejection: {cx.rejected}")
    if not (cx.accepted and cx.rejected):
        h.violation("b12_autocli:vacuous", "accepted or rejected inputs never occurred")
    return (f"{N} types of G(1); 1 parameter: exhaustive over type x kind x default mode x as_positional{'' if h.thorough else ' (required parameters only)'} x value x channel; 2 parameters: all shapes x "
            f"every {step2}th type pair rotation x all 9 assignments; 3 parameters: all 26 shapes x every {step3}th rotation x 8 assignments; "
            f"{nlists} lists, {ndicts} nested dicts (depth <= 3), {nclasses} classes with 1-3 methods (plain/static/class/property) x 7 plans, also inside "
            f"a list and a nested dict; {nclasses // 3} classes without methods and {nclasses // 3} inherited methods; reserved names config/subcommand, a constructor "
            f"parameter named like a method, a positional-only parameter" + ("; 5000 seeded random signatures with 4-6 parameters x 4 assignments" if h.thorough else ""))


def run_class(cx, cls, cname, init_params, mname, mkind, mparams, salt, path=(), wrapper=None, few=False):
    """Class plans: where the constructor's and the method's parameters come from."""
    ni, nm = len(init_params), len(mparams)
    plans = [
        ("argv/argv", ["argv"] * ni, ["argv"] * nm, "sub"),
        ("argv/cfg", ["argv"] * ni, ["cfg"] * nm, "sub"),           # --config after the method name
        ("cfg/cfg:top", ["cfg"] * ni, ["cfg"] * nm, "top"),          # one top-level config, method chosen by its key
        ("cfg/argv", ["cfg"] * ni, ["argv"] * nm, "sub"),
        ("min/min", ["argv" if p.required else "omit" for p in init_params], ["argv" if p.required else "omit" for p in mparams], "sub"),
        ("omit-init", ["omit" if i == ni - 1 else "argv" for i in range(ni)], ["argv"] * nm, "sub"),
        ("omit-method", ["argv"] * ni, ["omit" if i == 0 else "argv" for i in range(nm)], "sub"),
    ]
    if few:
        plans = plans[:3]
    for pi, (pname, ia, ma, where) in enumerate(plans):
        if mkind == "prop" and pi not in (0, 3, 5):
            continue
        for as_pos in (True, False):
            s = salt + pi
            li = Level(init_params, ia, cx.pick_vals(init_params, ia, s))
            lm = Level(mparams, ma, cx.pick_vals(mparams, ma, s + 1))
            style = "= "[s % 2]
            form = ("str", "file")[s // 2 % 2]
            argv = list(path)
            if where == "top":
                ri = li.render(as_pos, style, tokens_follow=False)
                rm = lm.render(as_pos, style, tokens_follow=False)
                if ri is None or rm is None:
                    continue
                cfg = dict(ri[2])
                if rm[2]:
                    cfg[mname] = rm[2]
                argv.append(cx.run.config_opt(cfg, form))
                if not rm[2] or s % 2:
                    if li.render(as_pos, style, tokens_follow=True) is None:
                        continue
                    argv.append(mname)
            else:
                ri = li.render(as_pos, style, tokens_follow=True)
                rm = lm.render(as_pos, style, tokens_follow=False)
                if ri is None or rm is None:
                    continue
                if ri[2]:
                    argv.append(cx.run.config_opt(ri[2], form))
                argv += ri[0] + ri[1] if s % 2 else ri[1] + ri[0]
                argv.append(mname)
                if rm[2]:
                    if mkind == "prop":
                        continue
                    argv.append(cx.run.config_opt(rm[2], form))
                argv += rm[0] + rm[1] if s % 3 else rm[1] + rm[0]
            ei, em = li.expected(), lm.expected()
            exp = None
            if ei is not None and em is not None:
                exp = [(cname + ".__init__", init_params, ei), (f"{cname}.{mname}", mparams, em)]
            sources, given = src_descr([li, lm])
            kind = "class" if not path else ("list+class" if isinstance(wrapper, list) else "dict+class")
            descr = f"init({describe(init_params)}).{mkind}({describe(mparams)})"
            check_run(cx, kind, descr, wrapper if wrapper is not None else cls, argv, as_pos, exp, [cname + ".__init__", f"{cname}.{mname}"],
                      {"plan": f"{'pos' if as_pos else 'opt'}:{pname}", "sources": sources, "given": given})
            cx.h.nontrivial((kind, descr, pname, as_pos, tuple(argv[len(path):]) if where != "top" or form == "str" else (pname, s)))


def unusual_signatures(cx):
    """Parameters called `config` / `subcommand`: the statement quantifies over any function or class with supported type
    hints, and auto_cli uses these two keys itself.  Only silent loss of a given value is asserted (a refusal to build the
    CLI with an explicit error is not)."""
    h = cx.h
    str_ts = next(t for t in cx.T if t.code == "str")
    for pname in ("config", "subcommand"):
        for mode in ("dflt", "req"):
            p = P(pname, str_ts, mode, False)
            for where in ("function", "method"):
                if where == "function":
                    comp = make_function("fres", [p])
                    prefix, labels = [], ["fres"]
                else:
                    comp = make_class("KRes", [], [("run", "plain", [p])])
                    prefix, labels = ["run"], ["KRes.__init__", "KRes.run"]
                for as_pos in (True, False):
                    arg = "given" if (mode == "req" and as_pos) else f"--{pname}=given"
                    del CALLS[:]
                    res = outcome(auto_cli, comp, args=prefix + [arg], as_positional=as_pos)
                    calls = list(CALLS)
                    case = {"component": f"{where} with parameter {pname}: str" + (" = 'dflt'" if mode == "dflt" else ""), "argv": prefix + [arg],
                            "as_positional": as_pos, "outcome": res, "calls": [(c[0], c[1]) for c in calls]}
                    key = f"c12:reserved-name:{where}:{pname}:{mode}:{'pos' if as_pos else 'opt'}"
                    if res[0] == "exc" and res[1] == "ValueError":
                        h.note(f"{key}: building the CLI is refused with ValueError (argument '--{pname}' already exists) - not asserted")
                        continue
                    cx.accepted += 1
                    if res[0] != "ok":
                        # the given value was dropped before the call (TypeError: missing argument) or the valid input was rejected
                        h.check(False, key + ":" + (res[1] if res[0] == "exc" else "exit"), f"value given for parameter {pname} did not reach the callee: {res}", case)
                    else:
                        ok = [c[0] for c in calls] == labels and calls[-1][1].get(pname) == "given"
                        h.check(ok, key + ":value-dropped", f"parameter {pname} was given as 'given' but the callee saw {calls[-1][1] if calls else None}", case)
                    h.nontrivial(key)

    # a constructor parameter with the same name as a public method
    int_ts = next(t for t in cx.T if t.code == "int")
    cls = make_class("KSame", [P("run", int_ts, "dflt", False)], [("run", "plain", [P("alpha", int_ts, "dflt", False)])])
    for argv in (["run"], ["--run=5", "run", "--alpha=3"]):
        del CALLS[:]
        res = outcome(auto_cli, cls, args=argv)
        calls = list(CALLS)
        want = [("KSame.__init__", {"run": 5 if len(argv) > 1 else 11}), ("KSame.run", {"alpha": 3 if len(argv) > 1 else 11})]
        case = {"component": "class KSame: __init__(self, run: int = 11); def run(self, alpha: int = 11)", "argv": argv, "outcome": res,
                "calls": [(c[0], c[1]) for c in calls]}
        cx.accepted += 1
        h.check(res[0] == "ok" and [(c[0], c[1]) for c in calls] == want,
                f"c12:name-collision:init-param-equals-method:{res[1] if res[0] == 'exc' else res[0]}:{len(argv)}",
                "constructor parameter named like a method: not the expected constructor + method call", case)
        h.nontrivial(("same", tuple(argv)))

    # a positional-only parameter (keyword-only and positional-or-keyword are the generated kinds)
    ns = {"CALLS": CALLS, "__name__": __name__}
    exec("def fpo(alpha: int, /, b: int = 1):\n    CALLS.append(('fpo', {'alpha': alpha, 'b': b}, None))\n    return ('ret', alpha, b)", ns)
    for as_pos, argv in ((True, ["3", "--b=2"]), (False, ["--alpha=3", "--b=2"])):
        del CALLS[:]
        res = outcome(auto_cli, ns["fpo"], args=argv, as_positional=as_pos)
        case = {"component": "def fpo(alpha: int, /, b: int = 1)", "argv": argv, "as_positional": as_pos, "outcome": res, "calls": [(c[0], c[1]) for c in CALLS]}
        cx.accepted += 1
        h.check(res == ("ok", ("ret", 3, 2)) and [(c[0], c[1]) for c in CALLS] == [("fpo", {"alpha": 3, "b": 2})],
                f"c12:positional-only:{res[1] if res[0] == 'exc' else res[0]}:{'pos' if as_pos else 'opt'}",
                "function with a positional-only parameter was not called with the given values", case)
        h.nontrivial(("posonly", as_pos))

    # signature defaults that are strings which *read* as another member of the declared type: "bound ... or else to the signature default"
    from typing import Optional as _O, Union as _U
    ns = {"CALLS": CALLS, "__name__": __name__, "Optional": _O, "Union": _U}
    exec("def fdef(u: Union[int, str] = '5', o: Optional[str] = 'null', w: Union[bool, str] = 'true', s: str = '5', n: int = 3):\n"
         "    CALLS.append(('fdef', {'u': u, 'o': o, 'w': w, 's': s, 'n': n}, None))\n    return 'ret'", ns)
    want = {"u": "5", "o": "null", "w": "true", "s": "5", "n": 3}
    for argv in ([], ["--n=4"]):
        del CALLS[:]
        res = outcome(auto_cli, ns["fdef"], args=argv)
        exp = dict(want, n=4 if argv else 3)
        got = CALLS[-1][1] if CALLS else None
        case = {"component": "def fdef(u: Union[int, str] = '5', o: Optional[str] = 'null', w: Union[bool, str] = 'true', s: str = '5', n: int = 3)", "argv": argv, "outcome": res, "calls": [(c[0], c[1]) for c in CALLS]}
        cx.accepted += 1
        bad = sorted(k for k in exp if got is None or type(got.get(k)) is not type(exp[k]) or got.get(k) != exp[k])
        h.check(res[0] == "ok" and not bad, f"c12:default-reinterpreted:{','.join(bad) or (res[1] if res[0] == 'exc' else res[0])}",
                f"omitted parameters must be bound to their signature defaults {exp}, the callee saw {got}", case)
        h.nontrivial(("string-defaults", tuple(argv)))

    # an Enum member as the default of a Union that also admits str: the default is stored by its name and re-read through the Union
    ns = {"CALLS": CALLS, "__name__": __name__, "Optional": _O, "Union": _U, "Color": Color}
    exec("def fenum(a: Union[str, Color] = Color.RED, b: Union[Color, str] = Color.RED, c: Optional[Color] = Color.BLUE, d: Color = Color.RED, n: int = 3):\n"
         "    CALLS.append(('fenum', {'a': a, 'b': b, 'c': c, 'd': d, 'n': n}, None))\n    return 'ret'", ns)
    want = {"a": Color.RED, "b": Color.RED, "c": Color.BLUE, "d": Color.RED, "n": 3}
    for argv in ([], ["--n=4"]):
        del CALLS[:]
        res = outcome(auto_cli, ns["fenum"], args=argv)
        exp = dict(want, n=4 if argv else 3)
        got = CALLS[-1][1] if CALLS else None
        case = {"component": "def fenum(a: Union[str, Color] = Color.RED, b: Union[Color, str] = Color.RED, c: Optional[Color] = Color.BLUE, d: Color = Color.RED, n: int = 3)", "argv": argv,
                "outcome": res, "calls": [(c[0], {k: repr(v) for k, v in c[1].items()}) for c in CALLS]}
        cx.accepted += 1
        bad = sorted(k for k in exp if got is None or type(got.get(k)) is not type(exp[k]) or got.get(k) != exp[k])
        h.check(res[0] == "ok" and not bad, f"c12:default-reinterpreted:enum:{','.join(bad) or (res[1] if res[0] == 'exc' else res[0])}",
                f"omitted parameters must be bound to their signature defaults {exp}, the callee saw {got}", case)
        h.nontrivial(("enum-defaults", tuple(argv)))


if __name__ == "__main__":
    main()
