"""C19 bounded stand-in: path types accept exactly what the mode says; relative paths follow the config.

Everything that touches the file system runs in a CHILD PROCESS that has dropped to an unprivileged uid (the sandbox
user is root, for whom the os.access R/W checks are vacuous).  The uid actually used is recorded in the notes and in
the bound; if dropping privileges fails while running as root, the R/W/X/c flags are reported as NOT exercised.

Part M  Path._check_mode: ValueError iff the mode string is invalid, for every string of <= 3 (quick) / 4 (thorough)
        characters over the 13 flags + 2 foreign characters.
Part A  Path(spelling, mode[, cwd]) for every valid flag multiset of <= 4 flags (571 without u/s; the 429 with u/s in
        the thorough tier) x a fixture of 77 path kinds (files/directories/fifos with every interesting permission,
        symlinks, dangling and looping symlinks, missing with/without parent, paths through a file, '~', '.', '..',
        '', trailing slashes, '/dev/null', '-') x 4 variants (relative in cwd A, relative in cwd B, absolute,
        explicit cwd= argument).  Oracle: `mode_ok`, written from the class docstring flag by flag and fed by
        os.stat / os.lstat / os.access on the independently computed absolute location.
        accepted  <=> mode_ok;  rejected => PathError;  .relative == spelling;  .absolute is absolute and names
        join(cwd, expanduser(spelling)).
Part B  the registered path types and path_type(mode) through a real parser: accepted <=> mode_ok, else ArgumentError.
Part C  config files nested <= 3 deep (4 thorough) in different directories, referencing each other and data files
        relatively (sub-parser configs, subclass configs, list files whose content is / is not loadable as YAML - the
        two take different code paths), in 5 directory layouts (siblings, descending, ascending, same directory,
        absolute references; thorough: through symlinked directories), reached through parse_path / --cfg /
        default_config_files / get_defaults / environment, from several process working directories.  Every directory
        holds a decoy `data.txt`, so a path resolved against the wrong directory is *accepted* and only the oracle
        (realpath of the location relative to the referencing file) notices.  After succeeding and failing parses
        (a failure injected at each nesting level) os.getcwd() is unchanged and a fresh relative Path resolves against it.

Deliberately not asserted (unspecified by the statement/docstring; see the notes in the evidence):
  * a fifo under modes containing both 'f' and 'c' (plain 'f' accepts a fifo as a file, 'fc' refuses it as "already exists");
  * '-' (stdin/stdout) under modes that are not a subset of {f,r,w,c};
  * 'u'/'s' are treated as "URLs/fsspec allowed": they put no constraint on a local path.
"""
import errno
import itertools
import os
import pickle
import stat
import sys
import tempfile
from typing import List, Optional

from bounded.common import Harness, _jsonable, outcome

from jsonargparse import ActionConfigFile, ActionParser, ArgumentParser
from jsonargparse._util import Path
from jsonargparse.typing import Path_dc, Path_drw, Path_dw, Path_fc, Path_fr, path_type

FLAGS = "fdrwxcusFDRWX"
UNPRIV = 65534


# ----------------------------------------------------------------------------------------------------------------------
# recorder used inside the child (merged into the Harness by the parent)
class Rec:
    def __init__(self):
        self.evaluations = 0
        self.violations = []
        self.keys = set()
        self.distinct = set()
        self.samples = []
        self.notes = []
        self.stats = {}

    def check(self, ok, key, what="", case=None):
        self.evaluations += 1
        if not ok and key not in self.keys:
            self.keys.add(key)
            if len(self.violations) < 200:
                self.violations.append((key, what, _jsonable(case)))
        return ok

    def nontrivial(self, sig):
        self.distinct.add(sig)

    def sample(self, obj):
        if len(self.samples) < 5:
            self.samples.append(_jsonable(obj))

    def note(self, txt):
        self.notes.append(txt)

    def count(self, name, n=1):
        self.stats[name] = self.stats.get(name, 0) + n


# ----------------------------------------------------------------------------------------------------------------------
# reference model (from the Path docstring)
def valid_mode(m):
    if not isinstance(m, str) or any(ch not in FLAGS for ch in m):
        return False
    for ch in set(m):
        if m.count(ch) > (2 if ch == "c" else 1):
            return False
    return not ("d" in m and ("f" in m or "u" in m or "s" in m))


def all_modes(maxlen, with_us):
    """Every valid flag multiset with <= maxlen flags, as a string in canonical flag order, shortest first."""
    alphabet = [c for c in FLAGS if with_us or c not in "us"]
    out = []
    for n in range(0, maxlen + 1):
        for combo in itertools.combinations_with_replacement(alphabet, n):
            m = "".join(combo)
            if valid_mode(m):
                out.append(m)
    return out


class Facts:
    """What the file system says about one absolute location (independent of jsonargparse)."""

    def __init__(self, ap):
        self.ap = ap
        try:
            st = os.stat(ap)
            self.exists = True
            self.isdir, self.isreg, self.isfifo = stat.S_ISDIR(st.st_mode), stat.S_ISREG(st.st_mode), stat.S_ISFIFO(st.st_mode)
        except OSError as ex:
            self.exists = self.isdir = self.isreg = self.isfifo = False
            # why it does not exist (used only to give violations a canonical key)
            try:
                os.lstat(ap)
                self.nonexistent = "symlink-loop" if ex.errno == errno.ELOOP else "dangling-symlink"
            except PermissionError:
                self.nonexistent = "unreachable"
            except NotADirectoryError:
                self.nonexistent = "through-file"
            except OSError:
                self.nonexistent = "missing"
        self.filelike = self.isreg or self.isfifo
        self.r, self.w, self.x = (os.access(ap, f) for f in (os.R_OK, os.W_OK, os.X_OK))
        # creatable: the physical parent directory / the nearest existing ancestor
        parent = os.path.dirname(os.path.realpath(ap))
        self.c1 = os.path.isdir(parent) and os.access(parent, os.W_OK)
        anc = parent
        while not os.path.lexists(anc) and anc != os.path.dirname(anc):
            anc = os.path.dirname(anc)
        self.anc_isdir = os.path.isdir(anc)
        self.c2 = self.anc_isdir and os.access(anc, os.W_OK)
        self.through_nondir = os.path.lexists(anc) and not self.anc_isdir


def mode_ok(mode, f):
    """-> (accept, first unsatisfied flag or '') ; None for accept means 'unspecified, do not assert'."""
    nc = mode.count("c")
    if nc:
        if not (f.c1 if nc == 1 else f.c2):
            return False, "c" * nc
        if "d" in mode and f.exists and not f.isdir:
            return False, "dc-exists-nondir"
        if "f" in mode and f.exists and f.isfifo:
            return None, "fc-fifo-unspecified"
        if "f" in mode and f.exists and not f.isreg:
            return False, "fc-exists-nonfile"
    else:
        if "d" in mode and not (f.exists and f.isdir):
            return False, "d"
        if "f" in mode and not (f.exists and f.filelike):
            return False, "f"
    for flag, have in (("r", f.r), ("w", f.w), ("x", f.x)):
        if flag in mode and not have:
            return False, flag
    if "D" in mode and f.isdir:
        return False, "D"
    if "F" in mode and f.filelike:
        return False, "F"
    for flag, have in (("R", f.r), ("W", f.w), ("X", f.x)):
        if flag in mode and have:
            return False, flag
    return True, ""


# ----------------------------------------------------------------------------------------------------------------------
# fixture
def build_fixture(R):
    def mkfile(p, perm, text="x"):
        with open(p, "w") as fh:
            fh.write(text)
        os.chmod(p, perm)

    kinds = []  # (name, spelling relative to R, special)
    for name, perm in (("f_rw", 0o600), ("f_r", 0o400), ("f_w", 0o200), ("f_0", 0o000), ("f_rwx", 0o700), ("f_x", 0o100), ("f_rx", 0o500)):
        mkfile(os.path.join(R, name), perm)
        kinds.append((name, name))
    dirs = (("d_rwx", 0o700), ("d_rx", 0o500), ("d_wx", 0o300), ("d_x", 0o100), ("d_rw", 0o600), ("d_0", 0o000))
    for name, perm in dirs:
        os.makedirs(os.path.join(R, name, "sub"))
        mkfile(os.path.join(R, name, "in"), 0o600)
        kinds.append((name, name))
    os.makedirs(os.path.join(R, "d_rwx", "sub", "cwdB"))
    for name, perm in (("p_rw", 0o600), ("p_0", 0o000)):
        os.mkfifo(os.path.join(R, name), perm)
        os.chmod(os.path.join(R, name), perm)
        kinds.append((name, name))
    for name, target in (("l_file", "f_rw"), ("l_f0", "f_0"), ("l_dir", "d_rwx"), ("l_dangling", "nowhere_x"), ("l_dangling_ro", "d_rx/new"),
                         ("l_loop", "l_loop"), ("l_fifo", "p_rw"), ("l_drx", "d_rx")):
        os.symlink(target, os.path.join(R, name))
        kinds.append((name, name))
    os.makedirs(os.path.join(R, "home"))
    mkfile(os.path.join(R, "home", "f_home"), 0o600)
    mkfile(os.path.join(R, "sp ace"), 0o600)
    mkfile(os.path.join(R, "ünï"), 0o400)
    for sp in ("d_rwx/in", "d_rwx/new", "d_rwx/sub", "d_rx/in", "d_rx/new", "d_rx/sub", "d_wx/in", "d_wx/new", "d_x/in", "d_x/new", "d_rw/in", "d_rw/new",
               "d_0/in", "d_0/new", "d_0/sub", "l_dir/in", "l_dir/new", "l_drx/new", "l_file/x", "new", "nodir/new", "nodir/a/b/new", "d_rx/nodir/new", "d_0/nodir/new",
               "f_rw/x", "f_rw/x/y", "f_0/x", "f_r/x/y/z", "p_rw/x", "d_rwx/", "f_rw/", "new/", "d_rwx/.", "d_rwx/..", "./f_rw", "d_rwx//in", "d_rwx/../f_r", "nodir/../f_rw",
               "sp ace", "ünï", "home/f_home"):
        kinds.append((sp, sp))
    # finally the directory permissions (after their content exists)
    for name, perm in dirs:
        os.chmod(os.path.join(R, name), perm)
    return kinds


def restore_fixture(R):
    for name in ("d_rwx", "d_rx", "d_wx", "d_x", "d_rw", "d_0"):
        try:
            os.chmod(os.path.join(R, name), 0o700)
        except OSError:
            pass


SPECIAL = ["", ".", "..", "~", "~/f_home", "~/new", "~/nodir/new", "~nouser_xyz/x", "/dev/null", "/", "/nonexistent_xyz/a", "/dev/null/x"]


def slug(msg, R):
    """Canonical class of a PathError message: the text before the path."""
    msg = msg.replace(R, "<R>")
    return msg.split(":")[0].strip().replace(" ", "-")[:60]


# ----------------------------------------------------------------------------------------------------------------------
def part_mode_strings(rec, thorough):
    alphabet = FLAGS + "aC"
    maxlen = 4 if thorough else 3
    acc = rej = 0
    for n in range(0, maxlen + 1):
        for tup in itertools.product(alphabet, repeat=n):
            m = "".join(tup)
            res = outcome(Path._check_mode, m)
            want = valid_mode(m)
            ok = (res[0] == "ok") if want else (res[0] == "exc" and res[1] == "ValueError")
            rec.check(ok, f"c19:check_mode:{m}", f"_check_mode({m!r}) -> {res[:2]}, valid={want}", {"mode": m})
            acc += want
            rej += not want
    for bad in (None, 3, b"fr", ["f", "r"]):
        res = outcome(Path._check_mode, bad)
        rec.check(res[0] == "exc" and res[1] == "ValueError", f"c19:check_mode:nonstr:{type(bad).__name__}", f"non-string mode -> {res[:2]}", {"mode": repr(bad)})
    rec.nontrivial(("check_mode", acc, rej))
    rec.count("mode_strings_valid", acc)
    rec.count("mode_strings_invalid", rej)


CWDREL_KINDS = set()  # filled from the fixture: the first few kinds (quick tier: a relative cwd argument on a sample of kinds)


def part_path(rec, R, kinds, thorough, rng):
    CWDREL_KINDS.update(name for name, _ in kinds[:12])
    A = R
    B = os.path.join(R, "d_rwx", "sub", "cwdB")
    up = "../../../"
    modes = all_modes(4, with_us=False)
    rec.count("modes_without_us", len(modes))
    # a mode is a multiset of flags: the two c's of the doubled creatable flag need not stand next to each other (cfc == ccf)
    split_cc = [m.replace("c", "", 1) + "c" for m in modes if m.count("c") == 2 and len(m) >= 3 and not m.endswith("c")]
    rec.count("modes_with_separated_cc", len(split_cc))
    modes = modes + split_cc
    if thorough:
        extra = [m for m in all_modes(4, with_us=True) if "u" in m or "s" in m]
        rec.count("modes_with_us", len(extra))
        modes = modes + extra
        # the same multisets in a shuffled flag order
        shuffled = []
        for m in modes:
            if len(m) > 1:
                chars = list(m)
                rng.shuffle(chars)
                shuffled.append("".join(chars))
        modes = modes + shuffled

    # (kind, variant, process cwd, spelling, cwd argument)
    cases = []
    for name, sp in kinds:
        cases.append((name, "relA", A, sp, None))
        cases.append((name, "relB", B, up + sp, None))
        cases.append((name, "abs", B, os.path.join(R, sp), None))
        cases.append((name, "cwdarg", B, sp, A))
        if name in CWDREL_KINDS or thorough:
            cases.append((name, "cwdarg-rel", B, sp, os.path.relpath(A, B)))  # a cwd argument that is itself relative names a directory below the process cwd
        if thorough:
            cases.append((name, "pathlike", A, sp, None))
            cases.append((name, "copy", A, sp, None))
    for sp in SPECIAL:
        name = "special:" + (sp or "empty")
        cases.append((name, "relA", A, sp, None))
        cases.append((name, "relB", B, sp, None))
        cases.append((name, "cwdarg", B, sp, A))
    cases.append(("stdio:-", "relA", A, "-", None))
    cases.append(("stdio:-", "cwdarg", B, "-", A))

    accepted = rejected = 0
    reasons = {}
    for name, variant, pcwd, sp, cwdarg in cases:
        os.chdir(pcwd)
        expanded = os.path.expanduser(sp)
        base = os.path.join(pcwd, cwdarg) if cwdarg else pcwd
        expected_abs = expanded if os.path.isabs(expanded) else os.path.join(base, expanded)
        facts = Facts(expected_abs)
        arg = sp
        if variant == "pathlike":
            import pathlib

            arg = pathlib.PurePosixPath(sp) if sp else None
            if arg is None or str(arg) != sp:
                continue  # pathlib normalises the spelling; not the same input
        for mode in modes:
            if sp == "-":
                if set(mode) - set("frwc"):
                    continue
                want, why = True, ""
            else:
                want, why = mode_ok(mode, facts)
            kw = {"cwd": cwdarg} if cwdarg else {}
            try:
                if variant == "copy":
                    first = Path(sp, mode="", **kw)
                    p = Path(first, mode=mode)
                else:
                    p = Path(arg, mode=mode, **kw)
                res = ("ok", p)
            except BaseException as ex:  # noqa
                res = ("exc", type(ex), str(ex))
            case = {"kind": name, "variant": variant, "spelling": sp, "mode": mode, "process_cwd": pcwd.replace(R, "<R>"), "cwd_arg": (cwdarg or "").replace(R, "<R>"),
                    "model": [want, why], "facts": {k: v for k, v in vars(facts).items() if k != "ap"}, "fixture": "see build_fixture() in b19_paths.py; HOME=<R>/home"}
            if res[0] == "exc" and not issubclass(res[1], TypeError):
                # neither accepted nor the documented PathError
                key = f"c19:path:F-nonexistent:raises-{res[1].__name__}:{facts.nonexistent}" if ("F" in mode and not facts.exists) else f"c19:path:raises-{res[1].__name__}:{name}"
                rec.check(False, key, f"Path({sp!r}, {mode!r}) raised {res[1].__name__}: {res[2][:120].replace(R, '<R>')} (model: {'accept' if want else 'reject ' + why})", case)
                continue
            if res[0] == "exc":
                rejected += 1
                reasons[why] = reasons.get(why, 0) + 1
                if want is None:
                    rec.count("unspecified:" + why)
                    continue
                rec.check(res[1].__name__ == "PathError" and not want, f"c19:path:rejects-satisfied-mode:{slug(res[2], R)}:{name}" if want else f"c19:path:wrong-error:{res[1].__name__}:{name}",
                          f"Path({sp!r}, {mode!r}) raised {res[1].__name__}: {res[2][:120].replace(R, '<R>')} but the file system satisfies every flag" if want else f"raised {res[1].__name__}, documented error is PathError", case)
            else:
                accepted += 1
                p = res[1]
                if want is None:
                    rec.count("unspecified:" + why)
                else:
                    key = "c19:path:accepts-unsatisfied-mode:cc-ancestor-not-a-directory" if (why == "cc" and facts.through_nondir) else f"c19:path:accepts-unsatisfied-mode:{why}:{name}"
                    rec.check(bool(want), key, f"Path({sp!r}, {mode!r}) accepted although flag {why!r} is not satisfied by the file system", case)
                rel_ok = p.relative == sp and str(p) == sp
                abs_ok = isinstance(p.absolute, str) and os.path.isabs(p.absolute) and os.path.normpath(p.absolute) == os.path.normpath(expected_abs)
                if sp == "-":
                    abs_ok = True
                rec.check(rel_ok, f"c19:path:relative:{variant}:{name}", f".relative = {p.relative!r}, spelled {sp!r}", case)
                rec.check(abs_ok, f"c19:path:absolute:{variant}:{name}", f".absolute = {str(p.absolute).replace(R, '<R>')!r}, expected {expected_abs.replace(R, '<R>')!r}", case)
                if mode in ("", "fr", "dw", "fcc") and variant != "copy":
                    rec.sample({"spelling": sp, "mode": mode, "variant": variant, "absolute": p.absolute.replace(R, "<R>")})
            if len(mode) > 0:
                rec.nontrivial(("path", name, variant, "".join(sorted(mode))))
    os.chdir(A)
    rec.count("path_accepted", accepted)
    rec.count("path_rejected", rejected)
    for k, v in sorted(reasons.items()):
        rec.count("rejected_by_model_flag:" + (k or "none"), v)
    return reasons


def part_types(rec, R, kinds, modes=None):
    """The registered types and path_type(mode) through a real parser."""
    os.chdir(R)
    for T, m in ((Path_fr, "fr"), (Path_fc, "fc"), (Path_dw, "dw"), (Path_dc, "dc"), (Path_drw, "drw")):
        rec.check(T._mode == m and issubclass(T, Path), f"c19:type:registered:{m}", f"registered type {T.__name__} carries mode {T._mode!r}", {"type": T.__name__})
    modes = modes or ["fr", "fc", "dw", "dc", "drw", "fcc", "dcc", "frw", "fx", "dx", "fR", "fW", "drX", "D", "F", "rw", "W", "fcr", "dcw", ""]
    for m in modes:
        T = path_type(m)
        rec.check(sorted(T._mode) == sorted(m) and path_type(m) is T, f"c19:type:path_type:{m}", f"path_type({m!r}) -> {T.__name__} with mode {T._mode!r}", {"mode": m})
        parser = ArgumentParser(exit_on_error=False)
        parser.add_argument("--p", type=T)
        parser.add_argument("--q", type=Optional[T])
        parser.add_argument("--l", type=List[T])
        for name, sp in kinds:
            facts = Facts(os.path.join(R, sp))
            want, why = mode_ok(m, facts)
            if want is None:
                continue
            for opt, argv in (("p", [f"--p={sp}"]), ("q", [f"--q={sp}"]), ("l", [f"--l=[{sp!r}]"] if "'" not in sp else None)):
                if argv is None or (opt != "p" and name not in ("f_rw", "f_0", "d_rwx", "d_rx", "p_rw", "l_dangling", "new", "nodir/new", "f_rw/x", "d_rx/new")):
                    continue
                res = outcome(parser.parse_args, argv)
                case = {"parser": f"add_argument('--{opt}', type={'path_type(%r)' % m if opt == 'p' else ('Optional' if opt == 'q' else 'List') + '[path_type(%r)]' % m})", "argv": argv, "cwd": "<R>", "kind": name, "model": [want, why]}
                if res[0] == "exc" and res[1] not in ("ArgumentError",):
                    key = f"c19:type:F-nonexistent:{opt}:raises-{res[1]}:{facts.nonexistent}" if ("F" in m and not facts.exists) else f"c19:type:raises-{res[1]}:{opt}:{m}:{name}"
                    rec.check(False, key, f"parse_args({argv}) raised {res[1]}: {res[2][:100].replace(R, '<R>')}", case)
                    continue
                if res[0] == "ok":
                    v = res[1][opt]
                    v = v[0] if isinstance(v, list) else v
                    key = f"c19:type:accepts-unsatisfied-mode:cc-ancestor-not-a-directory:{opt}" if (why == "cc" and facts.through_nondir) else f"c19:type:accepts-unsatisfied-mode:{why}:{opt}:{m}:{name}"
                    rec.check(bool(want), key, f"parse_args({argv}) accepted although flag {why!r} is not satisfied", case)
                    rec.check(isinstance(v, Path) and v.relative == sp and os.path.normpath(v.absolute) == os.path.normpath(os.path.join(R, sp)), f"c19:type:bookkeeping:{opt}:{m}:{name}",
                              f"value {v!r}", case)
                else:
                    key = f"c19:type:F-nonexistent:{opt}:rejected:{facts.nonexistent}" if ("F" in m and not facts.exists) else f"c19:type:rejects-satisfied-mode:{opt}:{m}:{name}"
                    rec.check(not want and res[0] == "exc", key, f"parse_args({argv}) -> {res[:2]} although the mode is satisfied", case)
                rec.nontrivial(("type", m, opt, name))


# ----------------------------------------------------------------------------------------------------------------------
# Part C: nested configs
class Model:
    def __init__(self, weights: Path_fr, n: int = 0, child: Optional["Model"] = None):
        self.weights = weights


def make_level(depth, top=False, **kw):
    p = ArgumentParser(exit_on_error=kw.pop("exit_on_error", False), **kw)
    if top:
        p.add_argument("--cfg", action=ActionConfigFile)
        p.add_argument("--cli_file", type=Path_fr)
    p.add_argument("--file", type=Path_fr)
    p.add_argument("--n", type=int, default=0)
    p.add_argument("--files", type=List[Path_fr], enable_path=True)
    p.add_subclass_arguments(Model, "model")
    if depth > 1:
        p.add_argument("--sub", action=ActionParser(parser=make_level(depth - 1)))
    return p


LAYOUTS = {
    "sibling": ["a", "b", "c", "d"],
    "descend": ["a", "a/n", "a/n/m", "a/n/m/k"],
    "ascend": ["a/n/m/k", "a/n/m", "a/n", "a"],
    "same": ["a", "a", "a", "a"],
    "abs": ["a", "b", "c", "d"],
    "symlink": ["a", "lnk_k", "c", "lnk_b"],
}
ALL_DIRS = ["", "a", "b", "c", "d", "a/n", "a/n/m", "a/n/m/k", "w", "z"]


def build_cfg_tree(C):
    for d in ALL_DIRS:
        os.makedirs(os.path.join(C, d, "dd"), exist_ok=True)
        with open(os.path.join(C, d, "data.txt"), "w") as fh:
            fh.write("data@" + (d or "."))
        with open(os.path.join(C, d, "dd", "inner.txt"), "w") as fh:
            fh.write("inner@" + (d or "."))
        with open(os.path.join(C, d, "@at.txt"), "w") as fh:  # a name that is not valid YAML: the list file is then not loadable as a config
            fh.write("at@" + (d or "."))
    os.symlink("b", os.path.join(C, "lnk_b"))
    os.symlink("a/n/m/k", os.path.join(C, "lnk_k"))


def chains(thorough):
    out = [[], ["sub"], ["model"], ["files"], ["filesat"], ["sub", "sub"], ["sub", "model"], ["sub", "files"], ["sub", "filesat"], ["model", "child"]]
    if thorough:
        out += [["sub", "sub", "files"], ["sub", "sub", "model"], ["sub", "model", "child"], ["model", "child", "child"]]
    return out


class Plan:
    """One nesting chain laid out in directories: files to write, and the expected resolved location of every path leaf."""

    def __init__(self, C, chain, layout):
        self.C, self.chain, self.layout = C, chain, layout
        dirs = LAYOUTS[layout]
        kinds = ["parser"] + [{"sub": "parser", "model": "model", "child": "model", "files": "list", "filesat": "list"}[k] for k in chain]
        self.nodes = []  # dict(kind, dir (as reached, unnormalised), fname, ref spelling from the parent, content lines)
        self.leaves = []  # (dotted key or ('files', idx), spelling, expected realpath, level)
        self.files = {}  # physical path -> text
        reached_dir = os.path.join(C, dirs[0])
        prefix = ""
        data_spellings = ["data.txt", "dd/inner.txt", "./data.txt", "dd/../data.txt"]
        for i, kind in enumerate(kinds):
            fname = f"n{i}.{'txt' if kind == 'list' else 'yaml'}"
            if i > 0:
                target_dir = os.path.join(C, dirs[i])
                if layout == "abs":
                    ref = os.path.join(target_dir, fname)
                else:
                    parent_phys = os.path.realpath(reached_dir)
                    ref = os.path.join(os.path.relpath(os.path.realpath(target_dir), parent_phys), fname) if layout != "symlink" else os.path.join(os.path.relpath(C, parent_phys), dirs[i], fname)
                    if ref.startswith("./"):
                        ref = ref[2:]
                self.nodes[-1]["ref"] = ref
                reached = ref if os.path.isabs(ref) else os.path.join(reached_dir, ref)
                reached_dir = os.path.dirname(reached)
                link = chain[i - 1]
                prefix = prefix + ({"sub": "sub.", "model": "model.init_args.", "child": "child.init_args.", "files": "files", "filesat": "files"}[link])
            dsp = data_spellings[i % len(data_spellings)]
            node = {"kind": kind, "dir": reached_dir, "fname": fname, "ref": None, "data": dsp, "level": i, "link": chain[i] if i < len(chain) else None}
            if kind == "parser":
                self.leaves.append((prefix + "file", dsp, os.path.realpath(os.path.join(reached_dir, dsp)), i))
            elif kind == "model":
                self.leaves.append((prefix + "weights", dsp, os.path.realpath(os.path.join(reached_dir, dsp)), i))
            else:
                other = os.path.relpath(os.path.join(C, "z", "data.txt"), os.path.realpath(reached_dir))
                node["lines"] = (["@at.txt"] if chain[i - 1] == "filesat" else []) + [dsp, other]
                for j, line in enumerate(node["lines"]):
                    self.leaves.append(((prefix, j), line, os.path.realpath(os.path.join(reached_dir, line)), i))
            self.nodes.append(node)

    def text(self, node, broken=None):
        k = node["kind"]
        data = node["data"]
        n = "1"
        ref = node["ref"]
        if broken == "missing-data":
            data = "no_such_file.txt"
        elif broken == "bad-type":
            n = "notanint"
        elif broken == "missing-child" and ref is not None:
            ref = os.path.join(os.path.dirname(ref), "no_such_child.yaml")
        if k == "list":
            lines = list(node["lines"])
            if broken in ("missing-data", "bad-type", "bad-yaml", "missing-child"):
                lines[0] = "no_such_file.txt"
            return "\n".join(lines) + "\n"
        if k == "parser":
            out = [f"file: {data}", f"n: {n}"]
            if node["link"]:
                out.append(f"{node['link'].replace('filesat', 'files')}: {ref}")
        else:
            out = [f"class_path: {Model.__module__}.Model", "init_args:", f"  weights: {data}", f"  n: {n}"]
            if node["link"]:
                out.append(f"  child: {ref}")
        if broken == "bad-yaml":
            out.append("  : : [unclosed")
        return "\n".join(out) + "\n"

    def path_of(self, node):
        return os.path.join(node["dir"], node["fname"])

    def write(self, broken_level=None, broken=None):
        for node in self.nodes:
            with open(self.path_of(node), "w") as fh:
                fh.write(self.text(node, broken if node["level"] == broken_level else None))

    def remove(self):
        for node in self.nodes:
            try:
                os.unlink(self.path_of(node))
            except OSError:
                pass


def lookup(cfg, key):
    if isinstance(key, tuple):
        lst = cfg.get(key[0])
        return lst[key[1]] if isinstance(lst, list) and len(lst) > key[1] else None
    return cfg.get(key)


DEPTH = [3]  # nesting depth of the sub-parsers built by run_channel (3 quick: chains of <= 3 files; 4 thorough)


def run_channel(channel, main_sp, env_name, exit_on_error=False):
    """-> callable performing the parse (a fresh parser each time)."""
    if channel == "parse_path":
        return lambda: make_level(DEPTH[0], top=True, exit_on_error=exit_on_error).parse_path(main_sp)
    if channel == "argv_cfg":
        return lambda: make_level(DEPTH[0], top=True, exit_on_error=exit_on_error).parse_args(["--cfg", main_sp, "--cli_file", "data.txt"])
    if channel == "dcf":
        return lambda: make_level(DEPTH[0], top=True, exit_on_error=exit_on_error, default_config_files=[main_sp]).parse_args(["--cli_file=data.txt"])
    if channel == "get_defaults":
        return lambda: make_level(DEPTH[0], top=True, exit_on_error=exit_on_error, default_config_files=[main_sp]).get_defaults()
    if channel == "env":
        def go():
            os.environ[env_name + "_CFG"] = main_sp
            try:
                return make_level(DEPTH[0], top=True, exit_on_error=exit_on_error, default_env=True, env_prefix=env_name).parse_args([])
            finally:
                del os.environ[env_name + "_CFG"]
        return go
    raise ValueError(channel)


def cwd_probe(rec, key, cwd_before, C, case):
    now = os.getcwd()
    rec.check(now == cwd_before, key + ":cwd", f"working directory is {now.replace(C, '<C>')!r} after the call, was {cwd_before.replace(C, '<C>')!r}", case)
    if now != cwd_before:
        os.chdir(cwd_before)
    res = outcome(Path, "data.txt", "fr")
    ok = res[0] == "ok" and os.path.realpath(res[1].absolute) == os.path.realpath(os.path.join(cwd_before, "data.txt"))
    rec.check(ok, key + ":fresh-relative", f"a fresh relative Path after the call resolves to {res[1].absolute.replace(C, '<C>') if res[0] == 'ok' else res[:2]}", case)


def part_configs(rec, C, thorough, only_chains=None, only_layouts=None):
    build_cfg_tree(C)
    DEPTH[0] = 4 if thorough else 3
    layouts = only_layouts or ["sibling", "descend", "ascend", "same", "abs"] + (["symlink"] if thorough else [])
    channels = ["parse_path", "argv_cfg", "dcf", "get_defaults", "env"]
    fails = ["missing-data", "bad-type", "bad-yaml", "missing-child"]
    succ = failed = 0
    for chain in only_chains or chains(thorough):
        cname = ">".join(["main"] + chain)
        for layout in layouts:
            if layout == "symlink" and chain and chain[-1] in ("files", "filesat"):
                continue
            plan = Plan(C, chain, layout)
            plan.write()
            main_abs = plan.path_of(plan.nodes[0])
            cwds = [("w", os.path.join(C, "w")), ("maindir", os.path.dirname(main_abs)), ("root", C)]
            for cwd_name, cwd in cwds:
                if not thorough and cwd_name != "w" and layout not in ("sibling", "descend"):
                    continue
                os.chdir(cwd)
                for sp_name, main_sp in (("rel", os.path.relpath(main_abs, cwd)), ("abs", main_abs)):
                    if not thorough and sp_name == "abs" and cwd_name != "w":
                        continue
                    for channel in channels:
                        sig = f"c19:cfg:{cname}:{layout}:cwd={cwd_name}:{sp_name}:{channel}"
                        key = f"c19:cfg:{cname}:{channel}"  # canonical: the layout / cwd / spelling of the first witness is in the case
                        case = {"chain": cname, "layout": layout, "cwd": cwd.replace(C, "<C>"), "main": main_sp.replace(C, "<C>"), "channel": channel,
                                "files": {plan.path_of(n).replace(C, "<C>"): plan.text(n) .replace(C, "<C>") for n in plan.nodes},
                                "tree": "every directory holds data.txt and dd/inner.txt; see build_cfg_tree()/make_level() in b19_paths.py"}
                        res = outcome(run_channel(channel, main_sp, "APPC"))
                        if res[0] != "ok":
                            rec.check(False, f"c19:cfg:parse-failed:{cname}:{layout}", f"a valid nested configuration was rejected ({channel}, cwd={cwd_name}, main spelled {sp_name}): {res[1:]}".replace(C, "<C>"), case)
                            cwd_probe(rec, key, cwd, C, case)
                            continue
                        cfg = res[1]
                        succ += 1
                        for lkey, spelling, want_real, level in plan.leaves:
                            v = lookup(cfg, lkey)
                            ok = isinstance(v, Path) and os.path.realpath(v.absolute) == want_real
                            rec.check(ok, key + f":resolve:L{level}", f"{lkey} = {v!r} resolves to {os.path.realpath(v.absolute).replace(C, '<C>') if isinstance(v, Path) else None}, expected {want_real.replace(C, '<C>')} (relative to the file that contains it)".replace(C, "<C>"), case)
                            rec.check(isinstance(v, Path) and v.relative == spelling and os.path.isabs(v.absolute), key + f":spelling:L{level}", f"{lkey}.relative = {getattr(v, 'relative', None)!r}, written {spelling!r}", case)
                        if channel in ("argv_cfg", "dcf"):
                            v = cfg.get("cli_file")
                            ok = isinstance(v, Path) and os.path.realpath(v.absolute) == os.path.realpath(os.path.join(cwd, "data.txt"))
                            rec.check(ok, key + ":cli-arg-after-config", f"--cli_file data.txt given on the command line resolved to {getattr(v, 'absolute', None)}".replace(C, "<C>"), case)
                        cwd_probe(rec, key, cwd, C, case)
                        rec.nontrivial(sig)
                        if chain and layout == "sibling" and channel == "parse_path":
                            rec.sample({"chain": cname, "leaves": [(str(k), s, w.replace(C, "<C>")) for k, s, w, _ in plan.leaves]})
            # failures injected at each level
            if layout == "sibling" or (layout == "descend" and len(chain) == 2) or thorough:
                cwd = os.path.join(C, "w")
                os.chdir(cwd)
                main_sp = os.path.relpath(main_abs, cwd)
                for level in range(len(plan.nodes)):
                    for fail in fails:
                        node = plan.nodes[level]
                        if fail == "missing-child" and node["ref"] is None:
                            continue
                        if node["kind"] == "list" and fail != "missing-data":
                            continue
                        plan.write(level, fail)
                        for channel in channels:
                            for eoe in (False, True):
                                if eoe and channel not in ("argv_cfg", "parse_path"):
                                    continue
                                sig = f"c19:cfgfail:{cname}:{layout}:{fail}@L{level}:{channel}:exit={int(eoe)}"
                                key = f"c19:cfgfail:{cname}:{fail}@L{level}:{channel}"
                                case = {"chain": cname, "layout": layout, "cwd": "<C>/w", "main": main_sp, "channel": channel, "exit_on_error": eoe, "broken": f"{fail} at level {level}",
                                        "files": {plan.path_of(n).replace(C, "<C>"): plan.text(n, fail if n["level"] == level else None).replace(C, "<C>") for n in plan.nodes}}
                                res = outcome(run_channel(channel, main_sp, "APPC", exit_on_error=eoe))
                                if fail == "missing-data":
                                    rec.check(res[0] != "ok", key + ":accepted-missing-file", "a Path_fr naming a missing file was accepted", case)
                                if res[0] != "ok":
                                    failed += 1
                                cwd_probe(rec, key, cwd, C, case)
                                rec.nontrivial(sig)
                        plan.write()
            plan.remove()
    os.chdir(C)
    rec.count("cfg_success", succ)
    rec.count("cfg_failed_parses", failed)


def part_config_vs_default(rec, C):
    """C2: the rule 'a relative path written inside a config file is resolved against that file's directory' has no exception for
    a spelling that is also the argument's declared default: data.txt exists in the config's directory and in the working directory."""
    cfgdir, cwd = os.path.join(C, "a"), os.path.join(C, "w")
    want = os.path.realpath(os.path.join(cfgdir, "data.txt"))
    with open(os.path.join(cfgdir, "dflt.yaml"), "w") as fh:
        fh.write("file: data.txt\nfiles: [data.txt]\n")
    os.makedirs(os.path.join(C, "nodata"), exist_ok=True)
    with open(os.path.join(C, "nodata", "m.yaml"), "w") as fh:
        fh.write("file: data.txt\n")
    os.chdir(cwd)
    try:
        for dname, mk_default in (("none", None), ("other-spelling", lambda: "dd/inner.txt"), ("same-spelling-str", lambda: "data.txt"),
                                  ("same-spelling-path-object", lambda: Path_fr("data.txt"))):
            for channel in ("parse_path", "argv_cfg"):
                def run():
                    p = ArgumentParser(exit_on_error=False)
                    p.add_argument("--cfg", action=ActionConfigFile)
                    kw = {} if mk_default is None else {"default": mk_default()}
                    p.add_argument("--file", type=Path_fr, **kw)
                    p.add_argument("--files", type=List[Path_fr])
                    return p.parse_path("../a/dflt.yaml") if channel == "parse_path" else p.parse_args(["--cfg=../a/dflt.yaml"])
                res = outcome(run)
                case = {"cwd": "<C>/w (holds its own data.txt)", "config": "<C>/a/dflt.yaml = {file: data.txt, files: [data.txt]}", "declared default of --file": dname, "channel": channel}
                key = f"c19:cfg-vs-default:{dname}:{channel}"
                if not rec.check(res[0] == "ok", key + ":rejected", f"valid configuration rejected: {res[1:]}".replace(C, "<C>"), case):
                    continue
                for k, v in (("file", res[1].file), ("files[0]", res[1].files[0])):
                    got = os.path.realpath(v.absolute) if isinstance(v, Path) else os.path.realpath(str(v))
                    what = "ok" if (isinstance(v, Path) and got == want) else "not-a-path-object;names-the-file-of-the-working-directory" if not isinstance(v, Path) else "resolved-against-the-working-directory" if got == os.path.realpath(os.path.join(cwd, "data.txt")) else "elsewhere"
                    rec.check(what == "ok", f"{key}:{k}:{what}", f"{k} written as data.txt in <C>/a/dflt.yaml came out as {v!r} ({type(v).__name__}) naming {got.replace(C, '<C>')}, expected a path object for <C>/a/data.txt", case)
                rec.nontrivial(key)
                # the same spelling in a config whose directory has no data.txt: the file system does not satisfy 'fr' there
                def run_missing():
                    p = ArgumentParser(exit_on_error=False)
                    p.add_argument("--cfg", action=ActionConfigFile)
                    p.add_argument("--file", type=Path_fr, **({} if mk_default is None else {"default": mk_default()}))
                    return p.parse_path("../nodata/m.yaml") if channel == "parse_path" else p.parse_args(["--cfg=../nodata/m.yaml"])
                res = outcome(run_missing)
                v = res[1].file if res[0] == "ok" else None
                rec.check(res[0] != "ok", f"{key}:missing-beside-the-config:accepted-as-{type(v).__name__}",
                          f"file: data.txt inside <C>/nodata/m.yaml (no such file beside it) was accepted as {v!r}; only the working directory has a data.txt",
                          dict(case, config="<C>/nodata/m.yaml = {file: data.txt}; <C>/nodata holds no data.txt"))
    finally:
        os.chdir(C)


# ----------------------------------------------------------------------------------------------------------------------
def warmup(tmp):
    """Run a miniature of every part in the (privileged) parent so that every lazy import of jsonargparse and its
    dependencies has happened before the child drops privileges (the interpreter's stdlib may be unreadable for it).
    Results are thrown away."""
    import pathlib  # noqa
    import random  # noqa
    import traceback  # noqa

    cwd0 = os.getcwd()
    rec = Rec()
    R, C = os.path.join(tmp, "warm_r"), os.path.join(tmp, "warm_c")
    os.makedirs(R)
    os.makedirs(C)
    try:
        kinds = build_fixture(R)
        restore_fixture(R)
        part_types(rec, R, kinds[:8] + [("new", "new")], modes=["fr", "F", "dcc"])
        part_configs(rec, C, False, only_chains=[["sub", "model"], ["files"], ["model", "child"]], only_layouts=["sibling"])
    finally:
        os.chdir(cwd0)


def child(tmp, tier, seed):
    import random

    rec = Rec()
    thorough = tier == "thorough"
    started_as_root = os.geteuid() == 0
    dropped = False
    if started_as_root:
        try:
            os.setgroups([])
            os.setgid(UNPRIV)
            os.setuid(UNPRIV)
            dropped = os.getuid() == UNPRIV and os.geteuid() == UNPRIV
        except OSError as ex:
            rec.note(f"dropping privileges failed: {ex!r}")
    uid = os.getuid()
    perms = uid != 0
    R = os.path.join(tmp, "r")
    C = os.path.join(tmp, "c")
    os.environ["HOME"] = os.path.join(R, "home")
    os.makedirs(R)
    os.makedirs(C)
    os.chdir(R)
    kinds = build_fixture(R)
    try:
        part_mode_strings(rec, thorough)
        reasons = part_path(rec, R, kinds, thorough, random.Random(seed))
        part_types(rec, R, kinds)
        part_configs(rec, C, thorough)
        part_config_vs_default(rec, C)
    finally:
        os.chdir(tmp)
        restore_fixture(R)
    if perms:
        rec.note(f"file-system checks ran in a child process with uid={uid} euid={os.geteuid()} (privileges {'dropped from root' if dropped else 'were already unprivileged'}); R/W/X/c flags exercised")
        # vacuity guard: every flag must have been the deciding reason of some rejection
        for flag in ("f", "d", "c", "cc", "r", "w", "x", "R", "W", "X", "D", "F", "dc-exists-nondir", "fc-exists-nonfile"):
            rec.check(reasons.get(flag, 0) > 0, f"b19_paths:vacuous:{flag}", f"no rejection was decided by flag {flag!r}: the fixture does not exercise it", None)
    else:
        rec.note(f"RUNNING AS uid={uid}: dropping privileges failed; os.access is vacuous for root, so the flags r/w/R/W (and c's writeable-parent test) are NOT EXERCISED (not passed); only f/d/F/D/x, bookkeeping and config-relative resolution were exercised")
    return rec, uid, perms


def main():
    h = Harness("b19_paths", rule="Path(): one evaluation per (valid flag multiset of <= 4 flags, path kind of the fixture, variant) for accept<=>mode_ok / PathError / .relative / .absolute; "
                "non-trivial = distinct (kind, variant, sorted non-empty mode). Types: (mode, option shape, kind). Configs: distinct (nesting chain, directory layout, process cwd, spelling of the "
                "main file, channel) for successes and (chain, layout, failure kind @ level, channel, exit_on_error) for failing parses")
    with tempfile.TemporaryDirectory() as tmp:
        os.chmod(tmp, 0o777)
        warmup(tmp)
        rfd, wfd = os.pipe()
        cwd0 = os.getcwd()
        sys.stdout.flush()
        pid = os.fork()
        if pid == 0:
            code = 0
            try:
                os.close(rfd)
                devnull = os.open(os.devnull, os.O_WRONLY)
                os.dup2(devnull, 1)
                os.dup2(devnull, 2)
                try:
                    payload = ("ok",) + child(tmp, h.tier, h.seed)
                except BaseException as ex:  # noqa
                    import traceback

                    payload = ("crash", traceback.format_exc()[-1500:], os.getuid(), False)
                with os.fdopen(wfd, "wb") as out:
                    pickle.dump(payload, out)
            except BaseException:  # noqa
                code = 3
            finally:
                os._exit(code)
        os.close(wfd)
        with os.fdopen(rfd, "rb") as inp:
            blob = inp.read()
        os.waitpid(pid, 0)
        os.chdir(cwd0)
        uid, perms = "?", False
        try:
            payload = pickle.loads(blob)
        except Exception as ex:  # noqa
            payload = ("crash", f"no result from the child: {ex!r}", "?", False)
        if payload[0] == "ok":
            _, rec, uid, perms = payload
            h.evaluations += rec.evaluations
            for key, what, case in rec.violations:
                h.violation(key, what, case)
            h.distinct |= rec.distinct
            for s in rec.samples:
                h.sample(s)
            for n in rec.notes:
                h.note(n)
            h.note("counters: " + ", ".join(f"{k}={v}" for k, v in sorted(rec.stats.items())))
            h.note("not asserted (unspecified): fifo under modes with both 'f' and 'c'; '-' under modes outside {f,r,w,c}; u/s flags put no constraint on local paths")
        else:
            uid = payload[2]
            h.violation("b19_paths:child-failed", "the unprivileged child process did not deliver a result: " + str(payload[1]), None)
        # the child restored directory permissions; make sure cleanup works in any case
        for root, dirs, _files in os.walk(tmp):
            for d in dirs:
                try:
                    os.chmod(os.path.join(root, d), 0o700)
                except OSError:
                    pass
    bound = (f"all valid flag multisets of <= 4 flags ({'with' if h.thorough else 'without'} u/s) x 77 path kinds x 4{'+2' if h.thorough else ''} variants x 2 working directories; "
             f"_check_mode on every string of <= {4 if h.thorough else 3} characters over 15; config chains of <= {4 if h.thorough else 3} files x {6 if h.thorough else 5} directory layouts x 3 cwds x 5 channels, "
             f"failure injected at each level; a config path spelled like the declared default (4 kinds of default x 2 channels); run with uid={uid}; R/W/X flags {'exercised' if perms else 'NOT exercised (root)'}")
    sys.exit(h.finish(exhaustive=True, bound=bound))


if __name__ == "__main__":
    main()
