"""C06 bounded stand-in: unknown keys are never silently ignored; required keys are enforced.

Reference model (independent of jsonargparse): every parser shape below is written by hand together with a *valid
configuration tree* (a plain nested dict/list) and the list of its required keys.  Because the classes/dataclasses used
have no `**kwargs`, the harness knows by construction which keys are defined at which node of the tree.  Contract:

  base      the valid tree is accepted through every channel (vacuity guard: otherwise nothing below means anything);
  foreign   the valid tree + ONE key that the parser does not define, inserted at any dict node of the tree (top level,
            dotted group, dataclass, nested dataclass, class spec, init_args, list item, Dict item, tuple item, subcommand
            section, dict_kwargs of a class without **kwargs), with each of several values -> the parse must NOT succeed,
            and the error text must contain the foreign key name;
  required  the valid tree with ONE required key removed / set to null -> the parse must not succeed with that key
            missing or null in the result (a required subcommand is removed together with its section, because a section
            alone legitimately selects the subcommand);
  leftover  unknown option / stray positional on argv -> rejected naming it; parse_known_args refuses external callers.

Channels: parse_object(dict), parse_string(JSON), parse_string(YAML block), parse_path(file), argv --cfg=<text>,
argv --cfg=<file>, argv dotted options, argv whole-value JSON options, parse_env(per-argument variables),
parse_env(APP_CFG=<text>), parse_args(env=True) with os.environ patched, default_config_files.
"""
import copy
import json
import multiprocessing
import os
import random
import re
import sys
import tempfile
from typing import Dict, List, Optional, Tuple, Union
from unittest import mock

import yaml

from bounded.common import Harness
from bounded.gen_f import DC, DCO, Base, Inner, Sub, brief, cp, func, run  # noqa: F401

from jsonargparse import ActionConfigFile, ActionParser, ArgumentParser, Namespace

RANDOM_PER_SHAPE = 500  # thorough tier: seeded random mutants per shape
FK = "zzq"  # the foreign key (no option of any shape starts with it, it is not an abbreviation of anything)


# ------------------------------------------------------------------ parser shapes
class Shape:
    def __init__(self, name, build, valid, required, whole=(), jsonkeys=(), free=(), soft=()):
        self.name, self.build, self.valid = name, build, valid
        self.required = required      # list of (path, [companion paths removed with it])
        self.soft = list(soft)        # required-looking keys whose outcome is only noted (see SHAPES)
        self.whole = set(whole)       # top-level keys that also accept one whole JSON value (argv-json variant)
        self.jsonkeys = set(jsonkeys)  # top-level keys always given as one JSON value on argv / env
        self.free = set(free)         # paths of dict nodes whose keys are free by type (Dict[str, X])


def new_parser(eoe=False, **kw):
    p = ArgumentParser(exit_on_error=eoe, env_prefix="APP", default_env=False, **kw)
    p.add_argument("--cfg", action=ActionConfigFile)
    return p


def b_flat(eoe=False, **kw):
    p = new_parser(eoe, **kw)
    p.add_argument("--a", type=int, required=True)
    p.add_argument("--o", type=Optional[int], required=True)
    p.add_argument("--s", type=str, default="s")
    return p


def b_groups(eoe=False, **kw):
    p = new_parser(eoe, **kw)
    p.add_argument("--top", type=int, default=0)
    g = p.add_argument_group("Group g", name="g")
    g.add_argument("--g.x", type=int, required=True)
    g.add_argument("--g.y", type=str, default="y")
    p.add_argument("--g.h.z", type=float, default=0.5)
    p.add_argument("--g.h.w", type=Optional[int], required=True)
    return p


def b_dctype(eoe=False, **kw):
    p = new_parser(eoe, **kw)
    p.add_argument("--d", type=DC)
    p.add_argument("--e", type=DCO)
    return p


def b_dcgroup(eoe=False, **kw):
    p = new_parser(eoe, **kw)
    p.add_class_arguments(DC, "d")
    p.add_class_arguments(DCO, "e")
    return p


def b_classgroup(eoe=False, **kw):
    p = new_parser(eoe, **kw)
    p.add_class_arguments(Sub, "c")
    p.add_function_arguments(func, "f")
    return p


def b_subclass(eoe=False, **kw):
    p = new_parser(eoe, **kw)
    p.add_argument("--m", type=Base, required=True)
    p.add_subclass_arguments(Base, "n")
    return p


def b_lists(eoe=False, **kw):
    p = new_parser(eoe, **kw)
    p.add_argument("--l", type=List[DC], default=[])
    p.add_argument("--ms", type=List[Base], default=[])
    p.add_argument("--od", type=Optional[DC], default=None)
    p.add_argument("--dd", type=Dict[str, DC], default={})
    p.add_argument("--u", type=Union[int, DC], default=0)
    p.add_argument("--t", type=Tuple[int, DC], default=None)
    p.add_argument("--ob", type=Optional[Base], default=None)
    return p


def b_subcommands(eoe=False, **kw):
    p = new_parser(eoe, **kw)
    p.add_argument("--v", type=int, default=0)
    fit = ArgumentParser(exit_on_error=eoe)
    fit.add_argument("--lr", type=float, required=True)
    fit.add_argument("--dc", type=DC)
    fa = ArgumentParser(exit_on_error=eoe)
    fa.add_argument("--pw", type=int, required=True)
    fa.add_argument("--model", type=Optional[Base], default=None)
    fb = ArgumentParser(exit_on_error=eoe)
    fb.add_argument("--q", type=int, default=1)
    test = ArgumentParser(exit_on_error=eoe)
    test.add_argument("--ckpt", type=str, required=True)
    sc = p.add_subcommands(required=True)
    sc.add_subcommand("fit", fit)
    sc.add_subcommand("test", test)
    sc2 = fit.add_subcommands(required=True)
    sc2.add_subcommand("a", fa)
    sc2.add_subcommand("b", fb)
    return p


def b_inner(eoe=False, **kw):
    p = new_parser(eoe, **kw)
    inner = ArgumentParser(exit_on_error=eoe)
    inner.add_argument("--x", type=int, required=True)
    inner.add_argument("--y.z", type=str, default="z")
    inner.add_argument("--dc", type=Optional[DC], default=None)
    p.add_argument("--inner", action=ActionParser(parser=inner))
    p.add_argument("--w", type=int, default=0)
    return p


def LEAF():
    return {"class_path": cp("Leaf"), "init_args": {"req": 6, "n": 2}}


def SUBSPEC():
    return {"class_path": cp("Sub"), "init_args": {"req": 5, "opt": "p", "child": LEAF(), "dc": {"x": 7, "y": "s", "inner": {"p": 8}}}}


# Every required key has a sibling in the valid tree, so that removing it never leaves an empty mapping behind (an empty
# mapping is "nothing given" for jsonargparse; whether `fdc: {}` selects the class is not decided by the statement).
# `soft` required keys are parameters without default whose type admits null: jsonargparse gives them the default None by
# design (_signatures.py:343), so they are not "required arguments" of the parser; their outcome is only noted.
SHAPES = [
    Shape("flat", b_flat, {"a": 1, "o": 2, "s": "t"}, [(("a",), []), (("o",), [])]),
    Shape("groups", b_groups, {"top": 3, "g": {"x": 1, "y": "s", "h": {"z": 1.5, "w": 3}}},
          [(("g", "x"), []), (("g", "h", "w"), [])]),
    Shape("dctype", b_dctype, {"d": {"x": 3, "y": "s", "inner": {"p": 4, "q": 5}}, "e": {"o": 1, "n": 2}},
          [(("d", "x"), [])], whole=("d", "e"), soft=[(("e", "o"), [])]),
    Shape("dcgroup", b_dcgroup, {"d": {"x": 3, "y": "s", "inner": {"p": 4, "q": 5}}, "e": {"o": 1, "n": 2}},
          [(("d", "x"), [])], whole=("d", "e"), soft=[(("e", "o"), [])]),
    Shape("classgroup", b_classgroup,
          {"c": {"req": 5, "opt": "p", "child": LEAF(), "dc": {"x": 7, "y": "s", "inner": {"p": 8}}}, "f": {"fa": 1, "fb": "c", "fdc": {"x": 9, "y": "s"}}},
          [(("c", "req"), []), (("c", "child", "init_args", "req"), []), (("c", "dc", "x"), []), (("f", "fa"), []), (("f", "fdc", "x"), [])],
          whole=("c", "f")),
    Shape("subclass", b_subclass,
          {"m": SUBSPEC(), "n": {"class_path": cp("OptReq"), "init_args": {"req": 1, "oreq": 2, "z": 3}}},
          [(("m",), []), (("m", "init_args", "req"), []), (("m", "init_args", "child", "init_args", "req"), []),
           (("m", "init_args", "dc", "x"), []), (("n", "init_args", "req"), [])], whole=("m", "n"), soft=[(("n", "init_args", "oreq"), [])]),
    Shape("lists", b_lists,
          {"l": [{"x": 1, "y": "s"}, {"x": 2, "inner": {"p": 3}}], "ms": [LEAF(), SUBSPEC()], "od": {"x": 4, "inner": {"q": 1}}, "dd": {"k": {"x": 5, "y": "s"}},
           "u": {"x": 6, "y": "s"}, "t": [1, {"x": 7, "y": "s"}], "ob": LEAF()},
          [(("l", 0, "x"), []), (("l", 1, "x"), []), (("ms", 0, "init_args", "req"), []), (("ms", 1, "init_args", "child", "init_args", "req"), []),
           (("od", "x"), []), (("dd", "k", "x"), []), (("u", "x"), []), (("t", 1, "x"), []), (("ob", "init_args", "req"), [])],
          jsonkeys=("l", "ms", "od", "dd", "u", "t", "ob"), free=(("dd",),)),
    Shape("subcommands", b_subcommands,
          {"v": 1, "subcommand": "fit", "fit": {"lr": 0.1, "dc": {"x": 1, "y": "s"}, "subcommand": "a", "a": {"pw": 2, "model": LEAF()}}},
          [(("subcommand",), [("fit",)]), (("fit", "subcommand"), [("fit", "a")]), (("fit", "lr"), []), (("fit", "a", "pw"), []),
           (("fit", "dc", "x"), []), (("fit", "a", "model", "init_args", "req"), [])]),
    Shape("inner", b_inner, {"w": 1, "inner": {"x": 1, "y": {"z": "s"}, "dc": {"x": 2, "y": "s"}}},
          [(("inner", "x"), []), (("inner", "dc", "x"), [])], whole=("inner",)),
]

OPTIONAL_LEAVES = {"y", "opt", "n", "q", "p", "s", "top", "z", "v", "fb"}  # have defaults wherever they occur

# foreign values: (name, value).  The empty-mapping values form their own defect class (see keys below).
FVALS = [("int", 1), ("map", {"k": 1}), ("null", None), ("list", [1]), ("str", "v"), ("emptymap", {}), ("nestedempty", {"k": {}})]


# ------------------------------------------------------------------ tree helpers
def is_spec(node):
    return isinstance(node, dict) and "class_path" in node


def dict_nodes(tree, path=()):
    """All dict nodes of the tree (paths), depth first, in insertion order."""
    if isinstance(tree, dict):
        yield path
        for k, v in tree.items():
            yield from dict_nodes(v, path + (k,))
    elif isinstance(tree, list):
        for i, v in enumerate(tree):
            yield from dict_nodes(v, path + (i,))


def get_at(tree, path):
    for k in path:
        tree = tree[k]
    return tree


def pstr(path):
    return ".".join(map(str, path)) if path else "<top>"


def lookup_result(res, path):
    """Value at `path` in a parse result (Namespace / dict / list mix); ('missing',) if absent."""
    cur = res
    for k in path:
        if isinstance(cur, Namespace):
            cur = vars(cur)
        if isinstance(cur, dict):
            if k not in cur:
                return ("missing",)
            cur = cur[k]
        elif isinstance(cur, (list, tuple)) and isinstance(k, int) and k < len(cur):
            cur = cur[k]
        else:
            return ("missing",)
    return ("value", cur)


# ------------------------------------------------------------------ channel renderers
def sc(v):
    return v if isinstance(v, str) else json.dumps(v)


def spec_paths(shape):
    return {p for p in dict_nodes(shape.valid) if "class_path" in get_at(shape.valid, p)}


def argv_of(shape, tree, whole=False):
    out = []
    specs = spec_paths(shape)

    def emit(prefix, node, top, path):
        subname = node.get("subcommand") if top else None
        section = None
        for k, v in node.items():
            key = prefix + str(k)
            if top and k == "subcommand":
                continue
            if top and subname is not None and k == subname and isinstance(v, dict):
                section = v
                continue
            if top and prefix == "" and path == () and (k in shape.jsonkeys or (whole and k in shape.whole)):
                out.append(f"--{key}={json.dumps(v)}")
            elif path + (k,) in specs and isinstance(v, dict) and "class_path" in v:
                out.append(f"--{key}={v['class_path']}")
                for k2, v2 in v.items():
                    if k2 == "class_path":
                        continue
                    if isinstance(v2, dict) and v2:
                        emit(key + "." + k2 + ".", v2, False, path + (k, k2))
                    else:
                        out.append(f"--{key}.{k2}={sc(v2)}")
            elif isinstance(v, dict) and v:
                emit(key + ".", v, False, path + (k,))
            else:
                out.append(f"--{key}={sc(v)}")
        if top and subname is not None:
            out.append(str(subname))
            if section is not None:
                emit("", section, True, path + (subname,))

    emit("", tree, True, ())
    return out


def env_of(shape, tree):
    env = {}

    def emit(prefix, node, top, root):
        subname = node.get("subcommand") if top else None
        for k, v in node.items():
            name = prefix + str(k).upper()
            if top and k == "subcommand":
                if v is not None:
                    env[name] = str(v)
            elif top and subname is not None and k == subname and isinstance(v, dict):
                emit(name + "__", v, True, False)
            elif (root and (k in shape.jsonkeys or k in shape.whole)) or (is_spec(v) and isinstance(v["class_path"], str)) or isinstance(v, list) or v == {}:
                env[name] = json.dumps(v)
            elif isinstance(v, dict):
                # plain group: one variable per leaf; typed (dataclass) members of a subcommand parser: one JSON value
                if root or not top:
                    emit(name + "__", v, False, False)
                else:
                    env[name] = json.dumps(v)
            else:
                env[name] = sc(v)

    emit("APP_", tree, True, True)
    return env


def env_applicable(shape, path):
    """A foreign key is expressible through per-argument variables only inside a JSON-valued variable."""
    if not path:
        return False
    if path[0] in shape.jsonkeys or path[0] in shape.whole:
        return True
    if shape.name == "subcommands":
        return path[:2] in (("fit", "dc"),) or path[:3] == ("fit", "a", "model")
    return False


CHANNELS = ["object", "json", "yaml", "path", "cfgtext", "cfgfile", "argv", "argvjson", "envvars", "envcfg", "environ", "defaultcfg"]


def call(shape, channel, tree, tmp, eoe=False):
    """Send the tree through one channel of a FRESH parser.  Returns the run() record, or None if not applicable."""
    tree = copy.deepcopy(tree)
    if channel == "defaultcfg":
        f = os.path.join(tmp, "default.json")
        with open(f, "w") as fh:
            json.dump(tree, fh)
        return run(lambda: shape.build(eoe, default_config_files=[f]).parse_args([]))
    p = shape.build(eoe)
    if channel == "object":
        return run(p.parse_object, tree)
    if channel == "json":
        return run(p.parse_string, json.dumps(tree))
    if channel == "yaml":
        return run(p.parse_string, yaml.safe_dump(tree, default_flow_style=False, sort_keys=False))
    if channel in ("path", "cfgfile"):
        f = os.path.join(tmp, "c.yaml")
        with open(f, "w") as fh:
            yaml.safe_dump(tree, fh, sort_keys=False)
        return run(p.parse_path, f) if channel == "path" else run(p.parse_args, [f"--cfg={f}"])
    if channel == "cfgtext":
        return run(p.parse_args, ["--cfg", json.dumps(tree)])
    if channel == "argv":
        return run(p.parse_args, argv_of(shape, tree))
    if channel == "argvjson":
        if not shape.whole:
            return None
        return run(p.parse_args, argv_of(shape, tree, whole=True))
    if channel == "envvars":
        return run(p.parse_env, env_of(shape, tree))
    if channel == "envcfg":
        return run(p.parse_env, {"APP_CFG": json.dumps(tree)})
    if channel == "environ":
        def go():
            with mock.patch.dict(os.environ, env_of(shape, tree)):
                return p.parse_args([], env=True)
        return run(go)
    raise AssertionError(channel)


def describe(shape, channel, tree):
    d = {"shape": shape.name, "builder": shape.build.__name__ + " in bounded/b06_unknown_required.py", "channel": channel, "tree": tree}
    if channel in ("argv", "argvjson"):
        d["argv"] = argv_of(shape, tree, whole=channel == "argvjson")
    if channel in ("envvars", "environ"):
        d["env"] = env_of(shape, tree)
    return d


# ------------------------------------------------------------------ the contract, evaluated per shape (one worker each)
def named(name, text):
    return re.search(r"(?<![A-Za-z0-9_])" + re.escape(name) + r"(?![A-Za-z0-9_])", text) is not None


def name_variants(shape, pos):
    """Foreign key names other than FK for the node at `pos`: look-alikes of a sibling and reserved words at the wrong level."""
    node = get_at(shape.valid, pos)
    sib = next((k for k in node if isinstance(k, str) and k not in ("class_path", "init_args", "subcommand")), None)
    out = []
    if sib:
        out += [("case", sib.swapcase()), ("suffix", sib + "_")]
        if len(sib) > 2 and sib[:-1] not in node:
            out += [("truncated", sib[:-1])]  # a string prefix of a defined key is not a branch of it
    if not is_spec(node):
        out += [("class_path", "class_path"), ("init_args", "init_args")]
    out += [("dotted", FK + ".k")]
    out += [("append-mark", FK + "+")]  # `key+` is the append spelling of list-typed keys; on a key nobody defines it is as foreign as the key
    return out


class Rec:
    """What a worker sends back: the h.check / h.nontrivial / h.note calls to replay in the parent, in order."""

    def __init__(self):
        self.calls, self.stats = [], {"foreign_rejected": 0, "foreign_accepted": 0, "required_rejected": 0, "required_named": 0, "base_ok": 0}

    def check(self, ok, key, what="", case=None):
        self.calls.append(("check", bool(ok), key, "" if ok else what, None if ok else case))

    def nontrivial(self, sig):
        self.calls.append(("nontrivial", sig))

    def note(self, txt):
        self.calls.append(("note", txt))

    def sample(self, obj):
        self.calls.append(("sample", obj))


def judge_foreign(h, stats, shape, ch, tree, pos, name, key, sig, r, eoe):
    accepted = r["kind"] == "ok"
    h.check(not accepted, key + ":accepted", f"a configuration with the undefined key '{name}' at {pstr(pos)} was accepted", describe(shape, ch, tree))
    if accepted:
        stats["foreign_accepted"] += 1
        return
    stats["foreign_rejected"] += 1
    if r["kind"] == "exc":
        text, channel_ok = r["msg"], r["cls"] == "ArgumentError" and not eoe
    elif r["kind"] == "exit":
        text, channel_ok = r["err"], r["code"] == 2 and eoe
    else:
        text, channel_ok = "", False
    h.check(named(name.split(".")[0], text), key + ":unnamed", f"the error does not name the offending key: {brief(r, 300)}", describe(shape, ch, tree))
    if not channel_ok:
        h.note(f"(C03 matter, not asserted here) {sig}: rejection came as {brief(r, 80)}")


def work(job):
    si, part, thorough, seed = job  # part: "rest" or the name of one foreign value
    shape = SHAPES[si]
    rest = part == "rest"
    h = Rec()
    stats = h.stats
    os.environ.pop("JSONARGPARSE_DEBUG", None)
    with tempfile.TemporaryDirectory() as tmp:
        # ---------------- base: the valid tree is accepted everywhere (vacuity guard)
        live = []
        for ch in CHANNELS:
            r = call(shape, ch, shape.valid, tmp)
            if r is None:
                continue
            ok = r["kind"] == "ok"
            if ok:
                live.append(ch)
            if not rest:
                continue
            h.check(ok, f"c06:vacuity:valid-rejected:{shape.name}:{ch}", f"the valid configuration is rejected, nothing can be concluded: {brief(r)}",
                    describe(shape, ch, shape.valid))
            if ok:
                for path, _ in shape.required + shape.soft:
                    got = lookup_result(r["value"], path)
                    h.check(got[0] == "value" and got[1] is not None, f"c06:vacuity:valid-lost:{shape.name}:{ch}:{pstr(path)}",
                            f"a required key of the valid configuration is {got} in the result", describe(shape, ch, shape.valid))
                stats["base_ok"] += 1
        # ---------------- foreign keys
        positions = [p for p in dict_nodes(shape.valid) if p not in shape.free]
        kw_positions = [p + ("dict_kwargs",) for p in positions if is_spec(get_at(shape.valid, p))]
        for vname, fval in FVALS:
            if vname != part:
                continue
            empty = vname in ("emptymap", "nestedempty")
            for pos in positions + kw_positions:
                tree = copy.deepcopy(shape.valid)
                if pos[-1:] == ("dict_kwargs",):
                    # dict_kwargs of a class WITHOUT **kwargs: the key below it is not defined by anything
                    if vname != "int":
                        continue
                    get_at(tree, pos[:-1])["dict_kwargs"] = {FK: fval}
                else:
                    get_at(tree, pos)[FK] = fval
                for ch in live:
                    if ch in ("envvars", "environ") and not env_applicable(shape, pos):
                        continue
                    if not thorough and ch in ("yaml", "cfgfile", "environ", "defaultcfg") and vname not in ("int", "emptymap"):
                        continue
                    if not thorough and vname in ("list", "str", "nestedempty") and ch not in ("object", "json", "argv", "envcfg"):
                        continue
                    for eoe in (False, True):
                        if eoe and not (vname == "int" and ch in ("object", "argv") or thorough and vname in ("int", "map", "emptymap")):
                            continue
                        r = call(shape, ch, tree, tmp, eoe)
                        if r is None:
                            continue
                        mode = "exit" if eoe else "raise"
                        sig = (shape.name, "foreign", pstr(pos), vname, ch, mode)
                        h.nontrivial(sig)
                        if pos[-1:] == ("dict_kwargs",):
                            key = f"c06:foreign-dict_kwargs:{shape.name}:{pstr(pos)}:{'argv' if ch == 'argv' else 'config'}"
                        elif empty:
                            # one defect class: a foreign key whose value is an empty mapping has no leaf; the key is per position
                            key = f"c06:foreign-emptymap:{shape.name}:{pstr(pos)}"
                        else:
                            key = f"c06:foreign:{shape.name}:{pstr(pos)}:{vname}:{ch}:{mode}"
                        judge_foreign(h, stats, shape, ch, tree, pos, FK, key, sig, r, eoe)
        # ---------------- other foreign key names (look-alikes, reserved words at the wrong level, dotted)
        if not rest:
            return h
        for pos in positions:
            for nname, name in name_variants(shape, pos):
                tree = copy.deepcopy(shape.valid)
                get_at(tree, pos)[name] = 1
                for ch in live:
                    if ch not in (("object", "json", "argv", "envcfg") if not thorough else CHANNELS):
                        continue
                    if ch in ("envvars", "environ") and not env_applicable(shape, pos):
                        continue
                    if nname == "truncated" and ch in ("argv", "envvars", "environ"):
                        continue  # on argv an unambiguous prefix is argparse's abbreviation of the defined option
                    if ch == "argv" and pos[-1:] == ("init_args",) and nname in ("class_path", "init_args"):
                        # on argv `--m.init_args.K` is a spelling of `--m.K`, so these name the DEFINED keys m.class_path / m.init_args
                        continue
                    r = call(shape, ch, tree, tmp)
                    if r is None:
                        continue
                    sig = (shape.name, "foreign-name", pstr(pos), nname, ch)
                    h.nontrivial(sig)
                    judge_foreign(h, stats, shape, ch, tree, pos, name, f"c06:foreign-name:{shape.name}:{pstr(pos)}:{nname}:{ch}", sig, r, False)
        # ---------------- required keys
        for soft, (path, companions) in [(False, x) for x in shape.required] + [(True, x) for x in shape.soft]:
            for kind in ("removed", "null"):
                tree = copy.deepcopy(shape.valid)
                for q in [path] + list(companions):
                    parent = get_at(tree, q[:-1])
                    if kind == "removed" or q != path:
                        del parent[q[-1]]
                    else:
                        parent[q[-1]] = None
                for ch in live:
                    for eoe in (False, True):
                        if eoe and not (ch in ("object", "argv") or thorough):
                            continue
                        r = call(shape, ch, tree, tmp, eoe)
                        if r is None:
                            continue
                        mode = "exit" if eoe else "raise"
                        key = f"c06:required:{shape.name}:{pstr(path)}:{kind}:{ch}:{mode}"
                        if soft:
                            if not eoe:
                                h.note(f"not asserted (parameter without default whose type admits null): {shape.name} {pstr(path)} {kind} via {ch}: {brief(r, 60)}")
                            continue
                        h.nontrivial((shape.name, "required", pstr(path), kind, ch, mode))
                        if r["kind"] == "ok":
                            got = lookup_result(r["value"], path)
                            bad = got[0] == "missing" or got[1] is None
                            h.check(not bad, key + ":accepted", f"parse succeeded although the required key {pstr(path)} is {got} in the result",
                                    describe(shape, ch, tree))
                            if not bad:
                                h.note(f"required key {pstr(path)} {kind} in the input but present in the result ({shape.name}/{ch}): {got[1]!r}")
                        else:
                            h.check(True, key)
                            stats["required_rejected"] += 1
                            if named(str(path[-1]), r.get("msg", "") + r.get("err", "")):
                                stats["required_named"] += 1
        # ---------------- leftovers on argv, parse_known_args
        base_argv = argv_of(shape, shape.valid)
        for label, extra, where in (("option=", [f"--{FK}=1"], "front"), ("option value", [f"--{FK}", "1"], "front"), ("positional", [FK], "back"),
                                    ("dotted", [f"--{FK}.k=1"], "front"), ("plus", [f"--{FK}+=1"], "front"), ("short", ["-Z"], "front"),
                                    ("option back", [f"--{FK}=1"], "back")):
            argv = extra + base_argv if where == "front" else base_argv + extra
            for eoe in (False, True):
                r = run(shape.build(eoe).parse_args, list(argv))
                mode = "exit" if eoe else "raise"
                key = f"c06:leftover:{shape.name}:{label}:{mode}"
                h.nontrivial(key)
                h.check(r["kind"] != "ok", key + ":accepted", "an argv with an undefined option / stray positional was accepted", {"shape": shape.name, "argv": argv})
                if r["kind"] != "ok" and label != "option value":
                    # (for "--zzq 1" argparse may complain about the value token instead, e.g. as an invalid subcommand choice)
                    tok = "Z" if label == "short" else FK
                    h.check(named(tok, r.get("msg", "") + r.get("err", "")), key + ":unnamed",
                            f"the error does not name the leftover: {brief(r, 300)}", {"shape": shape.name, "argv": argv})
        r = run(shape.build().parse_known_args, list(base_argv))
        h.check(r["kind"] == "exc" and r["cls"] == "NotImplementedError", f"c06:parse_known_args:{shape.name}",
                f"parse_known_args is usable by an external caller: {brief(r)}", {"shape": shape.name, "argv": base_argv})
        h.nontrivial(("known", shape.name))
        # ---------------- thorough: seeded random double mutations (foreign key + unrelated valid edits elsewhere)
        if thorough:
            rng = random.Random(seed * 1000 + si)
            for n in range(RANDOM_PER_SHAPE):
                tree = copy.deepcopy(shape.valid)
                pos = rng.choice(positions)
                vname, fval = rng.choice(FVALS[:5])
                name = rng.choice([FK, FK.upper(), "_" + FK, FK + "-x", FK + " y", "0" + FK])
                get_at(tree, pos)[name] = copy.deepcopy(fval)
                # drop some optional leaves elsewhere (keys that have a default in every class/parser here): the tree stays valid
                for node_path in list(dict_nodes(tree)):
                    node = get_at(tree, node_path)
                    for k in list(node):
                        if k in OPTIONAL_LEAVES and not isinstance(node[k], (dict, list)) and len(node) > 2 and rng.random() < 0.3:
                            del node[k]
                ch = rng.choice([c for c in live if c not in ("envvars", "environ", "argv", "argvjson")])
                r = call(shape, ch, tree, tmp)
                sig = (shape.name, "random", n, ch)
                h.nontrivial(sig)
                judge_foreign(h, stats, shape, ch, tree, pos, name, f"c06:foreign-random:{shape.name}:{pstr(pos)}:{vname}:{name}:{ch}", sig, r, False)
        h.sample({"shape": shape.name, "valid": shape.valid, "argv": base_argv, "env": env_of(shape, shape.valid), "positions": [pstr(p) for p in positions]})
    return h


def main():
    h = Harness("b06_unknown_required", rule=(
        "9 hand-written parser shapes (flat, dotted groups, dataclass type, dataclass group, class+function group, subclass argument, "
        "List/Optional/Dict/Union/Tuple of dataclass and class, required subcommands depth 2, inner parser) x every dict node of the shape's "
        "valid tree x 7 foreign values (+ 5 look-alike / reserved names) x up to 12 channels; every required key removed and nulled x channels; "
        "non-trivial = distinct (shape, mutation kind, position path, value kind / removal kind, channel, exit mode) whose mutated input really "
        "reached a parse method"))
    saved_env = dict(os.environ)
    cwd = os.getcwd()
    jobs = [(i, part, h.thorough, h.seed) for i in range(len(SHAPES)) for part in ["rest"] + [n for n, _ in FVALS]]
    jobs.sort(key=lambda j: j[1] not in ("rest", "int"))  # the long jobs first (results are re-ordered below)
    order = sorted(range(len(jobs)), key=lambda n: (jobs[n][0], jobs[n][1] != "rest", [x for x, _ in FVALS].index(jobs[n][1]) if jobs[n][1] != "rest" else -1))
    with multiprocessing.get_context("fork").Pool(14) as pool:
        results = pool.map(work, jobs, chunksize=1)
    stats = {}
    soft_notes = []
    for rec in [results[n] for n in order]:
        for c in rec.calls:
            if c[0] == "check":
                h.check(c[1], c[2], c[3], c[4])
            elif c[0] == "nontrivial":
                h.nontrivial(c[1])
            elif c[0] == "note":
                (soft_notes if c[1].startswith("not asserted") else h.notes).append(c[1])
            else:
                h.sample(c[1], limit=len(SHAPES))
        for k, v in rec.stats.items():
            stats[k] = stats.get(k, 0) + v
    os.chdir(cwd)
    os.environ.clear()
    os.environ.update(saved_env)
    if len(h.notes) > 30:
        h.notes = h.notes[:30] + [f"... {len(h.notes) - 30} more notes of the same kinds"]
    ok_soft = sum(1 for n in soft_notes if n.endswith(": ok"))
    h.note(f"parameters without default whose type admits null (e.o, n.init_args.oreq), removed or nulled: {ok_soft} of {len(soft_notes)} parses succeed "
           "with the value None (jsonargparse gives such parameters the default None by design; not asserted)")
    h.note(f"stats: {stats}")
    h.check(stats["foreign_rejected"] > 0 and stats["required_rejected"] > 0 and stats["base_ok"] > 0, "c06:vacuity:nothing-rejected-or-accepted",
            f"the run saw no accepted base or no rejected mutant: {stats}")
    sys.exit(h.finish(exhaustive=True, bound=(
        f"{len(SHAPES)} parser shapes; ONE foreign key per configuration at every dict node of the valid tree (depth <= 6) x values "
        f"{[n for n, _ in FVALS]} and names ['{FK}', case-swapped sibling, sibling+'_', 'class_path', 'init_args', '{FK}.k']; ONE required key "
        f"removed or nulled; {len(CHANNELS)} channels; exit_on_error False everywhere, True on "
        + (f"all channels; + {RANDOM_PER_SHAPE} seeded random mutants per shape" if h.thorough else "object/argv (foreign int, required)"))))


if __name__ == "__main__":
    main()
