"""C15 bounded stand-in: a linked argument always equals the function of its sources (links applied on parse).

For every parser shape below (a fixed set of link sets: one / several sources, compute functions, group-valued sources
given as dotted arguments and as a dataclass, a target below its own group-valued source, targets that are plain
arguments, nested plain arguments, members of a class group, init_args of a class argument, init_args of another class
argument fed from a class argument, items of a list of classes, links inside a subcommand), every assignment of the
source leaves over the channels {default, option, config string, environment variable, config + overriding option}
and every way of supplying a value for the target itself {not at all, its option, config, environment, object,
enclosing group / class spec}:

  parse succeeded  =>  for every link whose target exists in the result:
                         result[target] == f(result[source_1], ..., result[source_n])      (f = identity when no function)
                       the target is absent from yaml.safe_load(parser.dump(result)) at every level,
                       parser.parse_string(parser.dump(result)) succeeds and gives the same target and source values;
  the option of a plain-argument target is always rejected;
  a parse that supplies no value for a target succeeds even when the target is declared required.

Oracle: reference functions on plain python values written here (REF), the plain-dict view of the parse result, PyYAML's
own safe_load of the dump text.  Nothing is re-derived through jsonargparse.
"""
import json
import os
import sys
from dataclasses import dataclass
from typing import Dict, List, Optional

import yaml

from bounded import gen_j as G
from bounded.common import Harness, outcome

from jsonargparse import ArgumentParser

ENV = "J15"


@dataclass
class DC:
    x: int = 1
    y: int = 2


DC.__module__ = __name__


# ---------------------------------------------------------------------- compute functions and their references
def double(v):
    return v * 2


def add(a, b):
    return a + b


def fmt(a, s):
    return f"{s}-{a}"


def nssum(ns):
    return ns.x + ns.y


def dsum(d: dict):
    return d["x"] + d["y"]


def count(items):
    return len(items or [])


def cls_a(spec):
    return spec.init_args.a


def cls_name(spec):
    return spec.class_path.rsplit(".", 1)[-1]


FN = {"double": double, "add": add, "fmt": fmt, "nssum": nssum, "dsum": dsum, "count": count, "cls_a": cls_a, "cls_name": cls_name, None: None}
REF = {
    "double": lambda v: v * 2,
    "add": lambda a, b: a + b,
    "fmt": lambda a, s: f"{s}-{a}",
    "nssum": lambda d: d["x"] + d["y"],
    "dsum": lambda d: d["x"] + d["y"],
    "count": lambda v: len(v or []),
    "cls_a": lambda d: d["init_args"]["a"],
    "cls_name": lambda d: d["class_path"].rsplit(".", 1)[-1],
    None: lambda v: v,
}

BASE = {"class_path": G.path("Base")}


# ---------------------------------------------------------------------- parser shapes
def _plain(p):
    p.add_argument("--a", type=int, default=1)
    p.add_argument("--b", type=int, default=2)
    p.add_argument("--s", type=str, default="s0")


def shape_ident(p):
    _plain(p)
    p.add_argument("--t", type=int)


def shape_fn(p):
    _plain(p)
    p.add_argument("--t", type=int, default=77)
    p.add_argument("--u", type=str)


def shape_req(p):
    _plain(p)
    p.add_argument("--w", type=int, required=True)
    p.add_argument("--t", type=Optional[int], default=None)


def shape_nested(p):
    _plain(p)
    p.add_argument("--g.t", type=int)
    p.add_argument("--g.k", type=int, default=0)


def shape_group_dotted(p):
    p.add_argument("--g.x", type=int, default=1)
    p.add_argument("--g.y", type=int, default=2)
    p.add_argument("--t", type=int)
    p.add_argument("--d", type=Dict[str, int])


def shape_group_dc(p):
    p.add_argument("--g", type=DC, default=DC())
    p.add_argument("--t", type=int)
    p.add_argument("--d", type=Dict[str, int])
    p.add_argument("--w", type=int, required=True)


def shape_overlap(p):
    p.add_argument("--g.x", type=int, default=1)
    p.add_argument("--g.y", type=int, default=2)
    p.add_argument("--g.z", type=int)


def shape_cls_target(p):
    _plain(p)
    p.add_argument("--m", type=G.Base, default=dict(BASE))


def shape_cls_target_nodefault(p):
    _plain(p)
    p.add_argument("--m", type=Optional[G.Base])


def shape_cls_req(p):
    _plain(p)
    p.add_argument("--m", type=G.Base)


def shape_cls_src(p):
    p.add_argument("--m", type=G.Base, default=dict(BASE))
    p.add_argument("--t", type=int)
    p.add_argument("--u", type=str)


def shape_cls_to_cls(p):
    p.add_argument("--m", type=G.Base, default=dict(BASE))
    p.add_argument("--n", type=G.Base, default=dict(BASE))


def shape_classgroup(p):
    _plain(p)
    p.add_class_arguments(G.Base, "m")


def shape_list(p):
    _plain(p)
    p.add_argument("--ms", type=List[G.Base])


def shape_cls_whole(p):
    p.add_argument("--m", type=G.Base, default=dict(BASE))
    p.add_argument("--t", type=int)
    p.add_argument("--u", type=str)


def shape_list_src(p):
    p.add_argument("--l", type=List[int], default=[1])
    p.add_argument("--t", type=int)
    p.add_argument("--l2", type=List[int])


def shape_sub(p):
    sub = ArgumentParser(exit_on_error=False)
    sub.add_argument("--a", type=int, default=1)
    sub.add_argument("--b", type=int, default=2)
    sub.add_argument("--t", type=int)
    sub.link_arguments(("a", "b"), "t", add)
    other = ArgumentParser(exit_on_error=False)
    other.add_argument("--z", type=int, default=0)
    sc = p.add_subcommands()
    sc.add_subcommand("fit", sub)
    sc.add_subcommand("other", other)


INT2 = [5, -3]
STR2 = ["hello", "12"]
# leaves: key -> (channels that can set it, values); targets: key -> kind
SHAPES = {
    "ident": {"build": shape_ident, "links": [(("a",), "t", None)], "leaves": {"a": ("acev", INT2)}, "targets": {"t": "plain"}, "tval": {"t": 9}},
    "fn": {"build": shape_fn, "links": [(("a", "b"), "t", "add"), (("a", "s"), "u", "fmt")],
           "leaves": {"a": ("acev", INT2), "b": ("ace", INT2), "s": ("acv", STR2)}, "targets": {"t": "plain", "u": "plain"}, "tval": {"t": 9, "u": "zz"}},
    "req": {"build": shape_req, "links": [(("a",), "w", "double"), (("b",), "t", None)], "leaves": {"a": ("acev", INT2), "b": ("ac", INT2)},
            "targets": {"w": "plain", "t": "plain"}, "tval": {"w": 9, "t": 8}},
    "nested": {"build": shape_nested, "links": [(("a",), "g.t", "double")], "leaves": {"a": ("acev", INT2), "g.k": ("ac", INT2)}, "targets": {"g.t": "plain"},
               "tval": {"g.t": 9}, "enclosing": {"g.t": ("--g", {"t": 9})}},
    "group_dotted": {"build": shape_group_dotted, "links": [(("g",), "t", "nssum"), (("g",), "d", None)], "leaves": {"g.x": ("acev", INT2), "g.y": ("ace", INT2)},
                     "targets": {"t": "plain", "d": "plain"}, "tval": {"t": 9, "d": {"x": 0}}},
    "group_dc": {"build": shape_group_dc, "links": [(("g",), "t", "dsum"), (("g",), "d", None), (("g.x",), "w", None)], "leaves": {"g.x": ("acev", INT2), "g.y": ("ace", INT2)},
                 "targets": {"t": "plain", "d": "plain", "w": "plain"}, "tval": {"t": 9, "d": {"x": 0}, "w": 4}},
    "overlap": {"build": shape_overlap, "links": [(("g",), "g.z", "nssum")], "leaves": {"g.x": ("acev", INT2), "g.y": ("ac", INT2)}, "targets": {"g.z": "plain"}, "tval": {"g.z": 9}},
    "cls_target": {"build": shape_cls_target, "links": [(("a",), "m.init_args.a", None), (("a", "s"), "m.init_args.s", "fmt")],
                   "leaves": {"a": ("acev", INT2), "s": ("ac", STR2), "m": ("acv", ["SubAdd", "SubKw", "SubReq3"])},
                   "targets": {"m.init_args.a": "init_arg", "m.init_args.s": "init_arg"}, "tval": {"m.init_args.a": 9, "m.init_args.s": "zz"}},
    "cls_target_nodefault": {"build": shape_cls_target_nodefault, "links": [(("a",), "m.init_args.a", "double")],
                             "leaves": {"a": ("acev", INT2), "m": ("ac", ["Base", "SubAdd", "SubKw"])}, "targets": {"m.init_args.a": "init_arg"}, "tval": {"m.init_args.a": 9}},
    "cls_req": {"build": shape_cls_req, "links": [(("a",), "m.init_args.r", None)], "leaves": {"a": ("acev", INT2), "m": ("ac", ["SubReq", "SubReqA"])},
                "targets": {"m.init_args.r": "init_arg"}, "tval": {"m.init_args.r": 9}, "need": ["m"]},
    "cls_src": {"build": shape_cls_src, "links": [(("m.init_args.a",), "t", "double"), (("m.init_args.s",), "u", None)],
                "leaves": {"m.init_args.a": ("ac", INT2), "m.init_args.s": ("ac", STR2), "m": ("ac", ["SubAdd", "SubKw"])}, "targets": {"t": "plain", "u": "plain"},
                "tval": {"t": 9, "u": "zz"}},
    "cls_to_cls": {"build": shape_cls_to_cls, "links": [(("m.init_args.a",), "n.init_args.a", None)],
                   "leaves": {"m.init_args.a": ("ac", INT2), "m": ("ac", ["SubAdd"]), "n": ("acv", ["SubAdd", "SubKw"])}, "targets": {"n.init_args.a": "init_arg"},
                   "tval": {"n.init_args.a": 9}},
    "classgroup": {"build": shape_classgroup, "links": [(("a",), "m.a", "double"), (("s",), "m.s", None)], "leaves": {"a": ("acev", INT2), "s": ("ac", STR2)},
                   "targets": {"m.a": "plain", "m.s": "plain"}, "tval": {"m.a": 9, "m.s": "zz"}, "enclosing": {"m.a": ("--m", {"a": 9}), "m.s": ("--m", {"s": "zz"})}},
    "list": {"build": shape_list, "links": [(("a",), "ms.init_args.a", None)],
             "leaves": {"a": ("acev", INT2), "ms": ("ac", [["Base"], ["SubAdd", "Base"], ["SubKw", "SubAdd", "SubReq3"], []])},
             "targets": {"ms.init_args.a": "list_item"}, "tval": {"ms.init_args.a": 9}},
    "cls_whole": {"build": shape_cls_whole, "links": [(("m",), "t", "cls_a"), (("m",), "u", "cls_name")],
                  "leaves": {"m.init_args.a": ("ac", INT2), "m": ("ac", ["SubAdd", "SubKw", "SubReq3"])}, "targets": {"t": "plain", "u": "plain"}, "tval": {"t": 9, "u": "zz"}},
    "list_src": {"build": shape_list_src, "links": [(("l",), "t", "count"), (("l",), "l2", None)], "leaves": {"l": ("acev", [[4, 5, 6], []])},
                 "targets": {"t": "plain", "l2": "plain"}, "tval": {"t": 9, "l2": [0]}},
    "sub": {"build": shape_sub, "links": [(("fit.a", "fit.b"), "fit.t", "add")], "leaves": {"fit.a": ("acv", INT2), "fit.b": ("ac", INT2)}, "targets": {"fit.t": "plain"},
            "tval": {"fit.t": 9}, "prefix_argv": ["fit"], "sublinks": True},
}

CLS_VALUES = {
    "Base": {"class_path": G.path("Base")},
    "SubAdd": {"class_path": G.path("SubAdd"), "init_args": {"b": 2.0}},
    "SubKw": {"class_path": G.path("SubKw"), "dict_kwargs": {"q": 4}},
    "SubReq": {"class_path": G.path("SubReq")},
    "SubReqA": {"class_path": G.path("SubReq"), "init_args": {"a": 5}},
    "SubReq3": {"class_path": G.path("SubReq"), "init_args": {"r": 3}},
}


def make_parser(shape):
    spec = SHAPES[shape]
    p = ArgumentParser(exit_on_error=False, default_env=True, env_prefix=ENV)
    p.add_argument("--cfg", action="config")
    spec["build"](p)
    if not spec.get("sublinks"):
        for sources, target, fn in spec["links"]:
            p.link_arguments(sources if len(sources) > 1 else sources[0], target, FN[fn])
    return p


def summary(shape):
    spec = SHAPES[shape]
    links = "; ".join(f"link_arguments({s if len(s) > 1 else s[0]!r}, {t!r}, {f})" for s, t, f in spec["links"])
    return f"ArgumentParser(exit_on_error=False, default_env=True, env_prefix='{ENV}') + --cfg + {spec['build'].__name__} of bounded/b15_link_parse.py; {links}"


# ---------------------------------------------------------------------- inputs
def leaf_value(v):
    if isinstance(v, str) and v in CLS_VALUES:
        return json.loads(json.dumps(CLS_VALUES[v]))
    if isinstance(v, list) and all(isinstance(i, str) for i in v):
        return [json.loads(json.dumps(CLS_VALUES[i])) for i in v]
    return v


def set_nested(d, key, value):
    parts = key.split(".")
    for part in parts[:-1]:
        d = d.setdefault(part, {})
    if isinstance(value, dict) and "class_path" not in value and isinstance(d.get(parts[-1]), dict):
        d[parts[-1]].update(value)
    else:
        d[parts[-1]] = value


def render(shape, assign, supply):
    """assign: {leaf: (channel, value[, override])}; supply: (target, how) or None  ->  (mode, argv/obj, env)"""
    spec = SHAPES[shape]
    cfg, argv, env = {}, [], {}
    # class arguments first so that init_args given for them land on the right class
    order = sorted(assign, key=lambda k: (k.count("."), k))
    for leaf in order:
        ch, val = assign[leaf][0], leaf_value(assign[leaf][1])
        sval = json.dumps(val) if not isinstance(val, str) else val
        if ch in ("c", "v"):
            set_nested(cfg, leaf, val)
        if ch == "a":
            argv.append(f"--{leaf.replace('.init_args.', '.') if spec.get('dotted_short') else leaf}={sval}")
        if ch == "v":  # config, then an overriding option
            over = leaf_value(assign[leaf][2])
            argv.append(f"--{leaf}={json.dumps(over) if not isinstance(over, str) else over}")
        if ch == "e":
            env[f"{ENV}_{leaf.replace('.', '__').upper()}"] = sval
    mode = "argv"
    if supply and supply[0] == "*":
        mode = supply[1]
    elif supply:
        target, how = supply
        tval = spec["tval"][target]
        if how == "option":
            argv.append(f"--{target}={json.dumps(tval) if not isinstance(tval, str) else tval}")
        elif how == "option-short":
            argv.append(f"--{target.replace('.init_args.', '.')}={json.dumps(tval) if not isinstance(tval, str) else tval}")
        elif how == "config":
            if spec["targets"][target] == "list_item":
                items = cfg.get("ms")
                if items:
                    for it in items:
                        it.setdefault("init_args", {})["a"] = tval
            else:
                set_nested(cfg, target, tval)
        elif how == "env":
            env[f"{ENV}_{target.replace('.', '__').upper()}"] = json.dumps(tval) if not isinstance(tval, str) else tval
        elif how == "enclosing":
            opt, val = spec["enclosing"][target]
            argv.append(f"{opt}={json.dumps(val)}")
        elif how == "object":
            mode = "object"
            set_nested(cfg, target, tval)
    if mode in ("object", "string"):
        obj = json.loads(json.dumps(cfg))
        for leaf in order:  # everything goes through the object
            ch = assign[leaf][0]
            if ch in ("a", "e"):
                set_nested(obj, leaf, leaf_value(assign[leaf][1]))
            if ch == "v":
                set_nested(obj, leaf, leaf_value(assign[leaf][2]))
        if spec.get("prefix_argv"):
            obj = {"subcommand": "fit", **obj} if "fit" in obj else obj
        return (mode, obj, {}) if mode == "object" else (mode, json.dumps(obj), {})
    full = ["--cfg", json.dumps(cfg)] if cfg else []
    full += spec.get("prefix_argv", [])  # the subcommand name comes after the options of the top-level parser
    for a in argv:
        full.append(a.replace("--fit.", "--") if spec.get("prefix_argv") else a)
    return "argv", full, env


def assignments(shape, thorough):
    spec = SHAPES[shape]
    leaves = list(spec["leaves"].items())
    options = []
    for leaf, (chans, values) in leaves:
        opts = [None]
        for ci, ch in enumerate(chans):
            for vi, v in enumerate(values):
                if ch == "v":
                    if vi == 0:
                        opts.append(("v", values[1] if len(values) > 1 else values[0], values[0]))
                    continue
                if not thorough and vi > 0 and ch != "a" and not isinstance(v, (str, list)):
                    continue
                opts.append((ch, v))
        options.append(opts)
    out = []

    def rec(i, cur):
        if i == len(leaves):
            out.append(dict(cur))
            return
        for o in options[i]:
            if o is not None:
                cur[leaves[i][0]] = o
            rec(i + 1, cur)
            cur.pop(leaves[i][0], None)

    rec(0, {})
    need = spec.get("need", [])
    out = [a for a in out if all(n in a for n in need) and _consistent(a)]
    if not thorough and len(out) > 30:
        # deterministic thinning that keeps every single-leaf setting and a spread of the combinations
        singles = [a for a in out if len(a) <= 1 + len(need)]
        rest = [a for a in out if len(a) > 1 + len(need)]
        step = max(1, len(rest) // 20)
        out = singles + rest[::step]
    return out


def _consistent(assign):
    """an init_args leaf may only be set when the class configured for that argument (default: Base) has the parameter"""
    for leaf in assign:
        if ".init_args." in leaf:
            holder, param = leaf.split(".init_args.")
            name = assign[holder][-1] if holder in assign else "Base"
            cp = CLS_VALUES[name]["class_path"].rsplit(".", 1)[-1]
            if param not in G.MODEL[cp]["params"]:
                return False
    return True


def supplies(shape):
    spec = SHAPES[shape]
    out = [None]
    for target, kind in spec["targets"].items():
        hows = ["option", "config", "object"]
        if kind == "plain" and "." not in target:
            hows.append("env")
        if kind == "init_arg":
            hows.append("option-short")
        if target in spec.get("enclosing", {}):
            hows.append("enclosing")
        if kind == "list_item":
            hows = ["config", "option-short"]
        if spec.get("prefix_argv"):
            hows = ["option", "config"]
        out += [(target, how) for how in hows]
    if not spec.get("prefix_argv"):
        out += [("*", "object"), ("*", "string")]  # the whole input through parse_object / parse_string, nothing for the targets
    return out


def cases(thorough):
    out = []
    for shape in SHAPES:
        assigns = assignments(shape, thorough)
        for ai, assign in enumerate(assigns):
            for si, supply in enumerate(supplies(shape)):
                if supply is not None and not thorough and (ai + si) % 3 and ai > 3:
                    continue
                lab = ",".join(f"{k}@{v[0]}={_lv(v[1])}{'>' + _lv(v[2]) if len(v) > 2 else ''}" for k, v in sorted(assign.items())) or "defaults"
                sup = f"{supply[0]}<-{supply[1]}" if supply else "no-target-value"
                out.append({"shape": shape, "assign": assign, "supply": supply, "id": G.short_key(f"{shape}:{lab}:{sup}")})
    return out


def _lv(v):
    return ("+".join(map(str, v)) or "[]") if isinstance(v, list) else str(v)


# ---------------------------------------------------------------------- the contract
def get_path(d, key):
    cur = d
    for part in key.split("."):
        if not isinstance(cur, dict) or part not in cur:
            return G.MISSING
        cur = cur[part]
    return cur


def K(clause, where):
    return f"c15:{clause}:{where}"


def run_case(case):
    try:
        return _run_case(case)
    except Exception:  # noqa - a crash of the harness itself must be visible
        import traceback

        return [("check", False, K("harness-error", case["id"]), "the harness raised: " + traceback.format_exc()[-700:], None)]


def with_env(env, fn, *args):
    saved = {k: os.environ.get(k) for k in env}
    os.environ.update(env)
    try:
        return outcome(fn, *args)
    finally:
        for k, v in saved.items():
            if v is None:
                os.environ.pop(k, None)
            else:
                os.environ[k] = v


def _run_case(case):
    ev = []
    shape, assign, supply, lab = case["shape"], case["assign"], case["supply"], case["id"]
    spec = SHAPES[shape]
    parser = make_parser(shape)
    mode, payload, env = render(shape, assign, supply)
    call = {"object": "parse_object", "string": "parse_string", "argv": "parse_args"}[mode]
    info = {"parser": summary(shape), "call": call, "input": payload, "env": env or None}
    res = with_env(env, getattr(parser, call), payload)
    info["result"] = res[:3] if res[0] != "ok" else G.plain(res[1])

    # the option of a plain-argument target is rejected
    if supply and supply[1] == "option" and spec["targets"][supply[0]] == "plain":
        ev.append(("check", res[0] != "ok", K("target-option-accepted", lab), "the command-line option of a plain-argument link target was accepted", info))
        ev.append(("nt", ("option-rejected", lab)))
        return ev
    if res[0] != "ok":
        if supply is None or supply[0] == "*":
            # nothing was supplied for any target: every input here is a valid assignment of the sources
            ev.append(("check", False, K("valid-rejected", lab), f"sources set to valid values and no value given for the targets, yet parsing failed (target still required?): {res[1:]}"[:400], info))
        else:
            ev.append(("nt", ("supply-rejected", lab)))
        return ev
    got = G.plain(res[1])
    ev.append(("nt", ("accepted", lab)))
    ev += check_links(spec, got, lab, info, "parse")

    # dump: no target key anywhere; re-parse reconstructs
    dres = outcome(parser.dump, res[1])
    if dres[0] != "ok":
        ev.append(("check", False, K("dump-failed", lab), f"dump of the parsed configuration failed: {dres[1:]}"[:300], info))
        return ev
    text = dres[1]
    loaded = yaml.safe_load(text) or {}
    leaked = []
    for _, target, _ in spec["links"]:
        kind = spec["targets"][target]
        if kind == "list_item":
            head, _, tail = target.partition(".")
            items = loaded.get(head) or []
            if any(isinstance(it, dict) and get_path(it, tail) is not G.MISSING for it in items):
                leaked.append(target)
        elif get_path(loaded, target) is not G.MISSING:
            leaked.append(target)
    info_d = dict(info, dump=text)
    for target in leaked:
        kind = spec["targets"][target]
        if kind == "list_item":
            # one defect class whatever the sources: keyed by the target and the classes of the items
            items = [str(it.get("class_path", "?")).rsplit(".", 1)[-1] for it in loaded.get(target.split(".")[0]) or [] if isinstance(it, dict)]
            ev.append(("check", False, K("target-in-dump", f"list_item:{target}:items={'+'.join(items)}"), f"link target {target} (items of a list of classes) appears in the dump", info_d))
        else:
            ev.append(("check", False, K("target-in-dump", f"{kind}:{lab}:{target}"), f"link target {target} appears in the dump", info_d))
    if not leaked:
        ev.append(("check", True, K("target-in-dump", lab), "", None))
    rres = with_env({}, parser.parse_string, text)
    if rres[0] != "ok":
        ev.append(("check", False, K("reparse-failed", lab), f"parse_string(dump(cfg)) failed: {rres[1:]}"[:400], info_d))
        return ev
    got2 = G.plain(rres[1])
    ev += check_links(spec, got2, lab, info_d, "reparse")
    diffs = []
    for sources, target, _ in spec["links"]:
        if any(get_path(got, s) is G.MISSING for s in sources):
            continue  # the link could not be applied (its source does not exist for the configured class): outside the statement
        for key in list(sources) + ([target] if spec["targets"][target] != "list_item" else []):
            if get_path(got, key) != get_path(got2, key):
                diffs.append((key, get_path(got, key), get_path(got2, key)))
        if spec["targets"][target] == "list_item":
            head = target.split(".")[0]
            if got.get(head) != got2.get(head):
                diffs.append((head, got.get(head), got2.get(head)))
    ev.append(("check", not diffs, K("reparse-differs", lab), f"re-parsing the dump does not reconstruct (key, parsed, re-parsed): {diffs}"[:500], info_d))
    if len(ev) and case.get("sample"):
        ev.append(("sample", {"shape": shape, "input": payload, "env": env, "result": got}))
    return ev


def check_links(spec, got, lab, info, phase):
    ev = []
    for sources, target, fn in spec["links"]:
        kind = spec["targets"][target]
        args = [get_path(got, s) for s in sources]
        if any(a is G.MISSING for a in args):
            ev.append(("note", f"link source absent from the result (class without that parameter / argument is null): link not evaluated [{phase}]"))
            continue
        try:
            want = REF[fn](*args)
        except Exception as ex:  # noqa
            ev.append(("note", f"reference function not applicable to the source values ({type(ex).__name__})"))
            continue
        if kind == "list_item":
            head, _, tail = target.partition(".")
            items = got.get(head)
            if not items:
                continue
            for i, item in enumerate(items):
                cur = get_path(item, tail)
                if cur is G.MISSING:
                    continue
                ok = cur == want and type(cur) is type(want)
                ev.append(("check", ok, K(f"target-differs-{phase}", f"{lab}:{target}[{i}]"), f"{target} of item {i} is {cur!r}, f(sources {args}) = {want!r}", info))
            continue
        cur = get_path(got, target)
        if cur is G.MISSING:
            holder = get_path(got, target.split(".init_args.")[0]) if kind == "init_arg" else G.MISSING
            if kind == "init_arg" and (holder is None or holder is G.MISSING or (isinstance(holder, dict) and target.rsplit(".", 1)[1] not in _params_of(holder))):
                ev.append(("note", "init_args target does not exist for the configured class / the class argument is null: link not evaluated"))
                continue
            ev.append(("check", False, K(f"target-missing-{phase}", f"{lab}:{target}"), f"link target {target} is absent from the result although its sources are {args}", info))
            continue
        ok = cur == want and type(cur) is type(want)
        ev.append(("check", ok, K(f"target-differs-{phase}", f"{lab}:{target}"), f"{target} is {cur!r}, f(sources {args}) = {want!r}", info))
    return ev


def _params_of(spec):
    name = (spec.get("class_path") or "").rsplit(".", 1)[-1]
    return G.MODEL.get(name, {"params": {}})["params"]


# ---------------------------------------------------------------------- structural cases: what link_arguments must refuse / must do to the parser
def structural(h):
    def fresh():
        p = ArgumentParser(exit_on_error=False)
        _plain(p)
        p.add_argument("--t", type=int, required=True)
        p.add_argument("--u", type=int)
        return p

    p = fresh()
    p.link_arguments("a", "t")
    h.check("t" not in p.required_args, "c15:target-still-required:plain", "link target was not removed from required_args", {"parser": "a -> t (t required)"})
    res = outcome(p.parse_args, [])
    h.check(res[0] == "ok" and res[1].t == 1, "c15:target-still-required:parse", f"parse without the required link target failed: {res}", None)
    h.nontrivial("structural:required")
    # chains and double targets are refused, so that "target == f(final sources)" is well defined
    for name, first, second in (("double-target", ("a", "t"), ("b", "t")), ("source-is-target", ("a", "t"), ("t", "u")), ("target-is-source", ("a", "t"), ("b", "a"))):
        p = fresh()
        p.link_arguments(*first)
        res = outcome(p.link_arguments, *second)
        h.check(res[0] == "exc" and res[1] == "ValueError", f"c15:link-set-not-refused:{name}", f"link_arguments{second} after {first} was not refused with ValueError: {res[:2]}", None)
        h.nontrivial("structural:" + name)
    # ... also when the chain runs through a group: the group g is a source, a member of g is made a target (or the other way round); and through a second source
    def grouped():
        p = ArgumentParser(exit_on_error=False)
        p.add_argument("--g.x", type=int, default=1)
        p.add_argument("--g.y", type=int, default=2)
        p.add_argument("--t", type=int)
        p.add_argument("--c", type=int, default=7)
        p.add_argument("--u", type=int)
        return p
    for name, first, second in (("group-is-source,member-made-target", (("g",), "t", nssum), (("c",), "g.x", None)), ("member-is-target,group-made-source", (("c",), "g.x", None), (("g",), "t", nssum)),
                                ("member-is-source,group-member-chain", (("g.x",), "t", None), (("t",), "u", None)), ("second-source-made-target", (("c", "g.y"), "t", add), (("u",), "g.y", None))):
        p = grouped()
        p.link_arguments(first[0] if len(first[0]) > 1 else first[0][0], first[1], compute_fn=first[2])
        res = outcome(p.link_arguments, second[0] if len(second[0]) > 1 else second[0][0], second[1], compute_fn=second[2])
        h.check(res[0] == "exc" and res[1] == "ValueError", f"c15:link-set-not-refused:{name}", f"link {second[0]} -> {second[1]} after {first[0]} -> {first[1]} was not refused with ValueError: {res[:2]}", None)
        h.nontrivial("structural:" + name)
    # members of one group that do not feed each other may be linked freely
    p = grouped()
    p.link_arguments("g.x", "t")
    res = outcome(p.link_arguments, "c", "g.y")
    h.check(res[0] == "ok", "c15:link-set-refused:sibling-members", f"a link into g.y was refused although only g.x is a source: {res[:3]}", None)
    p = fresh()
    res = outcome(p.link_arguments, ("a", "b"), "t")
    h.check(res[0] == "exc" and res[1] == "ValueError", "c15:link-set-not-refused:multi-source-without-fn", f"several sources without a compute function were accepted: {res[:2]}", None)
    h.nontrivial("structural:multi-source-without-fn")


def main():
    h = Harness("b15_link_parse", rule="every parser shape (15 link sets) x every enumerated assignment of the source leaves over the channels default/option/config/env/"
                "config+option x every way of supplying a value for a target (none/option/config/env/object/enclosing spec); non-trivial = distinct "
                "(shape, assignment, supply) that reached a verdict; one evaluation = one link equality, one dump-absence test, one re-parse comparison or one rejection")
    structural(h)
    all_cases = cases(h.thorough)
    for i, c in enumerate(all_cases):
        c["sample"] = i % 97 == 5
    if h.thorough:
        # seeded extension: random assignments with random values
        shapes = list(SHAPES)
        for i in range(600):
            shape = h.rng.choice(shapes)
            spec = SHAPES[shape]
            assign = {}
            for leaf, (chans, values) in spec["leaves"].items():
                if h.rng.random() < 0.7 or leaf in spec.get("need", []):
                    ch = h.rng.choice(chans)
                    if isinstance(values[0], int):
                        v, v2 = h.rng.randint(-50, 50), h.rng.randint(-50, 50)
                    else:
                        v, v2 = h.rng.choice(values), h.rng.choice(values)
                    assign[leaf] = (ch, v, v2) if ch == "v" else (ch, v)
            if not _consistent(assign):
                continue
            supply = h.rng.choice(supplies(shape))
            lab = ",".join(f"{k}@{v[0]}={_lv(v[1])}{'>' + _lv(v[2]) if len(v) > 2 else ''}" for k, v in sorted(assign.items())) or "defaults"
            sup = f"{supply[0]}<-{supply[1]}" if supply else "no-target-value"
            all_cases.append({"shape": shape, "assign": assign, "supply": supply, "id": G.short_key(f"{shape}:{lab}:{sup}"), "sample": False})
    n = G.run_cases(h, all_cases, run_case)
    kinds = {"accepted": 0, "option-rejected": 0, "supply-rejected": 0}
    for sig in h.distinct:
        if isinstance(sig, tuple) and sig[0] in kinds:
            kinds[sig[0]] += 1
    if not h.only:
        h.check(kinds["accepted"] > 0 and kinds["option-rejected"] > 0, "b15:vacuous", f"accepted parses and rejected target options must both occur: {kinds}")
    h.note(f"cases run: {n}; {kinds}")
    sys.exit(h.finish(exhaustive=True, bound="15 parser shapes / link sets (see SHAPES); 2 values per scalar source leaf, 3-4 class specs per class-valued leaf; every leaf over every channel "
                      "that can carry it (quick tier: thinned to ~30 assignments per shape, every single-leaf setting kept); one target value supplied at a time"
                      + ("; + 600 seeded random assignments with values in [-50, 50]" if h.thorough else "")))


if __name__ == "__main__":
    main()
