"""C11 bounded stand-in: Namespace against a nested-dictionary reference model, over operation histories.

Reference (bounded/gen_ns.py, written from the statement): a nested dict addressed *step by step*; a Namespace is a branch,
every other value a leaf; a plain dict stored as a value is one leaf for items/keys/values but - being a mapping - is
addressed by a dotted key exactly as ns[k1][k2] addresses it.

Contracts (abstract-view style, view(ns) published by items(branches=True)):
  mutators  set / setattr / del / pop / update / update(only_unset) [/ step-by-step set]:
            raises KeyError iff the model does, never anything else; pop returns what the model returns;
            view' == model_op(view) over the WHOLE view (so damage to other keys is seen)
  readers   after every step, for every addressable path and every absent alphabet key:
            ns[k], ns.get(k, d), k in ns, ns[k1][k2].. (step by step)  == model lookup
            items/keys/values (branches off/on), as_dict, clone (equal view, equal by ==, no shared branch objects),
            == / != against an independently rebuilt namespace and against one-leaf variations,
            namespace_to_dict, dict_to_namespace, Namespace(dict), Namespace(flat dotted dict), Namespace(ns)

Enumeration: breadth-first over histories with identical stored states merged (the behaviour of a Namespace is a function
of its stored object graph; values are built freshly for every operation so there is no aliasing), i.e. exhaustive over all
histories of the stated length over the stated alphabet.  After a violation the model is re-synchronised with the real
object so that exploration continues behind known defects.

Violation keys name the defect class, not the history:  c11:<op>:<family>:<sub>:<name class>:<symptom>
  op          set setattr set_steps del pop update update-ns update_unset update_unset-ns | getitem get contains read-steps
  family:sub  at-branch:{absent,leaf,dict,branch}   every proper prefix of the key is a branch; sub = what the key addresses
              parent-{missing,None,leaf}:-          a proper prefix is missing / None / another non-mapping value
              thru-dict:{present,absent,mid}        a proper prefix is a plain dict value; mid = a later prefix is no mapping
              (sub is * when an update with a namespace value touches several classes)
  name class  plain | clash | plain-below-dict | clash-below-dict | dictattr-below-dict | marked-key-in-dict  (gen_ns.classify)
  symptom     raises:<Exception> | no-raise | result | state
whole-state reads: c11:<read>:state[<features of the state>] and c11:dict_roundtrip:dict[<features of the dictionary>].
The shortest history that shows a key is kept as the case (python one-liner in case['repro']); random histories are
shortened greedily before they are reported.
"""
import multiprocessing
import re
import sys

from bounded.common import Harness
from bounded.gen_ns import (CLASH, MARK, MB, MISSING, NS, classify, classify_many, digest, m_all_paths, m_apply, m_expand_all,
                            m_items_branches, m_leaves, m_lookup, m_plain, m_to_dict, mcopy, mk_model, eqv, norm, op_src, pubview,
                            r_apply, raw, rawcopy, repro, tainted)

from jsonargparse import Namespace
from jsonargparse._namespace import dict_to_namespace, namespace_to_dict

SENT = "<default>"
_ADDR = re.compile(r"0x[0-9a-f]{6,}")


class Ctx:
    """check sink that can be shipped back from a worker process"""
    def __init__(self):
        self.evals = 0
        self.viol = {}
        self.distinct = set()
        self.stats = {}
        self.samples = []
        self.track = False  # remember where a violation was seen, for minimisation of random histories
        self.cur = None
        self.origin = {}
        self.known = frozenset()  # keys already reported by an earlier phase (a worker need not keep its own case for them)

    def bad(self, key, what, case):
        self.evals += 1
        if key not in self.viol and key not in self.known:
            self.viol[key] = (_ADDR.sub("0x..", what), case)
            if self.track:
                self.origin[key] = self.cur

    def stat(self, k, n=1):
        self.stats[k] = self.stats.get(k, 0) + n

    def merge(self, other):
        self.evals += other.evals
        for k, v in other.viol.items():
            self.viol.setdefault(k, v)
        self.distinct |= other.distinct
        for k, n in other.stats.items():
            self.stat(k, n)
        self.samples.extend(other.samples[: 2])


# ---------------------------------------------------------------------------------------------- mutators
def op_paths(m, op):
    kind = op[0]
    if kind in ("update", "update_unset"):
        spec, key = op[1], op[2]
        if isinstance(spec, NS):
            prefix = key + "." if key else ""
            return [(prefix + k).split(".") for k, _ in m_leaves(mk_model(spec))] or ([key.split(".")] if key else [])
        return [key.split(".")] if key else []
    return [op[1].split(".")]


def op_class(m, op):
    return cls_str(classify_many(m, op_paths(m, op)))


def cls_str(c):
    # states that already show a marked key inside a dict are products of an earlier (reported) violation: one class per op
    return f"{c[0]}:*:{c[2]}" if c[2] == "marked-key-in-dict" else ":".join(c)


def step(C, ns, m, op, history):
    """Apply op to the real object and to the model (both in place); check the mutator contract. -> model to continue with."""
    C.cur = (history, op, None)
    kind = op[0]
    opname = kind + ("-ns" if kind.startswith("update") and isinstance(op[1], NS) else "")
    cls = None
    pre_m = mcopy(m)
    rr = r_apply(ns, op)
    mr = m_apply(m, op)
    C.stat(f"mutator {opname}: reference {'raises KeyError' if mr[0] == 'exc' else 'performs'}")
    failed = False
    # (1) outcome
    if mr[0] == "exc":
        # the statement fixes what the Namespace holds afterwards, not the class of the error: any exception is a refusal
        if rr[0] != "exc":
            failed = True
            cls = op_class(pre_m, op)
            sym = "raises:" + rr[1] if rr[0] == "exc" else "no-raise"
            C.bad(f"c11:{opname}:{cls}:{sym}", f"reference raises KeyError (state unchanged); real: {rr[:2]}",
                  {"repro": repro(history, op_src(op)), "expected": "KeyError", "got": rr})
        else:
            C.evals += 1
    else:
        if rr[0] != "ok":
            failed = True
            cls = op_class(pre_m, op)
            C.bad(f"c11:{opname}:{cls}:raises:{rr[1]}", f"reference performs the operation; real raises {rr[1]}",
                  {"repro": repro(history, op_src(op)), "expected_view": m_to_dict(m), "got": rr})
        elif kind == "pop" and not eqv(rr[1], mr[1]):
            failed = True
            cls = op_class(pre_m, op)
            C.bad(f"c11:{opname}:{cls}:result", f"pop returned {rr[1]!r}, reference {mr[1]!r}",
                  {"repro": repro(history, op_src(op)), "expected": mr[1], "got": rr[1]})
        else:
            C.evals += 1
    # (2) whole view (skipped when the op already failed by raising: nothing more to learn, model is re-synchronised)
    if not (failed and rr[0] == "exc"):
        pv = pubview(ns)
        if pv is None or norm(pv, True) != norm(m, True):
            failed = True
            cls = cls or op_class(pre_m, op)
            C.bad(f"c11:{opname}:{cls}:state", "view after the operation differs from the reference",
                  {"repro": repro(history, op_src(op)) + "; print(ns)", "expected_view": m_to_dict(m), "got_view": None if pv is None else m_to_dict(pv)})
        else:
            C.evals += 1
    if failed:
        C.stat("resync")
        return raw(ns)
    r = raw(ns)
    return r if norm(r) != norm(m) else m


# ---------------------------------------------------------------------------------------------- readers
def real_steps(ns, path):
    node = ns
    for seg in path:
        if isinstance(node, Namespace):
            if seg not in node:  # single segment
                return MISSING
            node = node[seg]
        elif isinstance(node, dict):
            if seg not in node:
                return MISSING
            node = node[seg]
        else:
            return MISSING
    return node


def build(m, reverse=True):
    """independent reconstruction of a namespace from a model: single-segment assignments, other insertion order"""
    n = Namespace()
    items = list(m.items())
    for k, v in (reversed(items) if reverse else items):
        n[k] = build(v, reverse) if type(v) is MB else _real_leaf(v)
    return n


def _real_leaf(v):
    if type(v) is MB:
        return build(v, False)
    if isinstance(v, dict):
        return {k: _real_leaf(x) for k, x in v.items()}
    if isinstance(v, list):
        return [_real_leaf(x) for x in v]
    if isinstance(v, tuple):
        return tuple(_real_leaf(x) for x in v)
    return v


def has_inner_branch(m, inside=False):
    """a branch below a dict/list value (only reachable by step-by-step assignment of a Namespace into a dict)"""
    if type(m) is MB:
        return inside or any(has_inner_branch(v, inside) for v in m.values())
    if isinstance(m, dict):
        return any(has_inner_branch(v, True) for v in m.values())
    if isinstance(m, (list, tuple)):
        return any(has_inner_branch(v, True) for v in m)
    return False


def dict_form_ok(d, m):
    """d is the dictionary form of model m: plain dicts all the way down, same typed leaves.  When the model itself holds a
    branch below a dict value, the statement does not say whether that one is converted, so only the plain content is compared."""
    if type(d) is not dict:
        return False
    if has_inner_branch(m):
        return norm(m_plain(raw(d))) == norm(m_plain(m))
    return norm(d) == norm(m_plain(m))


def state_class(m):
    leaves = m_leaves(m)
    f = []
    if any(isinstance(v, dict) for _, v in leaves):
        f.append("dictleaf")
    if any(s in CLASH for k, _ in m_items_branches(m) for s in k.split(".")):
        f.append("clash")
    if any(type(v) is MB and not v for _, v in m_items_branches(m)):
        f.append("emptybranch")
    if tainted(m):
        f.append("markedkey")
    return "+".join(f) or "plain"


def dict_class(d):
    f = set()

    def scan(x):
        if isinstance(x, dict):
            if not x:
                f.add("emptydict")
            if any(not isinstance(k, str) for k in x):
                f.add("nonstrkey")
            for v in x.values():
                scan(v)
        elif isinstance(x, (list, tuple)):
            nd = sum(isinstance(v, dict) for v in x)
            if nd:
                f.add(("mixed" if nd < len(x) else "dict") + type(x).__name__)
            for v in x:
                scan(v)
    scan(d)
    return "+".join(sorted(f)) or "plain"


def branch_ids(ns, out=None):
    out = set() if out is None else out
    out.add(id(ns))
    for v in ns.__dict__.values():
        if isinstance(v, Namespace):
            branch_ids(v, out)
    return out


def observe(C, ns, m, history, absent_keys):
    """All read contracts on one state."""
    C.cur = (history, None, tuple(absent_keys))

    def case(extra=None):
        return {"repro": repro(history, extra), "expected_view": m_to_dict(m)}

    def whole(name, ok, what, extra, cls=None):
        if ok:
            C.evals += 1
        else:
            C.bad(f"c11:{name}:{cls or 'state[' + state_class(m) + ']'}", what, case(extra))

    snap = norm(raw(ns))
    # ---- point reads
    paths = m_all_paths(m)
    seen_paths = set(paths)
    for k in absent_keys:
        p = tuple(k.split("."))
        if p not in seen_paths:
            paths.append(p)
    for p in paths:
        if any(s.startswith(MARK) for s in p):
            continue
        key = ".".join(p)
        exp = m_lookup(m, p)
        # step by step
        got = real_steps(ns, p)
        if (got is MISSING) != (exp is MISSING) or (exp is not MISSING and not eqv(got, exp)):
            cl = cls_str(classify(m, list(p)))
            C.bad(f"c11:read-steps:{cl}:result", f"ns{''.join('[%r]' % s for s in p)} gives {got!r}, reference {exp!r}", case("print(ns" + "".join("[%r]" % s for s in p) + ")"))
        else:
            C.evals += 1
        # ns[key]
        try:
            got, exc = ns[key], None
        except KeyError:
            got, exc = MISSING, "KeyError"
        except Exception as ex:  # noqa
            got, exc = MISSING, type(ex).__name__
        if exc not in (None, "KeyError"):
            cl = cls_str(classify(m, list(p)))
            C.bad(f"c11:getitem:{cl}:raises:{exc}", f"ns[{key!r}] raises {exc}", case(f"print(ns[{key!r}])"))
        elif (got is MISSING) != (exp is MISSING) or (exp is not MISSING and not eqv(got, exp)):
            cl = cls_str(classify(m, list(p)))
            sym = "raises:KeyError" if got is MISSING else "no-raise" if exp is MISSING else "result"
            C.bad(f"c11:getitem:{cl}:{sym}", f"ns[{key!r}] gives {'KeyError' if got is MISSING else repr(got)}, reference {'KeyError' if exp is MISSING else repr(exp)}", case(f"print(ns[{key!r}])"))
        else:
            C.evals += 1
        readable = got is not MISSING if exc in (None, "KeyError") else None
        # get
        try:
            got, exc = ns.get(key, SENT), None
        except Exception as ex:  # noqa
            got, exc = None, type(ex).__name__
        gettable = None if exc else (got is not SENT)
        want = SENT if exp is MISSING else exp
        if exc or not eqv(got, want):
            cl = cls_str(classify(m, list(p)))
            C.bad(f"c11:get:{cl}:{'raises:' + exc if exc else 'result'}", f"ns.get({key!r}, {SENT!r}) gives {exc or repr(got)}, reference {want!r}", case(f"print(ns.get({key!r}, {SENT!r}))"))
        else:
            C.evals += 1
        # contains
        try:
            got, exc = key in ns, None
        except Exception as ex:  # noqa
            got, exc = None, type(ex).__name__
        if exc or got is not (exp is not MISSING):
            cl = cls_str(classify(m, list(p)))
            C.bad(f"c11:contains:{cl}:{'raises:' + exc if exc else 'result'}", f"{key!r} in ns gives {exc or got}, reference {exp is not MISSING}", case(f"print({key!r} in ns)"))
        else:
            C.evals += 1
        # the three dotted-key readers answer for *one* dictionary: whatever it holds at the key (also where that differs from the reference,
        # i.e. in the known-finding area below plain dict values), membership, ns[key] and get must agree with each other
        answers = {"ns[key]": readable, "get": gettable, "in": None if exc else got}
        given = {k: v for k, v in answers.items() if v is not None}
        if len(set(given.values())) > 1:
            cl = classify(m, list(p))[2]
            C.bad(f"c11:readers-disagree:{cl}:" + ",".join(f"{k}={'present' if v else 'absent'}" for k, v in sorted(given.items())),
                  f"for {key!r}: " + ", ".join(f"{k} says {'present' if v else 'absent'}" for k, v in given.items()), case(f"print({key!r} in ns, ns.get({key!r}, 'absent'))"))
        else:
            C.evals += 1
    # ---- items / keys / values
    for br in (False, True):
        exp = sorted((k, norm(v, True)) for k, v in (m_items_branches(m) if br else m_leaves(m)))
        try:
            it = list(ns.items(br)) if br else list(ns.items())
            ks = list(ns.keys(br)) if br else list(ns.keys())
            vs = list(ns.values(br)) if br else list(ns.values())
            ok = sorted((k, norm(v, True)) for k, v in it) == exp
            what = f"items({br}) = {it!r}"
            whole(f"items{'-branches' if br else ''}", ok, what, f"print(list(ns.items({br})))")
            whole(f"keys{'-branches' if br else ''}", ks == [k for k, _ in it] and ok, f"keys({br}) = {ks!r} vs items {it!r}", f"print(list(ns.keys({br})))")
            whole(f"values{'-branches' if br else ''}", len(vs) == len(it) and all(a is b or norm(a) == norm(b) for a, (_, b) in zip(vs, it)) and ok, f"values({br}) = {vs!r} vs items {it!r}", f"print(list(ns.values({br})))")
        except Exception as ex:  # noqa
            whole(f"items{'-branches' if br else ''}", False, f"items/keys/values({br}) raised {type(ex).__name__}: {ex}", f"print(list(ns.items({br})))")
    # ---- as_dict
    expd = m_to_dict(m)
    try:
        d = ns.as_dict()
        whole("as_dict", dict_form_ok(d, m), f"as_dict() = {d!r}", "print(ns.as_dict())")
    except Exception as ex:  # noqa
        whole("as_dict", False, f"as_dict() raised {type(ex).__name__}: {ex}", "print(ns.as_dict())")
    # ---- clone
    try:
        c = ns.clone()
        pv = pubview(c)
        whole("clone-view", isinstance(c, Namespace) and pv is not None and norm(pv, True) == norm(m, True), f"clone() = {c!r}", "print(ns.clone())")
        whole("clone-eq", (c == ns) is True and (ns == c) is True and (c != ns) is False, "clone() != original", "print(ns.clone() == ns)")
        whole("clone-fresh", not (branch_ids(c) & branch_ids(ns)), "clone() shares a branch object with the original", "c = ns.clone()")
        done = []
        for p in paths:
            if not any(s.startswith(MARK) for s in p):
                try:
                    c[".".join(p)] = "changed-in-clone"
                    done.append(".".join(p))
                except Exception:  # noqa
                    pass
        for k in list(m)[:2]:
            c.pop(k)
        whole("clone-independent", norm(raw(ns)) == snap, f"assigning {done} / popping in the clone changed the original", f"c = ns.clone(); [c.__setitem__(k, 0) for k in {done}]; print(ns)")
    except Exception as ex:  # noqa
        whole("clone-view", False, f"clone() raised {type(ex).__name__}: {ex}", "print(ns.clone())")
    # ---- equality against an independent reconstruction and one-leaf variations
    if not tainted(m):
        try:
            rb = build(m)
            whole("eq-rebuilt", (ns == rb) is True and (rb == ns) is True and (ns != rb) is False, f"ns != namespace rebuilt step by step from the reference: {rb!r}", "print(ns)")
            leaves = m_leaves(m)
            for i, (k, v) in enumerate(leaves[:1] if len(history) > 2 else leaves[:3]):
                m2 = mcopy(m)
                p = k.split(".")
                node = m_lookup(m2, p[:-1])
                node[p[-1]] = ("other", i)
                whole("neq-changed-leaf", (ns == build(m2)) is False and (ns != build(m2)) is True, f"ns == a namespace whose leaf {k} differs", f"print(ns)  # compare with {k} changed")
                del node[p[-1]]
                if norm(m2) != norm(m):
                    whole("neq-removed-leaf", (ns == build(m2)) is False, f"ns == a namespace without leaf {k}", f"print(ns)  # compare with {k} removed")
            m2 = mcopy(m)
            m2["zz_extra"] = 0
            whole("neq-extra-leaf", (ns == build(m2)) is False, "ns == a namespace with one more leaf", "print(ns)")
        except Exception as ex:  # noqa
            whole("eq-rebuilt", False, f"equality raised {type(ex).__name__}: {ex}", "print(ns)")
        # ---- conversions to and from dictionaries
        try:
            d = namespace_to_dict(ns)
            whole("namespace_to_dict", dict_form_ok(d, m), f"namespace_to_dict = {d!r}", "from jsonargparse import namespace_to_dict; print(namespace_to_dict(ns))")
        except Exception as ex:  # noqa
            whole("namespace_to_dict", False, f"namespace_to_dict raised {type(ex).__name__}: {ex}", "from jsonargparse import namespace_to_dict; print(namespace_to_dict(ns))")
        expd = m_plain(expd)  # a nested dictionary proper: branches below dict values (only reachable step by step) as dicts too
        src = _real_leaf(expd)  # fresh objects
        src_norm = norm(src)
        try:
            dn = dict_to_namespace(src)
            pv = pubview(dn)
            whole("dict_to_namespace", isinstance(dn, Namespace) and pv is not None and norm(pv) == norm(m_expand_all(mcopy(expd))),
                  f"dict_to_namespace({expd!r}) = {dn!r}", f"from jsonargparse import dict_to_namespace; print(dict_to_namespace({expd!r}))")
            whole("dict_roundtrip", norm(namespace_to_dict(dn)) == norm(expd), f"namespace_to_dict(dict_to_namespace(d)) != d for d = {expd!r}",
                  f"from jsonargparse import dict_to_namespace, namespace_to_dict; print(namespace_to_dict(dict_to_namespace({expd!r})))", cls=f"dict[{dict_class(expd)}]")
            whole("dict_to_namespace-arg-untouched", norm(src) == src_norm, "dict_to_namespace modified its argument", f"d = {expd!r}")
        except Exception as ex:  # noqa
            whole("dict_to_namespace", False, f"dict_to_namespace({expd!r}) raised {type(ex).__name__}: {ex}", f"from jsonargparse import dict_to_namespace; print(dict_to_namespace({expd!r}))")
        try:
            n1 = Namespace(_real_leaf(expd))
            whole("Namespace(dict)", norm(n1.as_dict()) == norm(expd) and all(norm(real_steps(n1, (k,))) == norm(v) for k, v in expd.items()),
                  f"Namespace({expd!r}) = {n1!r}", f"print(Namespace({expd!r}))")
            flat = {k: _real_leaf(v) for k, v in m_leaves(m)}
            n2 = Namespace(dict(flat))
            pv = pubview(n2)
            whole("Namespace(flat-dict)", pv is not None and sorted((k, norm(v, True)) for k, v in m_leaves(pv)) == sorted((k, norm(v, True)) for k, v in flat.items()),
                  f"Namespace({flat!r}) = {n2!r}", f"print(Namespace({flat!r}))")
            n3 = Namespace(ns)
            pv = pubview(n3)
            whole("Namespace(ns)", pv is not None and norm(pv, True) == norm(m, True), f"Namespace(ns) = {n3!r}", "print(Namespace(ns))")
            top = {k: _real_leaf(v) for k, v in expd.items()}
            n4 = Namespace(**top)
            whole("Namespace(**kw)", norm(n4.as_dict()) == norm(expd), f"Namespace(**{top!r}) = {n4!r}", f"print(Namespace(**{expd!r}))")
        except Exception as ex:  # noqa
            whole("Namespace(dict)", False, f"Namespace(<dict>) raised {type(ex).__name__}: {ex}", f"print(Namespace({expd!r}))")
    else:
        C.stat("states with a marked key visible as data (conversion/equality reads skipped; cause reported at the write)")
    # ---- reads are pure
    whole("reads-pure", norm(raw(ns)) == snap, "a read operation changed the namespace", "print(ns)")


# ---------------------------------------------------------------------------------------------- exploration
def make_ops(keys, values, ns_values, setattr_keys, steps_keys=(), pop_default=SENT):
    ops = []
    allv = list(values) + list(ns_values)
    for k in keys:
        for v in allv:
            ops.append(("set", k, v))
    for k in setattr_keys:
        for v in allv:
            ops.append(("setattr", k, v))
    for k in steps_keys:
        for v in allv[:2]:
            ops.append(("set_steps", k, v))
    for k in keys:
        ops.append(("del", k))
        ops.append(("pop", k, pop_default))
    for kind in ("update", "update_unset"):
        for k in keys:
            for v in allv:
                ops.append((kind, v, k))
    for v in ns_values:
        ops.append(("update", v, None))
        ops.append(("update_unset", v, None))
    if values:
        ops.append(("update", values[0], None))
    return ops


_G = {}


def _expand_chunk(args):
    family, idxs, last = args
    C = Ctx()
    frontier, ops, keys, seen = _G["frontier"], _G["ops"], _G["keys"], _G["seen"]
    local_seen = set()
    out = []
    for i in idxs:
        ns0, m0, hist = frontier[i]
        for op in ops:
            ns = rawcopy(ns0)
            m = step(C, ns, mcopy(m0), op, hist)
            C.stat("transitions")
            dg = digest(raw(ns))
            if dg in seen or dg in local_seen:
                continue
            local_seen.add(dg)
            h2 = hist + (op,)
            observe(C, ns, m, h2, keys)
            C.stat("states observed")
            if m:
                C.distinct.add((family, dg))
            out.append((None, None, None, dg) if last else (ns, m, h2, dg))
            if last and not C.samples and len(m) > 1:
                C.samples.append({"family": family, "history": [op_src(o) for o in h2], "view": m_to_dict(m)})
    return C, out


def explore(C, family, ops, keys, depth, workers):
    """breadth-first, states merged by stored object graph; every new state gets the full read contract"""
    ns0 = Namespace()
    observe(C, ns0, MB(), (), keys)
    frontier = [(ns0, MB(), ())]
    seen = {digest(raw(ns0))}
    for level in range(1, depth + 1):
        last = level == depth
        _G.update(frontier=frontier, ops=ops, keys=keys, seen=seen)
        n = len(frontier)
        if workers > 1 and n * len(ops) > 4000:
            nchunks = min(n, workers * 4)
            chunks = [(family, list(range(c, n, nchunks)), last) for c in range(nchunks)]
            with multiprocessing.get_context("fork").Pool(workers) as pool:
                results = pool.map(_expand_chunk, chunks, chunksize=1)
        else:
            results = [_expand_chunk((family, list(range(n)), last))]
        nxt = []
        for Cw, out in results:
            C.merge(Cw)
            for ns, m, h2, dg in out:
                if dg not in seen:
                    seen.add(dg)
                    nxt.append((ns, m, h2))
        frontier = nxt
        C.stat(f"{family}: states first reached at length {level}", len(frontier))
        if not frontier:
            break
    return len(seen)


def _names_family(args):
    """every clashing name X (and a dict-only attribute name) in every position of keys of depth <= 3 over {a, X}"""
    X, depth = args
    C = Ctx()
    nm = ["a", X]
    keys = nm + [f"{p}.{q}" for p in nm for q in nm] + [f"a.{X}.a", f"{X}.a.{X}", f"a.a.{X}", f"{X}.{X}.{X}"]
    vals = [1, {X: {"a": 2}, "a": {X: 3}}]
    ops = make_ops(keys, vals, [NS(**{X: NS(a=2), "a": 3})], setattr_keys=nm + [f"a.{X}"])
    total = explore(C, "names:" + X, ops, keys, depth, 1)
    return C, total, len(ops)


# ---------------------------------------------------------------------------------------------- random histories
def random_histories(C, rng, count, maxlen):
    names = ["a", "b", "copy"] + list(CLASH)
    base_values = [0, "s", None, 1.5, [1, 2], [{"x": 1}], (1, 2), (), {}, {"x": 1}, {"b": {"c": 2}, "items": 3}, {"items": {"get": 1}, "a": None}, {1: "i"}]
    ns_values = [NS(), NS(x=1), NS(b=NS(c=2), items=3), NS(items=NS(keys=NS(pop=1))), NS(a={"b": 1}, get=[1])]

    def rand_key(m):
        paths = m_all_paths(m, maxdepth=3)
        r = rng.random()
        if paths and r < 0.35:
            p = list(rng.choice(paths))
        elif paths and r < 0.65:
            p = list(rng.choice(paths))[: rng.randint(1, 2)] + [rng.choice(names)]
        else:
            p = [rng.choice(names) for _ in range(rng.randint(1, 3))]
        return ".".join(s for s in p[:3] if not s.startswith(MARK)) or "a"

    def rand_val():
        return rng.choice(ns_values) if rng.random() < 0.25 else rng.choice(base_values)

    for n in range(count):
        ns, m, hist = Namespace(), MB(), ()
        kept = []  # (original after clone, its model)
        length = rng.randint(6, maxlen)
        for _ in range(length):
            kind = rng.choice(["set", "set", "setattr", "del", "pop", "update", "update_unset", "clone", "get", "contains"])
            if kind in ("get", "contains"):
                observe(C, ns, m, hist, [rand_key(m), rand_key(m)])
                continue
            if kind == "clone":
                kept.append((ns, mcopy(m), hist))
                ns = ns.clone()
                hist = hist + (("clone",),)
                continue
            k = rand_key(m)
            if kind in ("set", "setattr"):
                op = (kind, k, rand_val())
            elif kind == "del":
                op = ("del", k)
            elif kind == "pop":
                op = ("pop", k, rng.choice([None, SENT]))
            else:
                op = (kind, rand_val(), k if rng.random() < 0.8 else None)
                if op[2] is None and not isinstance(op[1], NS) and rng.random() < 0.9:
                    op = (kind, op[1], k)
            m = step(C, ns, m, op, hist)
            hist = hist + (op,)
            C.stat("random transitions")
        observe(C, ns, m, hist, [rand_key(m)])
        for ons, om, oh in kept:
            pv = pubview(ons)
            if pv is not None and norm(pv, True) == norm(om, True):
                C.evals += 1
            else:
                C.bad(f"c11:clone-independent:state[{state_class(om)}]", "operations on a clone changed the original", {"repro": repro(hist), "original_at_clone": m_to_dict(om)})
        if m:
            C.distinct.add(("random", digest((hist_sig(hist)))))


def _random_chunk(args):
    import random
    seed, count, maxlen, known = args
    C = Ctx()
    C.known = known
    C.track = True
    random_histories(C, random.Random(seed), count, maxlen)
    C.track = False
    minimise(C)
    return C


def replay(hist, op, keys):
    """keys of the violations shown by the final action (mutator `op`, or the read contracts) after history `hist`"""
    S = Ctx()
    ns, m = Namespace(), MB()
    for o in hist:
        if o[0] == "clone":
            ns = ns.clone()
        else:
            m = step(S, ns, m, o, ())
    S.viol.clear()
    if op is not None:
        step(S, ns, m, op, hist)
    else:
        observe(S, ns, m, hist, list(keys))
    return S.viol


def minimise(C):
    """greedy one-at-a-time shortening of the random histories kept as cases (same violation key must still be shown)"""
    for key, (hist, op, keys) in sorted(C.origin.items()):
        hist = tuple(hist)
        changed = True
        while changed:
            changed = False
            for i in reversed(range(len(hist))):
                cand = hist[:i] + hist[i + 1:]
                if key in replay(cand, op, keys):
                    hist, changed = cand, True
        got = replay(hist, op, keys)
        if key in got:
            C.viol[key] = got[key]


def hist_sig(hist):
    return [op_src(o) for o in hist]


# ---------------------------------------------------------------------------------------------- main
def main():
    h = Harness("b11_namespace", rule="breadth-first over ALL histories of mutators {set, setattr, del, pop, update(value,key), update(namespace[,key]), "
                "update(only_unset)} over a key/value alphabet, identical stored states merged; after EVERY newly reached state the full read "
                "contract (get/[]/in/step-by-step on every addressable path and every absent alphabet key, items/keys/values, as_dict, clone, ==, "
                "dict conversions) is evaluated against the nested-dict reference; distinct non-trivial = distinct non-empty stored states per "
                "alphabet family (+ distinct random histories)")
    C = Ctx()
    workers = 16 if h.thorough else 12

    D1 = {"b": {"c": 2}, "items": 3}
    N1 = NS(b=NS(c=2), items=3)
    # family "deep": few keys with every prefix/clash interaction, long histories
    deep_keys = ["a", "a.b", "a.items", "a.b.c", "items", "items.b"]
    deep_ops = make_ops(deep_keys, [1, D1], [N1], setattr_keys=["a", "items"])
    # family "mid": more keys (depth 3 with clashes at every level), more value kinds
    mid_keys = ["a", "b", "a.b", "a.items", "a.b.c", "a.b.items", "a.items.get", "items", "items.keys", "items.keys.pop", "items.b"]
    mid_vals = [1, None, [1, {"x": 2}], [{"x": 1}], (1, 2), {}, D1, {"items": {"get": 1}}]
    mid_ops = make_ops(mid_keys, mid_vals, [N1, NS()], setattr_keys=mid_keys, steps_keys=["a.b", "a.items", "a.b.c", "items.keys.pop"])
    # family "names": every clashing name (and a dict-only attribute name) in every position of depth <= 3 keys with 'a'
    bound = []
    d_deep, d_mid, d_names = (6, 2, 3) if h.thorough else (4, 2, 2)
    total = explore(C, "deep", deep_ops, deep_keys, d_deep, workers)
    bound.append(f"deep: all histories of length <= {d_deep} over {len(deep_ops)} mutator instances (keys {deep_keys}; values 1, {D1}, Namespace(b=Namespace(c=2), items=3)) = {total} distinct states")
    total = explore(C, "mid", mid_ops, mid_keys, d_mid, workers)
    bound.append(f"mid: length <= {d_mid} over {len(mid_ops)} mutator instances (keys {mid_keys}; 8 plain values incl. None, mixed list, list of dicts, tuple, empty and clash-keyed dict; 2 namespace values; step-by-step set) = {total} states")
    if h.thorough:
        mid3_vals = [1, None, {}, D1, {"items": {"get": 1}}]
        mid3_ops = make_ops(mid_keys, mid3_vals, [N1, NS()], setattr_keys=mid_keys, steps_keys=["a.b", "a.items", "a.b.c", "items.keys.pop"])
        total = explore(C, "mid3", mid3_ops, mid_keys, 3, workers)
        bound.append(f"mid3: length <= 3 over {len(mid3_ops)} mutator instances (same keys as mid; values 1, None, {{}}, the two dicts, the two namespaces) = {total} states")
    names = list(CLASH) + ["copy"]
    with multiprocessing.get_context("fork").Pool(min(workers, len(names))) as pool:
        for Cw, total, nops in pool.map(_names_family, [(X, d_names) for X in names], chunksize=1):
            C.merge(Cw)
    bound.append(f"names: for each X in {names}: length <= {d_names} over keys of depth 1-3 from {{a, X}} ({nops} mutator instances each; dict and namespace values keyed by a and X)")
    n_rand, maxlen = (3000, 40) if h.thorough else (150, 40)
    chunk = 25
    seeds = [h.rng.getrandbits(48) for _ in range(0, n_rand, chunk)]
    known = frozenset(C.viol)
    with multiprocessing.get_context("fork").Pool(workers) as pool:
        for Cw in pool.map(_random_chunk, [(sd, min(chunk, n_rand - i * chunk), maxlen, known) for i, sd in enumerate(seeds)], chunksize=1):
            C.merge(Cw)
    bound.append(f"random: {n_rand} seeded histories of length 6..{maxlen} over all 11 names, depth 1-3, 18 values, incl. clone/get/contains")

    h.evaluations += C.evals
    for key in sorted(C.viol):
        what, case = C.viol[key]
        h.violation(key, what, case)
    h.distinct |= C.distinct
    for k in sorted(C.stats):
        h.note(f"{k}: {C.stats[k]}")
    for smp in C.samples[:3]:
        h.sample(smp)
    for _, (what, case) in list(sorted(C.viol.items()))[:2]:
        h.sample(case)
    sys.exit(h.finish(exhaustive=True, bound="; ".join(bound)))


if __name__ == "__main__":
    main()
