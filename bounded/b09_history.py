"""C09 bounded stand-in: a parser's answers do not depend on what it was asked before.

Contract (relational, from the statement): for every history  s1 .. sk  of public calls (successful, failing, help-printing,
config-printing; on the parser itself or on other parsers of the same process) and every call  c:
      outcome(c on the parser after s1 .. sk)  ==  outcome(c on a freshly built identical parser)
  outcome = normalised result | exception class + message | exit status + stdout + stderr.

How it is evaluated
  * three parser kinds, built by plain functions so that "a freshly built identical parser" is just another call:
      A  sub-commands (fit/test) with --cfg at both levels, a subclass argument with a lazy_instance default, a positional
      B  class group + subclass argument + Callable[[int], Class] argument + Optional[subclass], a parse-time link and an
         instantiation-time link, --cfg            (B2 = a second parser built by the same function, "another parser")
      C  exit_on_error=True, default_env=True, default_config_files, list append, dict, Path_fr, dataclass group, choices
      D  inner parser (ActionParser) holding a subclass argument, List[dataclass], Dict[str, subclass], Literal, --cfg
  * a step is (parser kind, operation); the operations of each kind are listed in `make_ops` (parse_args / parse_object /
    parse_string / parse_env / get_defaults / dump / validate / instantiate_classes / format_help, --help, --<arg>.help,
    --print_config with and without flags, and failing variants of each).
  * histories run in forked child processes of a parent that never calls jsonargparse, each history on parsers built for it; a
    child runs one history after the other (the earlier ones are then "calls made earlier on other parsers in the same process")
    and is replaced by a new child after the first history in which an outcome differed.  The oracle outcome of a step is the
    outcome of that step alone, in its own child, on a fresh parser, so the oracle is never polluted.
  * on a mismatch the process history is reduced (chunks of steps dropped, each candidate replayed in a fresh child) to a minimal
    history that still changes the outcome of the call; the violation key names that minimal history (X' = another parser built
    by the same function as the called one):
         c09:<minimal history, steps joined by '>'>=><call>:<fresh outcome kind>-><outcome kind after the history>

quick:    histories of length 1 within a kind (every step -> ~15 representative calls, 8 suspicious steps -> every call), B2 -> B,
          suspicious steps of every kind -> representative calls of every other kind, histories of length 2 of suspicious steps
          within a kind, plus fixed long histories (length 12) within and across kinds
thorough: all histories of length 1 (within a kind, across kinds, across instances) -> every call, length 2 and 3 of suspicious
          steps -> every call, and fixed + seeded random (h.rng) histories of length 12
"""
import contextlib
import dataclasses
import enum
import io
import multiprocessing
import os
import pickle
import re
import sys
import tempfile
from typing import Callable, Dict, List, Literal, Optional

from bounded.common import Harness

M = __name__
TMP = ""  # set by main() before any fork


# --------------------------------------------------------------------------------------------------------------------
# test classes
# --------------------------------------------------------------------------------------------------------------------
class Base:
    def __init__(self, width: int = 1, name: str = "b"):
        self.width, self.name = width, name


class Sub(Base):
    def __init__(self, width: int = 2, name: str = "s", depth: int = 3):
        super().__init__(width, name)
        self.depth = depth


class Other(Base):
    def __init__(self, width: int = 5, flag: bool = False):
        super().__init__(width)
        self.flag = flag


class Wrap(Base):
    def __init__(self, inner: Optional[Base] = None, width: int = 1):
        super().__init__(width)
        self.inner = inner


class Data:
    def __init__(self, size: int = 4, tags: List[str] = []):
        self.size, self.tags, self.num_classes = size, tags, size * 2


class Head:
    def __init__(self, inp: int, scale: float = 1.0):
        self.inp, self.scale = inp, scale


class Opt:
    def __init__(self, params: int, lr: float = 0.1):
        self.params, self.lr = params, lr


@dataclasses.dataclass
class Point:
    x: int = 0
    y: float = 0.5


TEST_CLASSES = (Base, Data, Head, Opt, Point)


# --------------------------------------------------------------------------------------------------------------------
# parsers (jsonargparse is imported inside the functions: the parent process never touches it)
# --------------------------------------------------------------------------------------------------------------------
def build_A():
    from jsonargparse import ActionConfigFile, ArgumentParser, lazy_instance

    p = ArgumentParser(exit_on_error=False, prog="app", env_prefix="APP", default_env=False)
    p.add_argument("--cfg", action=ActionConfigFile)
    p.add_argument("--verbose", type=bool, default=False)
    fit = ArgumentParser(exit_on_error=False)
    fit.add_argument("--cfg", action=ActionConfigFile)
    fit.add_argument("--lr", type=float, default=0.1)
    fit.add_argument("--model", type=Base, default=lazy_instance(Sub, width=3))
    fit.add_argument("--tags", type=List[str], default=[])
    test = ArgumentParser(exit_on_error=False)
    test.add_argument("--ckpt", type=Optional[str])
    test.add_argument("n", type=int, nargs="?")
    sc = p.add_subcommands(required=True)
    sc.add_subcommand("fit", fit)
    sc.add_subcommand("test", test)
    return p


def build_B():
    from jsonargparse import ActionConfigFile, ArgumentParser, lazy_instance

    p = ArgumentParser(exit_on_error=False, prog="app", env_prefix="APP", default_env=False)
    p.add_argument("--cfg", action=ActionConfigFile)
    p.add_class_arguments(Data, "data")
    p.add_subclass_arguments(Base, "model", default=lazy_instance(Sub))
    p.add_class_arguments(Head, "head")
    p.add_argument("--opt", type=Callable[[int], Opt], default={"class_path": f"{M}.Opt", "init_args": {"lr": 0.2}})
    p.add_argument("--extra", type=Optional[Base])
    p.link_arguments("data.size", "model.init_args.width")
    p.link_arguments("data.num_classes", "head.inp", apply_on="instantiate")
    return p


def build_C():
    from jsonargparse import ActionConfigFile, ActionYesNo, ArgumentParser
    from jsonargparse.typing import Path_fr

    p = ArgumentParser(exit_on_error=True, prog="app", env_prefix="CAPP", default_env=True, default_config_files=[f"{TMP}/c_default.yaml"], version="1.0")
    p.add_argument("--cfg", action=ActionConfigFile)
    p.add_argument("--n", type=int, default=1)
    p.add_argument("--items", type=List[int], default=[])
    p.add_argument("--p", type=Optional[Path_fr])
    p.add_argument("--d", type=Dict[str, int], default={})
    p.add_argument("--pt", type=Point, default=Point(x=1))
    p.add_argument("--mode", choices=["fast", "slow"], default="fast")
    p.add_argument("--flag", action=ActionYesNo, default=False)
    return p


def build_D():
    from jsonargparse import ActionConfigFile, ActionParser, ArgumentParser

    inner = ArgumentParser(exit_on_error=False)
    inner.add_argument("--x", type=int, default=1)
    inner.add_argument("--model", type=Base, default={"class_path": f"{M}.Sub"})
    p = ArgumentParser(exit_on_error=False, prog="app", env_prefix="DAPP", default_env=False)
    p.add_argument("--cfg", action=ActionConfigFile)
    p.add_argument("--inner", action=ActionParser(parser=inner))
    p.add_argument("--pts", type=List[Point], default=[])
    p.add_argument("--zoo", type=Dict[str, Base], default={})
    p.add_argument("--lit", type=Literal["a", "b"], default="a")
    p.add_argument("--opt_pt", type=Optional[Point])
    return p


BUILDERS = {"A": build_A, "B": build_B, "C": build_C, "D": build_D}
PARSER_DESC = {
    "A": "ArgumentParser(exit_on_error=False, prog='app', env_prefix='APP'): --cfg ActionConfigFile, --verbose: bool=False, required subcommands fit(--cfg, --lr: float=0.1, "
         "--model: Base=lazy_instance(Sub, width=3), --tags: List[str]=[]) and test(--ckpt: Optional[str], positional n: int nargs='?')",
    "B": "ArgumentParser(exit_on_error=False, prog='app', env_prefix='APP'): --cfg, add_class_arguments(Data, 'data'), add_subclass_arguments(Base, 'model', "
         "default=lazy_instance(Sub)), add_class_arguments(Head, 'head'), --opt: Callable[[int], Opt]={class_path: Opt, init_args: {lr: 0.2}}, --extra: Optional[Base], "
         "link_arguments('data.size', 'model.init_args.width'), link_arguments('data.num_classes', 'head.inp', apply_on='instantiate')",
    "C": "ArgumentParser(exit_on_error=True, prog='app', env_prefix='CAPP', default_env=True, default_config_files=[<tmp>/c_default.yaml 'n: 10, mode: slow'], version='1.0'): "
         "--cfg, --n: int=1, --items: List[int]=[], --p: Optional[Path_fr], --d: Dict[str,int]={}, --pt: Point=Point(x=1), --mode choices fast|slow, --flag ActionYesNo",
    "D": "ArgumentParser(exit_on_error=False, prog='app', env_prefix='DAPP'): --cfg, --inner ActionParser(inner: --x: int=1, --model: Base={class_path: Sub}), "
         "--pts: List[Point]=[], --zoo: Dict[str, Base]={}, --lit: Literal['a','b']='a', --opt_pt: Optional[Point]",
}


def kind_of_label(label):
    """instance label -> parser kind: 'B2#17' -> 'B'"""
    return label.split("#")[0].rstrip("0123456789")


def ns(d):
    from jsonargparse import dict_to_namespace

    return dict_to_namespace(d)


def make_ops():
    """kind -> {operation name: (description for the evidence, callable(parser))}.  Everything an operation needs is built
    inside the call, so that the same operation on two parsers is literally the same call."""
    A, B, C, D = {}, {}, {}, {}

    def args(d, name, argv, env=None):
        def call(p):
            real = [a.replace("<tmp>", TMP) for a in argv]
            if not env:
                return p.parse_args(real)
            old = {k: os.environ.get(k) for k in env}
            os.environ.update({k: v.replace("<tmp>", TMP) for k, v in env.items()})
            try:
                return p.parse_args(real)
            finally:
                for k, v in old.items():
                    if v is None:
                        os.environ.pop(k, None)
                    else:
                        os.environ[k] = v

        d[name] = (f"parse_args({argv})" + (f" with os.environ += {env}" if env else ""), call)

    def meth(d, name, method, mk_args, desc, **kw):
        d[name] = (f"{method}({desc})", lambda p: getattr(p, method)(*mk_args(), **kw))

    # ---------------- A: sub-commands
    args(A, "fit", ["fit", "--lr=0.5", "--tags+=x"])
    args(A, "test", ["--verbose=true", "test", "7", "--ckpt=c"])
    args(A, "fit_model", ["fit", f"--model={M}.Other", "--model.flag=true"])
    args(A, "no_subcommand!", [])
    args(A, "bad_value!", ["fit", "--lr=x"])
    args(A, "unknown!", ["fit", "--nope=1"])
    args(A, "bad_model!", ["fit", "--model=nonexistent.Klass"])
    args(A, "help", ["--help"])
    args(A, "fit_help", ["fit", "--help"])
    args(A, "model_help", ["fit", "--model.help", f"{M}.Other"])
    args(A, "pc_fit", ["fit", "--print_config"])
    args(A, "pc_root", ["--print_config", "fit", "--lr=0.9"])
    args(A, "pc_then_unknown!", ["--print_config", "fit", "--nope=1"])
    args(A, "pc_sub_then_bad_value!", ["fit", "--print_config", "--lr=x"])
    args(A, "pc_bad_flag!", ["--print_config=bogus", "fit"])
    args(A, "cfg", ["--cfg", "<tmp>/a_ok.yaml"])
    args(A, "cfg_bad!", ["--cfg", "<tmp>/a_bad.yaml"])
    args(A, "sub_cfg", ["fit", "--cfg", "<tmp>/a_fit.yaml", "--lr=0.4"])
    meth(A, "obj", "parse_object", lambda: [{"subcommand": "fit", "fit": {"lr": 0.7}}], "{'subcommand': 'fit', 'fit': {'lr': 0.7}}")
    meth(A, "obj_bad!", "parse_object", lambda: [{"subcommand": "fit", "fit": {"lr": "x"}}], "{'subcommand': 'fit', 'fit': {'lr': 'x'}}")
    meth(A, "str", "parse_string", lambda: ["test:\n  ckpt: k\n"], "'test: {ckpt: k}'")
    meth(A, "str_bad!", "parse_string", lambda: ["fit:\n  lr: x\n"], "'fit: {lr: x}'")
    meth(A, "str_syntax!", "parse_string", lambda: ["fit: ["], "'fit: ['")
    meth(A, "env", "parse_env", lambda: [{"APP_SUBCOMMAND": "fit", "APP_FIT__LR": "0.9"}], "{'APP_SUBCOMMAND': 'fit', 'APP_FIT__LR': '0.9'}")
    meth(A, "env_bad!", "parse_env", lambda: [{"APP_SUBCOMMAND": "fit", "APP_FIT__LR": "x"}], "{'APP_SUBCOMMAND': 'fit', 'APP_FIT__LR': 'x'}")
    meth(A, "defaults", "get_defaults", lambda: [], "")
    a_cfg = {"verbose": True, "subcommand": "fit", "fit": {"lr": 0.2, "tags": ["t"], "model": {"class_path": f"{M}.Other", "init_args": {"width": 7, "flag": True}}}}
    a_bad = {"verbose": False, "subcommand": "fit", "fit": {"lr": "x", "tags": [], "model": {"class_path": f"{M}.Sub"}}}
    for name, method in (("dump", "dump"), ("validate", "validate"), ("instantiate", "instantiate_classes")):
        meth(A, name, method, lambda: [ns(a_cfg)], str(a_cfg))
    meth(A, "dump_bad!", "dump", lambda: [ns(a_bad)], str(a_bad))
    meth(A, "validate_bad!", "validate", lambda: [ns(a_bad)], str(a_bad))
    a_inst_bad = {"subcommand": "fit", "fit": {"model": {"class_path": f"{M}.Other", "init_args": {"nonexistent": 1}}}}
    meth(A, "instantiate_bad!", "instantiate_classes", lambda: [ns(a_inst_bad)], str(a_inst_bad))
    meth(A, "format_help", "format_help", lambda: [], "")

    # ---------------- B: class group, subclass arguments, links
    args(B, "ok", ["--data.size=6", "--head.scale=2"])
    args(B, "model_other", [f"--model={M}.Other", "--model.flag=true", "--data.tags+=a"])
    args(B, "extra", ["--extra=Sub", "--extra.depth=9", "--opt.lr=0.5"])
    args(B, "bad_value!", ["--data.size=x"])
    args(B, "unknown!", ["--nope=1"])
    args(B, "link_target_given", ["--model.init_args.width=3"])
    args(B, "bad_class!", [f"--model={M}.Data"])
    args(B, "help", ["--help"])
    args(B, "model_help", ["--model.help", f"{M}.Other"])
    args(B, "opt_help", ["--opt.help", f"{M}.Opt"])
    args(B, "extra_help", ["--extra.help", f"{M}.Sub"])
    args(B, "help_bad_class!", ["--extra.help", f"{M}.Data"])
    args(B, "nested_help", ["--extra.help", f"{M}.Wrap", "--extra.inner.help", f"{M}.Sub"])
    args(B, "wrap_help", ["--extra.help", f"{M}.Wrap"])
    args(B, "pc", ["--data.size=8", "--print_config"])
    args(B, "pc_flags", ["--print_config=comments,skip_null"])
    args(B, "pc_skip_default", ["--print_config=skip_default", "--head.scale=3"])
    args(B, "pc_then_unknown!", ["--print_config", "--nope=1"])
    args(B, "pc_then_bad_value!", ["--print_config", "--data.size=x"])
    args(B, "cfg", ["--cfg", "<tmp>/b_ok.yaml", "--head.scale=4"])
    args(B, "cfg_bad!", ["--cfg", "<tmp>/b_bad.yaml"])
    meth(B, "obj", "parse_object", lambda: [{"data": {"size": 5}, "extra": {"class_path": f"{M}.Sub"}}], "{'data': {'size': 5}, 'extra': {'class_path': Sub}}")
    meth(B, "obj_bad!", "parse_object", lambda: [{"data": {"size": 5}, "extra": {"class_path": f"{M}.Data"}}], "{'data': {'size': 5}, 'extra': {'class_path': Data}}")
    meth(B, "str", "parse_string", lambda: [f"model:\n  class_path: {M}.Other\nhead:\n  scale: 0.5\n"], "'model: {class_path: Other}, head: {scale: 0.5}'")
    meth(B, "str_bad!", "parse_string", lambda: ["head:\n  scale: [1]\n"], "'head: {scale: [1]}'")
    meth(B, "env", "parse_env", lambda: [{"APP_DATA__SIZE": "9", "APP_EXTRA": f"{M}.Other"}], "{'APP_DATA__SIZE': '9', 'APP_EXTRA': Other}")
    meth(B, "env_bad!", "parse_env", lambda: [{"APP_DATA__SIZE": "x"}], "{'APP_DATA__SIZE': 'x'}")
    meth(B, "defaults", "get_defaults", lambda: [], "")
    b_cfg = {"data": {"size": 3, "tags": ["a"]}, "model": {"class_path": f"{M}.Other", "init_args": {"flag": True}}, "head": {"scale": 2.0},
             "opt": {"class_path": f"{M}.Opt", "init_args": {"lr": 0.3}}, "extra": {"class_path": f"{M}.Sub", "init_args": {"depth": 1}}}
    b_bad = {"data": {"size": "x", "tags": []}, "model": {"class_path": f"{M}.Sub"}, "head": {"scale": 1.0}, "opt": {"class_path": f"{M}.Opt"}, "extra": None}
    for name, method in (("dump", "dump"), ("validate", "validate"), ("instantiate", "instantiate_classes")):
        meth(B, name, method, lambda: [ns(b_cfg)], str(b_cfg))
    meth(B, "dump_skip_default", "dump", lambda: [ns(b_cfg)], str(b_cfg) + ", skip_default=True, format='json'", skip_default=True, format="json")
    meth(B, "dump_bad!", "dump", lambda: [ns(b_bad)], str(b_bad))
    meth(B, "validate_bad!", "validate", lambda: [ns(b_bad)], str(b_bad))
    b_inst_bad = {"data": {"size": 3, "tags": []}, "model": {"class_path": f"{M}.Other", "init_args": {"nonexistent": 1}}, "head": {"scale": 1.0}, "extra": None}
    meth(B, "instantiate_bad!", "instantiate_classes", lambda: [ns(b_inst_bad)], str(b_inst_bad))
    meth(B, "format_help", "format_help", lambda: [], "")

    # ---------------- C: exit_on_error, environment, default config file
    args(C, "ok", ["--n=2", "--d.a=1", "--pt.x=4", "--mode=slow", "--flag"])
    args(C, "append", ["--items+=1", "--items+=2", "--d={\"k\": 3}"])
    args(C, "path", ["--p", "<tmp>/data.txt"])
    args(C, "path_missing!", ["--p", "<tmp>/nothere.txt"])
    args(C, "bad_value!", ["--n=x"])
    args(C, "bad_choice!", ["--mode=medium"])
    args(C, "unknown!", ["--nope=1"])
    args(C, "help", ["--help"])
    args(C, "version", ["--version"])
    args(C, "pc", ["--n=5", "--print_config"])
    args(C, "pc_skip_default", ["--print_config=skip_default", "--n=5"])
    args(C, "pc_then_unknown!", ["--print_config", "--nope=1"])
    args(C, "pc_then_bad_value!", ["--print_config", "--n=x"])
    args(C, "pc_bad_flag!", ["--print_config=bogus"])
    args(C, "cfg", ["--cfg", "<tmp>/c_ok.yaml", "--n=6"])
    args(C, "cfg_bad!", ["--cfg", "<tmp>/c_bad.yaml"])
    args(C, "cfg_missing!", ["--cfg", "<tmp>/nothere.yaml"])
    args(C, "environ", [], env={"CAPP_N": "11", "CAPP_ITEMS": "[4, 5]"})
    args(C, "environ_bad!", [], env={"CAPP_N": "x"})
    args(C, "environ_cfg", ["--n=3"], env={"CAPP_CFG": "<tmp>/c_ok.yaml"})
    meth(C, "obj", "parse_object", lambda: [{"n": 3, "pt": {"y": 2}}], "{'n': 3, 'pt': {'y': 2}}")
    meth(C, "obj_bad!", "parse_object", lambda: [{"n": 3, "pt": {"z": 2}}], "{'n': 3, 'pt': {'z': 2}}")
    meth(C, "str", "parse_string", lambda: ["items: [7]\nmode: slow\n"], "'items: [7], mode: slow'")
    meth(C, "str_bad!", "parse_string", lambda: ["items: [x]\n"], "'items: [x]'")
    meth(C, "env", "parse_env", lambda: [{"CAPP_N": "4", "CAPP_FLAG": "true"}], "{'CAPP_N': '4', 'CAPP_FLAG': 'true'}")
    meth(C, "env_bad!", "parse_env", lambda: [{"CAPP_MODE": "medium"}], "{'CAPP_MODE': 'medium'}")
    meth(C, "defaults", "get_defaults", lambda: [], "")
    c_cfg = {"n": 2, "items": [1], "p": None, "d": {"a": 1}, "pt": {"x": 1, "y": 0.5}, "mode": "slow", "flag": True}
    c_bad = {"n": "x", "items": [1], "p": None, "d": {"a": 1}, "pt": {"x": 1, "y": 0.5}, "mode": "slow", "flag": True}

    def c_ns(d):  # `d` is a Dict[str, int] value: it stays a dict
        n = ns({k: v for k, v in d.items() if k != "d"})
        n["d"] = dict(d["d"])
        return n

    for name, method in (("dump", "dump"), ("validate", "validate"), ("instantiate", "instantiate_classes")):
        meth(C, name, method, lambda: [c_ns(c_cfg)], str(c_cfg))
    meth(C, "dump_bad!", "dump", lambda: [c_ns(c_bad)], str(c_bad))
    meth(C, "validate_bad!", "validate", lambda: [c_ns(c_bad)], str(c_bad))
    meth(C, "format_help", "format_help", lambda: [], "")
    # ---------------- D: inner parser (ActionParser), list of dataclasses, dict of subclasses
    args(D, "ok", ["--inner.x=3", "--pts+={\"x\": 2}", "--lit=b"])
    args(D, "zoo", ["--zoo={\"k\": {\"class_path\": \"" + M + ".Other\", \"init_args\": {\"flag\": true}}}", "--inner.model.depth=5"])
    args(D, "optpt_a", ["--opt_pt={\"x\": 5}", "--opt_pt.y=2.5"])
    args(D, "optpt_b", ["--opt_pt={\"x\": 7, \"y\": 1.0}", "--opt_pt.x=8"])
    args(D, "inner_cfg", ["--inner", "<tmp>/d_inner.yaml", "--pts=[{\"y\": 1.5}, {}]"])
    args(D, "inner_cfg_bad!", ["--inner", "<tmp>/d_inner_bad.yaml"])
    args(D, "bad_value!", ["--inner.x=q"])
    args(D, "bad_item!", ["--pts=[{\"x\": 1}, {\"x\": \"q\"}]"])
    args(D, "unknown!", ["--inner.nope=1"])
    args(D, "help", ["--help"])
    args(D, "inner_model_help!", ["--inner.model.help", f"{M}.Other"])
    args(D, "pc", ["--inner.x=8", "--print_config"])
    args(D, "pc_then_unknown!", ["--print_config", "--inner.nope=1"])
    args(D, "pc_then_bad_value!", ["--print_config=skip_null", "--inner.x=q"])
    args(D, "cfg", ["--cfg", "<tmp>/d_ok.yaml"])
    args(D, "cfg_bad!", ["--cfg", "<tmp>/d_bad.yaml"])
    meth(D, "obj", "parse_object", lambda: [{"inner": {"x": 4}, "pts": [{"x": 1}], "zoo": {"a": {"class_path": f"{M}.Sub"}}}], "{'inner': {'x': 4}, 'pts': [{'x': 1}], 'zoo': {'a': {'class_path': Sub}}}")
    meth(D, "obj_bad!", "parse_object", lambda: [{"inner": {"x": 4}, "zoo": {"a": {"class_path": f"{M}.Data"}}}], "{'inner': {'x': 4}, 'zoo': {'a': {'class_path': Data}}}")
    meth(D, "str", "parse_string", lambda: ["inner:\n  x: 6\nlit: b\n"], "'inner: {x: 6}, lit: b'")
    meth(D, "str_bad!", "parse_string", lambda: ["lit: c\n"], "'lit: c'")
    meth(D, "env", "parse_env", lambda: [{"DAPP_INNER__X": "7", "DAPP_LIT": "b"}], "{'DAPP_INNER__X': '7', 'DAPP_LIT': 'b'}")
    meth(D, "env_bad!", "parse_env", lambda: [{"DAPP_INNER__X": "q"}], "{'DAPP_INNER__X': 'q'}")
    meth(D, "defaults", "get_defaults", lambda: [], "")
    d_cfg = {"inner": {"x": 2, "model": {"class_path": f"{M}.Other", "init_args": {"width": 3, "flag": False}}}, "pts": [{"x": 1, "y": 0.5}], "lit": "b", "opt_pt": None}
    d_bad = {"inner": {"x": "q", "model": {"class_path": f"{M}.Sub"}}, "pts": [], "lit": "a", "opt_pt": None}

    def d_ns(d):  # `zoo` is a Dict[str, Base] value: it stays a dict (of namespaces)
        n = ns(d)
        n["zoo"] = {"k": ns({"class_path": f"{M}.Sub", "init_args": {"width": 2, "name": "s", "depth": 4}})}
        return n

    for name, method in (("dump", "dump"), ("validate", "validate"), ("instantiate", "instantiate_classes")):
        meth(D, name, method, lambda: [d_ns(d_cfg)], str(d_cfg) + " + zoo={'k': Sub spec}")
    meth(D, "dump_bad!", "dump", lambda: [d_ns(d_bad)], str(d_bad))
    meth(D, "validate_bad!", "validate", lambda: [d_ns(d_bad)], str(d_bad))
    return {"A": A, "B": B, "C": C, "D": D}


# steps that are most likely to leave something behind (failing, exiting, printing) plus one successful parse per kind:
# these make the longer exhaustive histories
SUSPICIOUS = {  # the first 5 of each list are used for the quick tier's longer exhaustive histories
    "A": ["pc_then_unknown!", "pc_sub_then_bad_value!", "model_help", "fit", "bad_value!", "unknown!", "pc_fit", "pc_bad_flag!", "cfg_bad!", "instantiate", "dump_bad!"],
    "B": ["pc_then_bad_value!", "opt_help", "ok", "unknown!", "instantiate", "pc_then_unknown!", "bad_value!", "model_help", "pc", "cfg_bad!", "link_target_given"],
    "C": ["pc_then_unknown!", "ok", "bad_value!", "environ_bad!", "pc_bad_flag!", "unknown!", "help", "pc", "pc_then_bad_value!", "cfg_bad!", "path_missing!"],
    "D": ["pc_then_bad_value!", "inner_model_help!", "ok", "bad_item!", "inner_cfg_bad!", "unknown!", "pc", "pc_then_unknown!", "cfg_bad!", "instantiate", "zoo"],
}
# the calls used as the final call of the longer exhaustive histories in the quick tier: one per method and outcome kind
PROBES = {
    "A": ["fit", "test", "bad_value!", "model_help", "pc_fit", "cfg", "obj", "obj_bad!", "str", "env", "defaults", "dump", "validate", "validate_bad!"],
    "B": ["ok", "extra", "bad_value!", "extra_help", "nested_help", "pc", "cfg", "obj", "obj_bad!", "str", "env", "defaults", "dump", "dump_skip_default", "validate"],
    "C": ["ok", "append", "bad_value!", "help", "pc", "cfg", "environ", "obj", "obj_bad!", "str", "env", "defaults", "dump", "validate"],
    "D": ["ok", "zoo", "optpt_a", "bad_value!", "inner_model_help!", "pc", "inner_cfg", "obj", "obj_bad!", "str", "env", "defaults", "dump", "validate", "validate_bad!"],
}
SUSPICIOUS["B2"] = SUSPICIOUS["B"]
# calls whose outcome the statement does not speak about ("parse, dump, defaults or validation call"): they are history steps, and a
# difference in their own outcome is reported as a note only
NOT_ASSERTED = {"format_help", "instantiate", "instantiate_bad!"}


def write_files():
    files = {
        "a_ok.yaml": "verbose: true\nfit:\n  lr: 0.3\n",
        "a_bad.yaml": "fit:\n  lr: x\n",
        "a_fit.yaml": "lr: 0.6\ntags: [q]\n",
        "b_ok.yaml": f"data:\n  size: 7\nmodel:\n  class_path: {M}.Other\n",
        "b_bad.yaml": "data:\n  size: 7\nnope: 1\n",
        "c_default.yaml": "n: 10\nmode: slow\n",
        "c_ok.yaml": "items: [9]\nd:\n  z: 26\n",
        "c_bad.yaml": "items: [9]\nn: x\n",
        "data.txt": "hello",
        "d_inner.yaml": f"x: 5\nmodel:\n  class_path: {M}.Other\n",
        "d_inner_bad.yaml": "x: 5\nnope: 1\n",
        "d_ok.yaml": "inner:\n  x: 9\npts:\n- x: 3\n",
        "d_bad.yaml": "inner:\n  x: 9\npts:\n- x: q\n",
    }
    for name, text in files.items():
        with open(os.path.join(TMP, name), "w") as f:
            f.write(text)


# --------------------------------------------------------------------------------------------------------------------
# outcome of one call, normalised so that it can be compared across processes
# --------------------------------------------------------------------------------------------------------------------
def clean(text):
    return re.sub(r"0x[0-9a-fA-F]+", "0x..", str(text).replace(TMP, "<tmp>"))


def norm(v, depth=0):
    from jsonargparse import Namespace

    if depth > 10:
        return clean(repr(v))
    if v is None or isinstance(v, (bool, int, float, str)):
        return clean(v) if isinstance(v, str) else v
    if isinstance(v, Namespace):
        return {"<Namespace>": {k: norm(x, depth + 1) for k, x in vars(v).items()}}
    if isinstance(v, dict):
        return {"<dict>": [[norm(k, depth + 1), norm(x, depth + 1)] for k, x in v.items()]}
    if isinstance(v, (list, tuple)):
        return {f"<{type(v).__name__}>": [norm(x, depth + 1) for x in v]}
    if isinstance(v, (set, frozenset)):
        return {"<set>": sorted((norm(x, depth + 1) for x in v), key=repr)}
    if isinstance(v, enum.Enum):
        return f"<enum {v!r}>"
    if isinstance(v, TEST_CLASSES):
        return {f"<instance {type(v).__name__}>": {k: norm(x, depth + 1) for k, x in vars(v).items()}}
    return clean(f"<{type(v).__name__}> {v!r}")


def error_part(stderr):
    """stderr without the usage block: the statement observes "ArgumentError text | exit status + stdout", not the usage text"""
    lines = stderr.splitlines()
    for n, line in enumerate(lines):
        if line.startswith("error:") or ": error:" in line:
            return "\n".join(lines[n:])
    return "" if stderr.lstrip().startswith("usage:") else stderr


def run_call(fn, parser):
    """-> [kind, ..., stdout, error text]   (what is compared)"""
    out, err = io.StringIO(), io.StringIO()
    try:
        with contextlib.redirect_stdout(out), contextlib.redirect_stderr(err):
            value = fn(parser)
        res = ["ok", norm(value)]
    except SystemExit as ex:
        res = ["exit", ex.code]
    except BaseException as ex:  # noqa
        res = ["exc", type(ex).__name__, clean(ex)[:2000]]
    return res + [clean(out.getvalue()), error_part(clean(err.getvalue()))]


def exit_mode_part(h):
    """The same statement for parsers built with exit_on_error=True (the default of the library), where a failing or printing call ends
    with SystemExit that a caller (a test, a REPL, a wrapper) may catch: a sub-command tool whose parsers all exit, one history step, then
    every parse method compared with a fresh parser."""
    from jsonargparse import ActionConfigFile, ArgumentParser

    def build():
        p = ArgumentParser(exit_on_error=True, prog="app", env_prefix="XAPP", default_env=False)
        p.add_argument("--cfg", action=ActionConfigFile)
        p.add_argument("--verbose", type=bool, default=False)
        fit = ArgumentParser(exit_on_error=True)
        fit.add_argument("--lr", type=float, default=0.1)
        fit.add_argument("--tags", type=List[str], default=[])
        sc = p.add_subcommands(required=True)
        sc.add_subcommand("fit", fit)
        return p

    history = {
        "pc_then_unknown_in_the_subcommand!": lambda p: p.parse_args(["--print_config", "fit", "--nope=1"]),
        "pc_then_bad_value_in_the_subcommand!": lambda p: p.parse_args(["--print_config", "fit", "--lr=x"]),
        "pc_then_help": lambda p: p.parse_args(["--print_config", "--help"]),
        "pc_then_subcommand_help": lambda p: p.parse_args(["--print_config", "fit", "--help"]),
        "pc_then_unknown_subcommand!": lambda p: p.parse_args(["--print_config", "nope"]),
        "pc_in_the_subcommand_then_bad_value!": lambda p: p.parse_args(["fit", "--print_config", "--lr=x"]),
        "pc": lambda p: p.parse_args(["--print_config", "fit"]),
        "help": lambda p: p.parse_args(["--help"]),
        "bad_value!": lambda p: p.parse_args(["fit", "--lr=x"]),
        "cfg_bad!": lambda p: p.parse_args(["--cfg", "{fit: {lr: x}}"]),
        "obj_bad!": lambda p: p.parse_object({"fit": {"nope": 1}}),
    }
    probes = {
        "args": lambda p: p.parse_args(["fit", "--lr=0.5"]), "obj": lambda p: p.parse_object({"fit": {"lr": 0.5}}), "str": lambda p: p.parse_string("fit: {lr: 0.5}"),
        "env": lambda p: p.parse_env({"XAPP_FIT__LR": "0.5"}), "defaults": lambda p: p.get_defaults(), "args_bad!": lambda p: p.parse_args(["fit", "--lr=x"]),
        "dump": lambda p: p.dump(ns({"verbose": False, "subcommand": "fit", "fit": {"lr": 0.5, "tags": []}})),
    }
    for hname, step in history.items():
        for pname, probe in probes.items():
            used = build()
            run_call(step, used)
            got, want = run_call(probe, used), run_call(probe, build())
            h.check(got == want, f"c09:exit-mode:{hname}->{pname}:{kind_of_outcome(want)}->{kind_of_outcome(got)}",
                    f"after {hname} (SystemExit caught by the caller) the call {pname} gives {summary(got)}; a fresh parser gives {summary(want)}",
                    {"parser": "exit_on_error=True: --cfg, --verbose, subcommand fit(--lr: float, --tags: List[str])", "history": hname, "call": pname})
            h.nontrivial(("exit-mode", hname, pname))


def kind_of_outcome(o):
    return "ok" if o[0] == "ok" else f"exit{o[1]}" if o[0] == "exit" else f"exc:{o[1]}"


def summary(o):
    if o[0] == "ok":
        return f"a result {str(o[1])[:160]}"
    if o[0] == "exc":
        return f"{o[1]}: {o[2][:160]}"
    return f"exit status {o[1]}, stdout {o[-2][:120]!r}, error text {o[-1][-160:]!r}"


def parser_state(p, depth=0):
    """informational only: a flat picture of the parser's own attributes (used for the notes, never asserted)"""
    import argparse

    pic = {}
    for k, v in vars(p).items():
        if k in ("_logger",):
            continue
        if isinstance(v, (bool, int, float, str, type(None))):
            pic[k] = repr(v)
        elif isinstance(v, (list, dict, set, tuple)):
            pic[k] = f"{type(v).__name__}[{len(v)}]" + (clean(repr(v))[:80] if k in ("args", "print_config") else "")
        else:
            pic[k] = type(v).__name__
    pic["#actions"] = repr([a.dest for a in p._actions])
    if depth < 2:
        for a in p._actions:
            if isinstance(a, argparse._SubParsersAction):
                for name, sp in a.choices.items():
                    for k, v in parser_state(sp, depth + 1).items():
                        pic[f"{name}.{k}"] = v
    return pic


def context_state():
    from contextvars import ContextVar

    pic = {}
    for modname, mod in list(sys.modules.items()):
        if modname.startswith("jsonargparse") and mod is not None:
            for k, v in list(vars(mod).items()):
                if isinstance(v, ContextVar):
                    try:
                        pic[f"{v.name}"] = clean(repr(v.get()))[:80]
                    except LookupError:
                        pic[f"{v.name}"] = "<unset>"
    return pic


# --------------------------------------------------------------------------------------------------------------------
# running histories in child processes
# --------------------------------------------------------------------------------------------------------------------
FRESH: Dict[tuple, list] = {}   # (kind, op) -> outcome on a fresh parser in a fresh process
DESC: Dict[tuple, str] = {}
OPS: dict = {}


def fresh_of(step):
    return FRESH[(kind_of_label(step[0]), step[1])]


def run_steps(steps, parsers=None):
    """steps: [(instance label, op)].  Builds a parser for a label when it is first used.  -> outcomes"""
    parsers = {} if parsers is None else parsers
    outcomes = []
    for label, op in steps:
        kind = kind_of_label(label)
        if label not in parsers:
            parsers[label] = BUILDERS[kind]()
        outcomes.append(run_call(OPS[kind][op][1], parsers[label]))
    return outcomes


def run_fresh(step):
    """the oracle: one call on a fresh parser in a fresh process; also (informational) which state it leaves changed"""
    kind, op = step
    p = BUILDERS[kind]()
    before = (parser_state(p), context_state())
    o = run_call(OPS[kind][op][1], p)
    after = (parser_state(p), context_state())
    state = sorted([f"parser.{k}" for k in set(before[0]) | set(after[0]) if before[0].get(k) != after[0].get(k)]
                   + [f"contextvar {k}" for k in set(before[1]) | set(after[1]) if before[1].get(k) != after[1].get(k)])
    return o, state


def run_batch(batch, start):
    """Child process: run the histories batch[start:], each on its own fresh parsers, all in this one process (so the earlier
    histories are "calls made earlier on other parsers in the same process").  Stops after the first history in which a call's
    outcome differs from the oracle.  -> (next index, number of comparisons, executed process history, mismatches)"""
    process_history, mismatches, checks = [], [], 0
    n = start
    while n < len(batch) and not mismatches:
        steps = [(f"{label}#{n}", op) for label, op in batch[n]]
        parsers = {}
        for step in steps:
            o = run_steps([step], parsers)[0]
            checks += 1
            if o != fresh_of(step):
                mismatches.append((len(process_history), step, o))
            process_history.append(step)
            if len(mismatches) >= 3:
                break
        n += 1
    return n, checks, process_history, mismatches


def in_child(fn, *args):
    """Run fn(*args) in a forked child and return ('done', result) | ('child-error', text)."""
    r, w = os.pipe()
    pid = os.fork()
    if pid == 0:
        code = 0
        try:
            os.close(r)
            try:
                data = pickle.dumps(("done", fn(*args)))
            except BaseException as ex:  # noqa
                data = pickle.dumps(("child-error", f"{type(ex).__name__}: {ex}"))
            with os.fdopen(w, "wb") as f:
                f.write(data)
        except BaseException:  # noqa
            code = 1
        finally:
            os._exit(code)
    os.close(w)
    with os.fdopen(r, "rb") as f:
        data = f.read()
    os.waitpid(pid, 0)
    if not data:
        return ("child-error", "no data from child")
    return pickle.loads(data)


# --------------------------------------------------------------------------------------------------------------------
# reducing a diverging history to a minimal one
# --------------------------------------------------------------------------------------------------------------------
REPLAYS = [0]


def diverges(history, probe, got=None):
    """Replay history + probe in a fresh process: does the probe's outcome differ from the oracle (and equal `got` if given)?"""
    REPLAYS[0] += 1
    r = in_child(run_steps, list(history) + [probe])
    if r[0] != "done":
        return False
    o = r[1][-1]
    return o != fresh_of(probe) and (got is None or o == got)


def minimise(history, probe, got):
    hist = list(history)
    own = [s for s in hist if s[0] == probe[0]]
    if diverges(own, probe, got):  # the usual case: the parser's own history explains it
        hist = own
    elif not diverges(hist, probe, got):
        got = None  # not reproducible with the identical wrong outcome: accept any divergence
        if not diverges(hist, probe):
            return None
    n = 2
    while len(hist) >= 2:
        size = max(1, len(hist) // n)
        for i in range(0, len(hist), size):
            cand = hist[:i] + hist[i + size:]
            if diverges(cand, probe, got):
                hist, n = cand, max(n - 1, 2)
                break
        else:
            if size == 1:
                break
            n = min(n * 2, len(hist))
    return hist


def relative(history, probe):
    """history as seen from the probe's parser: [(who, op)] with who = kind for the parser itself, kind' / kind'' for other parsers"""
    me, names = probe[0], {}
    out = []
    for label, op in history:
        kind = kind_of_label(label)
        if label == me:
            out.append((kind, op))
        else:
            if label not in names:
                same_kind = sum(1 for l in names if kind_of_label(l) == kind)
                names[label] = kind + "'" * (same_kind + 1) if kind == kind_of_label(me) or same_kind else kind
            out.append((names[label], op))
    return out


def is_subsequence(small, big):
    it = iter(big)
    return all(any(x == y for y in it) for x in small)


METHOD = {}


def minimise_work(item):
    """Pool worker: reduce one diverging (process history, call, wrong outcome) to a minimal history (replays in child processes)."""
    history, step, o = item
    return minimise(list(history), step, o)


def describe(minimal, step, o):
    """-> (relative minimal history, key, what, case) for one classified mismatch"""
    kind, op = kind_of_label(step[0]), step[1]
    fresh = fresh_of(step)
    call = f"{kind}.{op}"
    rel = relative(minimal, step)
    names = ">".join(f"{w}.{o_}" for w, o_ in rel)
    fk, ok = kind_of_outcome(fresh), kind_of_outcome(o)
    # the call is named by its method when the kind of outcome changes (one defect -> one key per method), by its full name otherwise
    target = f"{kind}.{METHOD[(kind, op)]}" if fk != ok else call
    key = f"c09:{names[:100]}=>{target}:{fk}->{ok}"
    what = (f"after the history [{', '.join(f'{w}.{o_}' for w, o_ in rel)}] the call {call} = {DESC[(kind, op)]} gives {summary(o)}; "
            f"on a freshly built identical parser it gives {summary(fresh)}")
    case = {"minimal_history": [f"{w}.{o_} = {DESC[(w.rstrip(chr(39)), o_)]}" for w, o_ in rel], "call": f"{call} = {DESC[(kind, op)]}",
            "parsers": {k: PARSER_DESC[k] for k in sorted({kind} | {w.rstrip("'") for w, _ in rel})}, "note": "X' = another parser built by the same function build_X "
            "in bounded/b09_history.py; config files are written by write_files()", "fresh": fresh,
            "after_history": o}
    return rel, key, what, case


def classify_all(mismatches, pool):
    """Deterministic classification of all mismatches [(process history, call, wrong outcome)] -> [(key, what, case)].
    Shortest histories first; a mismatch whose history contains an already established minimal history for the same call with the
    same wrong outcome is attributed to it without replay; the others are reduced by replaying in fresh processes."""
    known = {}  # (kind, op) -> [(relative minimal history without instance marks, wrong outcome, (key, what, case))]
    out = []
    todo = sorted(range(len(mismatches)), key=lambda i: (len(mismatches[i][0]), i))

    def collapse(rel, kind):
        """own parser -> K, any other parser of the same kind -> K', parsers of another kind -> their kind"""
        return [((w.rstrip("'") + "'") if w.rstrip("'") == kind and w != kind else w.rstrip("'"), o_) for w, o_ in rel]

    tested_own = set()  # (own history, call, wrong outcome) for which a reduction starting from the parser's own history was already run

    def own_signature(i):
        history, step, o = mismatches[i]
        kind = kind_of_label(step[0])
        return (tuple(x for x in collapse(relative(history, step), kind) if x[0] == kind), kind, step[1], repr(o))

    def explained(i):
        history, step, o = mismatches[i]
        kind, op = kind_of_label(step[0]), step[1]
        rel_all = collapse(relative(history, step), kind)
        entries = [e for e in known.get((kind, op), []) if e[1] == o and is_subsequence(e[0], rel_all)]
        for rel_min, wrong, res in entries:  # an explanation by the parser's own history is preferred
            if all(w == kind for w, _ in rel_min):
                return res
        if entries and (not own_signature(i)[0] or own_signature(i) in tested_own):
            return entries[0][2]
        return None  # reduce it (the reduction tries the parser's own history first)

    while todo:
        rest = []
        for i in todo:
            res = explained(i)
            if res is not None:
                out.append((i, res))
            else:
                rest.append(i)
        if not rest:
            break
        shortest = len(mismatches[rest[0]][0])
        now, seen = [], set()
        for i in rest:
            history, step, o = mismatches[i]
            sig = (tuple(relative(history, step)), kind_of_label(step[0]), step[1], repr(o))
            if len(history) == shortest and sig not in seen:
                seen.add(sig)
                now.append(i)
        minimal = pool.map(minimise_work, [mismatches[i] for i in now], chunksize=1)
        for i, m in zip(now, minimal):
            history, step, o = mismatches[i]
            kind, op = kind_of_label(step[0]), step[1]
            tested_own.add(own_signature(i))
            if m is None:
                res = (f"c09:unreproducible:=>{kind}.{op}", "the outcome differed from the fresh parser's once, but not when the same process history was replayed in a new process",
                       {"call": f"{kind}.{op} = {DESC[(kind, op)]}", "process_history": [f"{l}.{o_}" for l, o_ in history][-40:], "fresh": fresh_of(step), "after_history": o})
                known.setdefault((kind, op), []).append((collapse(relative(history, step), kind), o, res))
            else:
                rel, key, what, case = describe(m, step, o)
                res = (key, what, case)
                known.setdefault((kind, op), []).append((collapse(rel, kind), o, res))
        todo = rest
    return [res for _, res in sorted(out, key=lambda x: x[0])]


def work(batch):
    """Pool worker (never calls jsonargparse itself): runs a batch of histories in child processes; returns the raw mismatches."""
    start, checks, nontrivial, mismatches, notes, errors = 0, 0, [], [], [], []
    while start < len(batch):
        r = in_child(run_batch, batch, start)
        if r[0] != "done":
            errors.append((start, r[1]))
            start += 1
            continue
        nxt, n_checks, process_history, found = r[1]
        checks += n_checks
        for pos, step, o in found:
            if step[1] in NOT_ASSERTED:
                notes.append(f"{kind_of_label(step[0])}.{step[1]}")
            else:
                mismatches.append((tuple(process_history[:pos]), step, o))
        start = nxt
    for hist in batch:
        for i in range(1, len(hist)):
            nontrivial.append((hist[:i], hist[i]))
    return {"checks": checks, "nontrivial": nontrivial, "mismatches": mismatches, "notes": notes, "errors": errors}


def fresh_work(step):
    return (step, in_child(run_fresh, step))


# --------------------------------------------------------------------------------------------------------------------
def histories(h):
    """The enumerated histories (tuples of (slot, op); a slot is one parser instance, B2 = a second parser from build_B).
    Every step of a history is compared, so prefixes need no entry of their own."""
    kinds = ["A", "B", "C", "D"]
    out, seen = [], set()

    def add(seq):
        seq = tuple(seq)
        if seq not in seen:
            seen.add(seq)
            out.append(seq)

    steps_of = {k: [(k, o) for o in OPS[kind_of_label(k)]] for k in ("A", "B", "B2", "C", "D")}
    probes = {k: steps_of[k] if h.thorough else [(k, o) for o in PROBES[k]] for k in kinds}
    n_susp = 8 if h.thorough else 3
    susp = {k: [(k, o) for o in SUSPICIOUS[kind_of_label(k)][:n_susp]] for k in ("A", "B", "B2", "C", "D")}
    # 1. history of length 1 within a kind -> call of the kind: thorough all x all; quick all x representative calls + suspicious x all
    all_susp = {k: [(k, o) for o in SUSPICIOUS[k][:11 if h.thorough else 8]] for k in kinds}
    for k in kinds:
        for a in steps_of[k]:
            for c in steps_of[k]:
                if h.thorough or c in probes[k] or a in all_susp[k]:
                    add((a, c))
    # 2. another parser built by the same function: B2 history -> B call
    for a in (steps_of["B2"] if h.thorough else [("B2", o) for o in SUSPICIOUS["B"][:5]]):
        for c in steps_of["B"]:
            add((a, c))
    # 3. another kind of parser: suspicious step (thorough: every step) of kind k1 -> calls of kind k2
    for k1 in kinds:
        for k2 in kinds:
            if k1 != k2:
                for a in (steps_of[k1] if h.thorough else susp[k1]):
                    for c in probes[k2]:
                        add((a, c))
    # 4. histories of length 2 within a kind -> calls of the kind
    for k in kinds:
        for a in susp[k]:
            for b in susp[k]:
                for c in probes[k]:
                    add((a, b, c))
    if h.thorough:
        # 5. length 3 of suspicious steps within a kind; length 2 mixing another parser and the parser itself
        for k in kinds:
            for a in susp[k][:4]:
                for b in susp[k][:4]:
                    for c in susp[k][:4]:
                        for d in steps_of[k]:
                            add((a, b, c, d))
        for k1 in ["A", "B", "C", "D", "B2"]:
            for k2 in kinds:
                if k1 != k2:
                    for a in susp[k1][:4]:
                        for b in susp[k2][:4]:
                            for c in steps_of[k2]:
                                add((a, b, c))
    # 6. long histories (length 12): a fixed arithmetic pattern within a kind and across all parsers
    everything = steps_of["A"] + steps_of["B"] + steps_of["C"] + steps_of["D"] + steps_of["B2"]
    for pool in (steps_of["A"], steps_of["B"], steps_of["C"], steps_of["D"], everything):
        n = len(pool)
        for i in range(8 if not h.thorough else 60):
            add(tuple(pool[(i * 7 + j * j * 3 + j * (i % 5 + 1)) % n] for j in range(12)))
    if h.thorough:
        for pool in (steps_of["A"], steps_of["B"], steps_of["C"], steps_of["D"], everything):
            for _ in range(500):
                add(tuple(h.rng.choice(pool) for _ in range(12)))
    return out


def main():
    global TMP
    h = Harness(
        "b09_history",
        rule="a case = (history of steps, call); step = (parser A/B/B2/C, operation) from the operation tables in make_ops (successful, failing, --help, "
        "--<arg>.help, --print_config variants of parse_args/parse_object/parse_string/parse_env/get_defaults/dump/validate/instantiate_classes/"
        "format_help); histories run on freshly built parsers in child processes; every step's outcome (result | exception class + text | exit status "
        "+ stdout + error text) is compared with the outcome of the same call alone on a fresh parser in a fresh process; non-trivial = distinct "
        "(non-empty history, call) pairs compared",
    )
    env0 = dict(os.environ)
    os.environ["COLUMNS"] = "120"
    os.environ.pop("JSONARGPARSE_DEBUG", None)
    try:
        with tempfile.TemporaryDirectory() as tmp:
            TMP = os.path.realpath(tmp)
            write_files()
            OPS.update(make_ops())
            for kind, table in OPS.items():
                for name, (desc, _) in table.items():
                    DESC[(kind, name)] = desc
                    METHOD[(kind, name)] = desc.split("(")[0]
            all_steps = [(k, o) for k in ("A", "B", "C", "D") for o in OPS[k]]
            workers = min(16, os.cpu_count() or 1)
            ctx = multiprocessing.get_context("fork")
            with ctx.Pool(workers) as pool:
                fresh = pool.map(fresh_work, all_steps, chunksize=4)
            state_notes = []
            for step, r in fresh:
                if r[0] != "done":
                    h.check(False, f"c09:harness:fresh-failed:{step[0]}.{step[1]}", f"could not compute the fresh outcome: {r[1]}", None)
                    continue
                FRESH[step], state = r[1]
                if state:
                    state_notes.append(f"{step[0]}.{step[1]}: " + ", ".join(state))
            # vacuity: the tables contain accepted, rejected and exiting calls, and the names ending in '!' are exactly the failing ones
            for step in all_steps:
                if step in FRESH:
                    failing = FRESH[step][0] == "exc" or (FRESH[step][0] == "exit" and FRESH[step][1] not in (0, None))
                    h.check(failing == step[1].endswith("!"), f"c09:harness:intent:{step[0]}.{step[1]}",
                            f"operation table intent ('!' = failing) does not match the fresh outcome {summary(FRESH[step])}", {"call": DESC[step]})
            seqs = [s for s in histories(h) if all((kind_of_label(l), o) in FRESH for l, o in s)]
            size = 50
            batches = [seqs[i:i + size] for i in range(0, len(seqs), size)]
            not_asserted, mismatches = {}, []
            with ctx.Pool(workers) as pool:
                results = pool.map(work, batches, chunksize=1)
                for res in results:
                    h.evaluations += res["checks"]
                    for sig in res["nontrivial"]:
                        h.nontrivial(sig)
                    mismatches += res["mismatches"]
                    for start, err in res["errors"]:
                        h.check(False, "c09:harness:child-failed", err, None)
                    for n in res["notes"]:
                        not_asserted[n] = not_asserted.get(n, 0) + 1
                for key, what, case in classify_all(mismatches, pool):
                    h.violation(key, what, case)
            h.sample({"calls_whose_outcome_differed": len(mismatches)})
            kinds = {}
            for step, o in FRESH.items():
                kinds[kind_of_outcome(o)] = kinds.get(kind_of_outcome(o), 0) + 1
            h.sample({"fresh_outcome_kinds": kinds, "histories": len(seqs), "longest": max(map(len, seqs))})
            h.sample({"example_history": [f"{l}.{o}" for l, o in seqs[len(seqs) // 2]]})
            if not_asserted:
                h.note("not asserted (calls outside the statement's 'parse, dump, defaults or validation call'): outcome differed from the fresh parser's for "
                       + ", ".join(f"{k} in {v} histories" for k, v in sorted(not_asserted.items()))
                       + " - format_help(): the first parse_args adds the --print_shtab option lazily, so help printed later lists it")
            by_state = {}
            for n in state_notes:
                op, st = n.split(": ", 1)
                by_state.setdefault(st, []).append(op)
            state_notes = [f"[{', '.join(v)}] -> {k}" for k, v in by_state.items()]
            h.note("informational (not asserted; the statement only speaks about outcomes) - calls that leave parser attributes or context variables changed: "
                   + "; ".join(sorted(state_notes))[:4000])
            count = {n: sum(1 for s in seqs if len(s) == n) for n in (2, 3, 4, 12)}
            bound = (f"{len(all_steps)} operations over 4 parser kinds (A {len(OPS['A'])}, B {len(OPS['B'])}, C {len(OPS['C'])}, D {len(OPS['D'])}; B2 = second B parser); {count[2]} histories of "
                     f"length 1 + call, {count[3]} of length 2 + call, {count[4]} of length 3 + call, {count[12]} histories of length 12 (every step compared); "
                     + ("all within-kind, cross-kind and cross-instance histories of length 1 -> every call; within-kind length 2 over 8 suspicious steps, length 3 "
                        "over 4 suspicious steps, mixed-parser length 2 over 4 suspicious steps each -> every call; 300 fixed + 2500 seeded random histories "
                        "of length 12" if h.thorough else
                        "within-kind histories of length 1: every step -> ~15 representative calls per kind and 8 suspicious steps -> every call; within-kind "
                        "length 2 and cross-kind length 1 with 3 suspicious steps per kind as history -> representative calls; B2 -> B with 5 suspicious "
                        "steps; 40 fixed long histories"))
        exit_mode_part(h)
        bound += "; exit_on_error=True parsers: 11 one-step histories (SystemExit caught) x 7 calls against a fresh parser"
    finally:
        os.environ.clear()
        os.environ.update(env0)
    sys.exit(h.finish(exhaustive=True, bound=bound))


if __name__ == "__main__":
    main()
