"""C04 bounded stand-in: sources override each other in the documented order, left to right.

End-to-end contract on every parse method:  projection(result) == ref_fold(sources)  where ref_fold is the reference
fold written from the statement (defaults -> default config files in listed order, sorted glob per pattern, only the
existing ones -> config in the environment -> individual environment variables -> command line items left to right /
the config handed to parse_string, parse_path, parse_object).  `key: v` replaces (also whole lists and dicts),
`key+: v` appends to the list built so far, `--key.item=v` sets one item of the dict built so far.

Schema of every parser: --cfg (config action), a:int=0, n.x:int=0, n.s:str='s0' (never assigned, must survive),
l:List[int]=[0], n.l:List[int]=[0], d:Dict[str,int]={'k0':0}, n.d:Dict[str,int]={'k0':0}.
Every assignment carries a value that is unique to its position in the chain, so the result names its provenance.

Enumerations (see `bound` in the output):
  E1 pre-chain : every layout of <= 3 default config files (direct paths, a glob whose sorted order differs from the
                 creation order, a missing file) x every content digit per file x env config {none, string, file} x
                 content x env variables x {no argv, one argv tail of appends and dict items}, env on.
  E2 argv      : every sequence of <= N command line items over the atoms of one focus key
                 (option, '+' scalar, '+' list, dict item, config file, config string; the config items also carry the
                 other keys), on an empty and on a full pre-chain.
  E3 methods   : parse_string / parse_path / parse_object / parse_env (os.environ and explicit dict) on the pre-chains.
  E4 env modes : default_env off / on / JSONARGPARSE_DEFAULT_ENV=true / env=True / env=False at the call, and the
                 PREFIX_LEV__OPT spelling for env_prefix = 'APP' / False / derived from prog.
  E5 (thorough): seeded random chains in which every source picks an independent operation per key.
  E6 relative  : relative default_config_files patterns (direct, glob, in a sub-directory) x the input config in the working
                 directory / a sibling / a sub-directory x a file of the same relative name beside the input x every method.
A failing case is shrunk (projection on the failing key, removal of sources, canonical env mode / layout / method) and
the canonical violation key is the descriptor of the shrunk chain, so one defect yields one or two keys.
"""
import copy
import fnmatch
import itertools
import json
import multiprocessing
import os
import shutil
import sys
import tempfile
from typing import Dict, List

from bounded.common import Harness, quiet

KEYS = ["a", "n.x", "l", "n.l", "d", "n.d"]
KIDX = {k: i for i, k in enumerate(KEYS)}
KIND = {"a": "scalar", "n.x": "scalar", "l": "list", "n.l": "list", "d": "dict", "n.d": "dict"}
DEFAULTS = {"a": 0, "n.x": 0, "n.s": "s0", "l": [0], "n.l": [0], "d": {"k0": 0}, "n.d": {"k0": 0}}
TYPES = {"a": int, "n.x": int, "n.s": str, "l": List[int], "n.l": List[int], "d": Dict[str, int], "n.d": Dict[str, int]}

# what a config-like source with content digit g assigns, per key ('-' nothing, '=' replace, '+L' append a list, '+S' append a scalar)
DIGIT = {
    "l":   ["-", "=", "+L", "+S", "="],
    "n.l": ["-", "+L", "=", "-", "="],
    "a":   ["-", "=", "-", "=", "="],
    "n.x": ["-", "-", "=", "=", "-"],
    "d":   ["-", "=", "=", "-", "-"],
    "n.d": ["-", "-", "=", "=", "="],
}
# which keys the individual environment variables set, per digit e
ENVSETS = [[], ["a", "l", "d"], ["n.x", "n.l", "n.d", "a"]]


def val(pos, key, op):
    """The value assigned at chain position pos to key (unique per position and key)."""
    base = 100 * (pos + 1) + 10 * KIDX[key]
    kind = KIND[key]
    if op == "=":
        return base if kind == "scalar" else [base, base + 1] if kind == "list" else {"k1": base, "k%d" % (2 + pos % 2): base + 1}
    if op == "+L":
        return [base + 2, base + 3]
    if op == "+S":
        return base + 4
    if op.startswith("."):
        return base + 5
    raise ValueError(op)


def content(pos, g):
    """Assignments [(key, op, value)] of a config-like source at chain position pos with content digit g."""
    return [(k, DIGIT[k][g], val(pos, k, DIGIT[k][g])) for k in KEYS if DIGIT[k][g] != "-"]


# ---------------------------------------------------------------------------------------------- the reference fold
def apply(state, key, op, v):
    if op == "=":
        state[key] = copy.deepcopy(v)
    elif op in ("+L", "+S"):
        state[key] = list(state[key]) + (list(v) if isinstance(v, list) else [v])
    elif op.startswith("."):
        state[key] = {**state[key], op[1:]: v}
    else:
        raise ValueError(op)


def env_is_on(case):
    return case["method"] == "env" or case["envmode"] in ("on", "osvar", "call")


def effective_files(case):
    """Default config files in the order of the statement: listed order, sorted glob per pattern, existing only."""
    out = []
    for pat in case["dcf"]:
        if pat[0] == "file":
            out.append(pat[2])
        elif pat[0] == "glob":
            out.extend(c for _, c in matched(pat))
        elif pat[0] in ("missing", "empty"):
            pass
    return out


def matched(pat):
    """The files of a glob entry that its pattern matches, in sorted order (shell-style matching by the stdlib's fnmatch)."""
    return [(n, c) for n, c in sorted(pat[1]) if fnmatch.fnmatchcase(n, pat[2])]


def ref_fold(case):
    state = copy.deepcopy(DEFAULTS)
    for assignments in effective_files(case):
        for k, op, v in assignments:
            apply(state, k, op, v)
    if env_is_on(case):
        if case["envcfg"]:
            for k, op, v in case["envcfg"][1]:
                apply(state, k, op, v)
        for k, v in case["envvars"]:
            apply(state, k, "=", v)
    if case["method"] == "args":
        for item in case["final"]:
            if item[0] == "opt":
                apply(state, item[1], item[2], item[3])
            else:
                for k, op, v in item[1]:
                    apply(state, k, op, v)
    elif case["method"] != "env":
        for k, op, v in case["final"]:
            apply(state, k, op, v)
    return state


# ---------------------------------------------------------------------------------------------- rendering a case
def nested(assignments):
    doc = {}
    for k, op, v in assignments:
        *branch, leaf = k.split(".")
        node = doc
        for b in branch:
            node = node.setdefault(b, {})
        node[leaf + ("+" if op in ("+L", "+S") else "")] = v
    return doc


def env_name(prefix, key):
    """[PREFIX_][LEV__]*OPT, upper case (DOCUMENTATION.rst, 'Environment variables')."""
    pre = {"APP": "APP_", "none": "", "prog": "TOOL_"}[prefix]
    return pre + key.upper().replace(".", "__")


def argv_of(item, write):
    if item[0] == "opt":
        _, k, op, v = item
        if op.startswith("."):
            return "--%s%s=%s" % (k, op, json.dumps(v))
        return "--%s%s=%s" % (k, "+" if op in ("+L", "+S") else "", json.dumps(v))
    if item[0] == "cfgfile":
        return "--cfg=" + write(json.dumps(nested(item[1])))
    return "--cfg=" + json.dumps(nested(item[1]))


def run(case, tmp):
    """Runs the case on the real parser. Returns ('ok', {key: value}) or ('exc', name, message)."""
    from jsonargparse import ArgumentParser

    for name in os.listdir(tmp):
        path = os.path.join(tmp, name)
        shutil.rmtree(path) if os.path.isdir(path) else os.unlink(path)
    counter = [0]

    def write(text, name=None, sub=None):
        counter[0] += 1
        folder = tmp if sub is None else os.path.join(tmp, sub)
        os.makedirs(folder, exist_ok=True)
        path = os.path.join(folder, name or "f%d.json" % counter[0])
        with open(path, "w") as f:
            f.write(text)
        return path

    patterns = []
    home = None
    for n, pat in enumerate(case["dcf"]):
        if pat[0] == "file":
            path = write(json.dumps(nested(pat[2])), "d%d.json" % n)
            if pat[1] == "home":
                home = tmp
                path = "~/" + os.path.basename(path)
            patterns.append(path)
        elif pat[0] == "glob":
            # The order of the statement is the sorted one. The files are laid out so that the order in which the file system
            # lists them differs from it (creation order, and a common order-preserving name prefix, are varied until it does).
            gdir = os.path.join(tmp, "g%d" % n)
            prefixes = ["", "p", "q", "zz", "m1", "k", "w7"] if pat[2] == "*.json" else [""]
            unsorted_listing = False
            for prefix in prefixes:
                for files in (pat[1], list(reversed(pat[1]))):
                    shutil.rmtree(gdir, ignore_errors=True)
                    for fname, c in files:
                        write(json.dumps(nested(c)), prefix + fname, sub="g%d" % n)
                    listed = [x for x in os.listdir(gdir) if fnmatch.fnmatchcase(x, pat[2])]
                    unsorted_listing = listed != sorted(listed)
                    if unsorted_listing or len(listed) < 2:
                        break
                if unsorted_listing or len(listed) < 2:
                    break
            if len(listed) >= 2:
                GLOB_STATS["unsorted" if unsorted_listing else "sorted"] += 1
            patterns.append(os.path.join(gdir, pat[2]))
        elif pat[0] == "missing":
            patterns.append(os.path.join(tmp, "missing%d.json" % n))
        elif pat[0] == "empty":
            patterns.append(write(pat[1], "e%d.json" % n))

    environ = {}
    if case["envcfg"]:
        form, assignments = case["envcfg"]
        text = json.dumps(nested(assignments))
        environ[env_name(case["prefix"], "cfg")] = write(text, "envcfg.json") if form == "file" else text
    for k, v in case["envvars"]:
        environ[env_name(case["prefix"], k)] = json.dumps(v)

    managed = {env_name(p, k) for p in ("APP", "none", "prog") for k in KEYS + ["cfg", "n.s"]} | {"JSONARGPARSE_DEFAULT_ENV", "HOME", "JSONARGPARSE_DEBUG"}
    saved = {k: os.environ.get(k) for k in managed}
    try:
        for k in managed - {"HOME"}:
            os.environ.pop(k, None)
        if home:
            os.environ["HOME"] = home
        if case["envmode"] == "osvar":
            os.environ["JSONARGPARSE_DEFAULT_ENV"] = "true"
        use_dict = case["method"] == "env" and case.get("envdict")
        if not use_dict:
            os.environ.update(environ)
        kw = {}
        if case["envmode"] in ("on", "calloff"):
            kw["default_env"] = True
        if case["prefix"] == "APP":
            kw["env_prefix"] = "APP"
        elif case["prefix"] == "none":
            kw["env_prefix"] = False
        else:
            kw["prog"] = "tool.py"
        call = {}
        if case["envmode"] == "call":
            call["env"] = True
        elif case["envmode"] == "calloff":
            call["env"] = False
        try:
            with quiet():
                p = ArgumentParser(exit_on_error=False, default_config_files=patterns, **kw)
                p.add_argument("--cfg", action="config")
                for k, d in DEFAULTS.items():
                    p.add_argument("--" + k, type=TYPES[k], default=copy.deepcopy(d))
                m = case["method"]
                if m == "args":
                    res = p.parse_args([argv_of(it, write) for it in case["final"]], **call)
                elif m == "string":
                    res = p.parse_string(json.dumps(nested(case["final"])), **call)
                elif m == "path":
                    res = p.parse_path(write(json.dumps(nested(case["final"])), "input.json"), **call)
                elif m == "object":
                    res = p.parse_object(nested(case["final"]), **call)
                elif m == "env":
                    res = p.parse_env(dict(environ)) if use_dict else p.parse_env()
                else:
                    raise ValueError(m)
            out = {}
            for k in DEFAULTS:
                out[k] = res.get(k, "<absent>")
            return ("ok", out)
        except SystemExit as ex:
            return ("exc", "SystemExit", str(ex.code))
        except BaseException as ex:  # noqa
            return ("exc", type(ex).__name__, str(ex)[:200].replace(tmp, "<tmp>"))
    finally:
        for k, v in saved.items():
            if v is None:
                os.environ.pop(k, None)
            else:
                os.environ[k] = v


GLOB_STATS = {"unsorted": 0, "sorted": 0}


def same(a, b):
    return type(a) is type(b) and a == b and json.dumps(a, sort_keys=True) == json.dumps(b, sort_keys=True)


def failing(case, tmp):
    """{key: (expected, got)} for the keys whose final value differs from the reference fold."""
    exp = ref_fold(case)
    res = run(case, tmp)
    if res[0] != "ok":
        return {k: (exp[k], "raised %s: %s" % (res[1], res[2])) for k in DEFAULTS}, res
    return {k: (exp[k], res[1][k]) for k in DEFAULTS if not same(exp[k], res[1][k])}, res


# ---------------------------------------------------------------------------------------------- shrinking + canonical key
def project(case, key):
    """The case with every assignment to another key removed (sources left without assignments are removed)."""
    c = copy.deepcopy(case)
    keep = lambda assignments: [x for x in assignments if x[0] == key]  # noqa
    dcf = []
    for pat in c["dcf"]:
        if pat[0] == "file":
            if keep(pat[2]):
                dcf.append(("file", pat[1], keep(pat[2])))
        elif pat[0] == "glob":
            files = [(n, keep(cc)) for n, cc in pat[1] if keep(cc)]
            if files:
                dcf.append(("glob", files, pat[2]))
        else:
            dcf.append(pat)
    c["dcf"] = dcf
    if c["envcfg"]:
        c["envcfg"] = (c["envcfg"][0], keep(c["envcfg"][1])) if keep(c["envcfg"][1]) else None
    c["envvars"] = [x for x in c["envvars"] if x[0] == key]
    if c["method"] == "args":
        final = []
        for it in c["final"]:
            if it[0] == "opt":
                if it[1] == key:
                    final.append(it)
            elif keep(it[1]):
                final.append((it[0], keep(it[1])))
        c["final"] = final
    elif c["method"] != "env":
        c["final"] = keep(c["final"])
    return c


def removals(case):
    """Every case obtained by removing one source (or flattening / simplifying one)."""
    for i, pat in enumerate(case["dcf"]):
        c = copy.deepcopy(case)
        del c["dcf"][i]
        yield c
        if pat[0] == "glob":
            c = copy.deepcopy(case)
            c["dcf"][i: i + 1] = [("file", "abs", cc) for _, cc in matched(pat)]
            yield c
        if pat[0] == "file" and pat[1] == "home":
            c = copy.deepcopy(case)
            c["dcf"][i] = ("file", "abs", pat[2])
            yield c
    if case["envcfg"]:
        c = copy.deepcopy(case)
        c["envcfg"] = None
        yield c
        if case["envcfg"][0] == "file":
            c = copy.deepcopy(case)
            c["envcfg"] = ("str", case["envcfg"][1])
            yield c
    for i in range(len(case["envvars"])):
        c = copy.deepcopy(case)
        del c["envvars"][i]
        yield c
    if case["method"] == "args":
        for i in range(len(case["final"])):
            c = copy.deepcopy(case)
            del c["final"][i]
            yield c
    elif case["method"] != "env":
        for i in range(len(case["final"])):
            c = copy.deepcopy(case)
            del c["final"][i]
            yield c
        if not case["final"]:
            c = copy.deepcopy(case)
            c["method"] = "args"
            yield c
    if case["method"] == "env" and not case.get("envdict"):
        c = copy.deepcopy(case)
        c["method"], c["final"], c["envmode"] = "args", [], "on"
        yield c
    if case.get("envdict"):
        c = copy.deepcopy(case)
        c["envdict"] = False
        yield c
    has_env = bool(case["envcfg"] or case["envvars"])
    want = "on" if has_env else "off"
    if case["envmode"] != want and case["method"] != "env":
        c = copy.deepcopy(case)
        c["envmode"] = want
        yield c
    if case["prefix"] != "APP":
        c = copy.deepcopy(case)
        c["prefix"] = "APP"
        yield c


def describe(case):
    parts = []

    def cont(assignments):
        return ",".join("%s%s" % (k, {"=": "=", "+L": "+[]", "+S": "+"}.get(op, op)) for k, op, _ in assignments) or "{}"

    for pat in case["dcf"]:
        if pat[0] == "file":
            parts.append("dcf%s(%s)" % ("~" if pat[1] == "home" else "", cont(pat[2])))
        elif pat[0] == "glob":
            parts.append("glob[%s]" % ";".join("%s(%s)" % (n.split(".")[0], cont(c)) for n, c in pat[1]))
        else:
            parts.append(pat[0])
    if case["envcfg"]:
        parts.append("envcfg.%s(%s)" % (case["envcfg"][0], cont(case["envcfg"][1])))
    if case["envvars"]:
        parts.append("envvar(%s)" % ",".join(k for k, _ in case["envvars"]))
    if case["method"] == "args":
        for it in case["final"]:
            if it[0] == "opt":
                parts.append("--%s%s" % (it[1], {"=": "=", "+L": "+=[]", "+S": "+="}.get(it[2], it[2] + "=")))
            else:
                parts.append("%s(%s)" % (it[0], cont(it[1])))
    elif case["method"] != "env":
        parts.append("input(%s)" % cont(case["final"]))
    head = "%s:env=%s" % (case["method"] + ("-dict" if case.get("envdict") else ""), case["envmode"])
    if case["prefix"] != "APP":
        head += ":prefix=" + case["prefix"]
    return head, "/".join(parts)


def minimise(case, still_fails):
    cur = case
    budget = 200
    progress = True
    while progress and budget > 0:
        progress = False
        for cand in removals(cur):
            budget -= 1
            if still_fails(cand):
                cur = cand
                progress = True
                break
    return cur


def shrink(case, key, tmp):
    """Greedy delta debugging on the failing key; returns a minimal failing case."""
    def still(c):
        bad, res = failing(c, tmp)
        return res[0] == "ok" and key in bad

    proj = project(case, key)
    return minimise(proj if still(proj) else case, still)


def chain_of(case, key):
    """The sources of the case that assign `key`, as (slot class, operation), in chain order."""
    out = []

    def ops(assignments, slot):
        out.extend((slot, op) for k, op, _ in assignments if k == key)

    for pat in case["dcf"]:
        if pat[0] == "file":
            ops(pat[2], "dcf")
        elif pat[0] == "glob":
            for _, c in matched(pat):
                ops(c, "dcf")
    if case["envcfg"]:
        ops(case["envcfg"][1], "envcfg")
    out.extend(("envvar", "=") for k, _ in case["envvars"] if k == key)
    if case["method"] == "args":
        for it in case["final"]:
            if it[0] == "opt":
                if it[1] == key:
                    out.append(("opt", it[2] if not it[2].startswith(".") else "."))
            else:
                ops(it[1], it[0])
    elif case["method"] != "env":
        ops(case["final"], "input")
    return out


def strip(case, key, slots):
    """The case without the assignments to `key` made by sources whose (slot class, operation) is in `slots`."""
    c = copy.deepcopy(case)

    def keep(assignments, slot):
        return [x for x in assignments if not (x[0] == key and (slot, x[1]) in slots)]

    dcf = []
    for pat in c["dcf"]:
        if pat[0] == "file":
            dcf.append(("file", pat[1], keep(pat[2], "dcf")))
        elif pat[0] == "glob":
            dcf.append(("glob", [(n, keep(cc, "dcf")) for n, cc in pat[1]], pat[2]))
        else:
            dcf.append(pat)
    c["dcf"] = dcf
    if c["envcfg"]:
        c["envcfg"] = (c["envcfg"][0], keep(c["envcfg"][1], "envcfg"))
    if ("envvar", "=") in slots:
        c["envvars"] = [x for x in c["envvars"] if x[0] != key]
    if c["method"] == "args":
        final = []
        for it in c["final"]:
            if it[0] == "opt":
                if not (it[1] == key and ("opt", it[2] if not it[2].startswith(".") else ".") in slots):
                    final.append(it)
            else:
                final.append((it[0], keep(it[1], it[0])))
        c["final"] = final
    elif c["method"] != "env":
        c["final"] = keep(c["final"], "input")
    return c


def is_subsequence(small, big):
    it = iter(big)
    return all(x in it for x in small)


KNOWN: dict = {}  # key -> [(chain of the minimal failing case, violation record)], per worker process


def explain(case, key, tmp, depth=0):
    """Violation records (canonical key, what, payload) for the failure of `key` in `case`.

    A minimal failing chain found earlier is reused when it is a sub-chain of this case and the case no longer fails on
    `key` once the assignments of that sub-chain are taken out (one parse instead of a full shrink). If it still fails,
    the remainder is explained on its own, so a second defect is not masked by a frequent one.
    """
    chain = chain_of(case, key)
    for mchain, record in KNOWN.get(key, []):
        if mchain and is_subsequence(mchain, chain):
            rest = strip(case, key, set(mchain))
            bad, res = failing(rest, tmp)
            if res[0] == "ok" and key not in bad:
                return [(record[0], record[1], dict(record[2], found_in=reproducer(case)))]
            if res[0] == "ok" and depth < 3:
                return explain(rest, key, tmp, depth + 1)
    small = shrink(case, key, tmp) if key != "n.s" else case
    sbad, sres = failing(small, tmp)
    exp, got = sbad[key]
    head, desc = describe(small)
    vkey = clip("c04:%s:%s:%s" % (head, key, desc))
    what = "final value of %r is %r, the documented order gives %r" % (key, got, exp)
    record = (vkey, what, {"minimal": reproducer(small), "found_in": reproducer(case), "expected": exp, "got": got})
    KNOWN.setdefault(key, []).append((chain_of(small, key), record))
    return [record]


def explain_raise(case, res, tmp):
    small = minimise(case, lambda c: (lambda r: r[0] != "ok" and r[1] == res[1])(run(c, tmp)))
    sres = run(small, tmp)
    head, desc = describe(small)
    vkey = clip("c04:%s:raised:%s:%s" % (head, res[1], desc))
    what = "a chain of valid assignments is rejected: %s: %s" % (sres[1], sres[2] if len(sres) > 2 else "")
    return [(vkey, what, {"minimal": reproducer(small), "found_in": reproducer(case), "expected": ref_fold(small)})]


def clip(vkey):
    return vkey if len(vkey) <= 148 else vkey[:140] + "~%04d" % (sum(map(ord, vkey)) % 10000)


def reproducer(case):
    """A description from which the case can be re-run by hand."""
    files = []
    for pat in case["dcf"]:
        if pat[0] == "file":
            files.append({"default_config_file": ("~/" if pat[1] == "home" else "") + "<path>", "content": nested(pat[2])})
        elif pat[0] == "glob":
            files.append({"default_config_files_glob": pat[2], "files_in_creation_order": {n: nested(c) for n, c in pat[1]}})
        else:
            files.append({pat[0]: True})
    env = {}
    if case["envcfg"]:
        env[env_name(case["prefix"], "cfg")] = ("<file containing> " if case["envcfg"][0] == "file" else "") + json.dumps(nested(case["envcfg"][1]))
    for k, v in case["envvars"]:
        env[env_name(case["prefix"], k)] = json.dumps(v)
    if case["method"] == "args":
        final = [("--cfg=<file containing> " + json.dumps(nested(it[1]))) if it[0] == "cfgfile" else argv_of(it, None) for it in case["final"]]
    elif case["method"] == "env":
        final = "parse_env(%s)" % ("env=<dict>" if case.get("envdict") else "")
    else:
        final = {"parse_" + case["method"]: nested(case["final"])}
    return {
        "parser": "ArgumentParser(exit_on_error=False, default_config_files=<below>, %s, %s); --cfg action=config; "
                  "a:int=0 n.x:int=0 n.s:str='s0' l:List[int]=[0] n.l:List[int]=[0] d:Dict[str,int]={'k0':0} n.d:Dict[str,int]={'k0':0}"
                  % ({"APP": "env_prefix='APP'", "none": "env_prefix=False", "prog": "prog='tool.py'"}[case["prefix"]],
                     {"on": "default_env=True", "calloff": "default_env=True", "osvar": "JSONARGPARSE_DEFAULT_ENV=true"}.get(case["envmode"], "default_env unset")),
        "call_env_argument": {"call": True, "calloff": False}.get(case["envmode"]),
        "default_config_files": files, "environ": env, "input": final,
    }


# ---------------------------------------------------------------------------------------------- worker
def run_chunk(chunk):
    out = []
    with tempfile.TemporaryDirectory(prefix="b04_") as tmp:
        for case in chunk:
            bad, res = failing(case, tmp)
            sig = describe(case)
            nontrivial = bool(effective_files(case) or case["envcfg"] or case["envvars"] or case["final"])
            viols = []
            if res[0] != "ok":
                viols = explain_raise(case, res, tmp)
            else:
                for key in bad:
                    for record in explain(case, key, tmp):
                        if record[0] not in [v[0] for v in viols]:
                            viols.append(record)
            out.append((":".join(sig), nontrivial, viols, {"case": reproducer(case), "result": res[1] if res[0] == "ok" else list(res)}))
    return out, dict(GLOB_STATS, pid=os.getpid())


# ---------------------------------------------------------------------------------------------- enumeration
def mk(method="args", envmode="on", prefix="APP", dcf=(), envcfg=None, envvars=(), final=(), envdict=False):
    return {"method": method, "envmode": envmode, "prefix": prefix, "dcf": list(dcf), "envcfg": envcfg, "envvars": list(envvars),
            "final": list(final), "envdict": envdict}


def layouts(full):
    """(name, number of content digits, builder(digits) -> dcf list). Chain positions of the files are 0,1,2."""
    def f(pos, g, how="abs"):
        return ("file", how, content(pos, g))

    lay = [
        ("none", 0, lambda g: []),
        ("1", 1, lambda g: [f(0, g[0])]),
        ("2", 2, lambda g: [f(0, g[0]), f(1, g[1])]),
        ("3", 3, lambda g: [f(0, g[0]), f(1, g[1]), f(2, g[2])]),
        # the glob: b.json is created first, a.json second; the statement's order is the sorted one (a, b)
        ("1g", 3, lambda g: [f(0, g[0]), ("glob", [("b.json", content(2, g[2])), ("a.json", content(1, g[1]))], "*.json")]),
        ("g1", 3, lambda g: [("glob", [("b.json", content(1, g[1])), ("a.json", content(0, g[0]))], "*.json"), f(2, g[2])]),
        ("m1", 1, lambda g: [("missing",), f(0, g[0])]),
    ]
    if full:
        lay += [
            ("e1", 1, lambda g: [("empty", ""), f(0, g[0])]),
            ("w1", 1, lambda g: [("empty", " \n"), f(0, g[0])]),
            ("~2", 2, lambda g: [f(0, g[0], "home"), f(1, g[1])]),
            ("gq", 2, lambda g: [("glob", [("x2.json", content(1, g[1])), ("x1.json", content(0, g[0])), ("y.txt", content(2, 1))], "x?.json")]),
        ]
    return lay


def envvars_of(e, pos=4):
    return [(k, val(pos, k, "=")) for k in ENVSETS[e]]


TAIL = [("opt", "l", "+S", val(5, "l", "+S")), ("opt", "n.l", "+L", val(6, "n.l", "+L")), ("opt", "d", ".k1", val(7, "d", ".k1")),
        ("opt", "n.d", ".k0", val(8, "n.d", ".k0")), ("opt", "d", ".k9", val(9, "d", ".k9"))]


def atoms(focus, pos):
    """The command line atoms of one focus key at argv position pos."""
    kind = KIND[focus]
    cfg = [g for g in (1, 2, 3) if DIGIT[focus][g] != "-"]
    out = [("opt", focus, "=", val(pos, focus, "="))]
    if kind == "list":
        out += [("opt", focus, "+S", val(pos, focus, "+S")), ("opt", focus, "+L", val(pos, focus, "+L"))]
    if kind == "dict":
        out += [("opt", focus, ".k0", val(pos, focus, ".k0")), ("opt", focus, ".k1", val(pos, focus, ".k1"))]
    for n, g in enumerate(cfg):
        out.append(("cfgfile" if n % 2 == 0 else "cfgstr", content(pos, g)))
    if kind == "list" and focus == "l":
        out.append(("cfgstr", content(pos, 3)))
    if kind == "scalar":
        out.append(("cfgstr" if len(cfg) % 2 == 0 else "cfgfile", content(pos, cfg[0])))
    return out


def enumerate_cases(thorough, rng):
    quick = not thorough
    ec_all = [None] + [(form, g) for g in (1, 2, 3) for form in ("str", "file")] + [("str", 4)]
    ec_few = [None, ("str", 1), ("file", 2), ("str", 3), ("str", 4)]

    def ec_of(ec):
        return (ec[0], content(3, ec[1])) if ec else None

    # ---- E1 pre-chain, env on, parse_args.  quick: without the layout of three direct files; 5 of the 8 env configs; the argv tail only with <= 2 files
    for name, nd, build in layouts(thorough):
        if quick and name == "3":
            continue
        digit_range = (0, 1, 2, 3, 4) if (thorough and nd <= 2) else (1, 2, 3)
        for g in itertools.product(digit_range, repeat=nd):
            for ec in (ec_few if quick else ec_all):
                for e in (0, 1, 2):
                    yield mk(dcf=build(g), envcfg=ec_of(ec), envvars=envvars_of(e))
                    if thorough or nd <= 2:
                        yield mk(dcf=build(g), envcfg=ec_of(ec), envvars=envvars_of(e), final=TAIL)
    # ---- E2 argv sequences per focus key, on an empty pre-chain and (shorter sequences) on a full one
    # the full pre-chain: two default config files, an env config that leaves the list keys alone, env variables for n.x, n.l, n.d
    full_pre = dict(dcf=[("file", "abs", content(0, 1)), ("file", "abs", content(1, 2))],
                    envcfg=("str", [x for x in content(3, 4) if KIND[x[0]] != "list"] + [("d", "=", val(3, "d", "="))]), envvars=envvars_of(2)[:3])
    lens = {"l": 6, "n.l": 5, "d": 6, "n.d": 5, "a": 6, "n.x": 6} if thorough else {"l": 4, "n.l": 3, "d": 3, "n.d": 3, "a": 3, "n.x": 3}
    for focus in KEYS:
        for n in range(1, lens[focus] + 1):
            per_pos = [atoms(focus, 5 + i) for i in range(n)]
            if (thorough and n >= 5) or (quick and n == 4):
                per_pos = [a[:4] for a in per_pos]  # bound: at these lengths only the first four atoms of the focus key
            for seq in itertools.product(*per_pos):
                yield mk(envmode="off", final=seq)
                if n <= (lens[focus] - 1 if thorough else 2):
                    yield mk(final=seq, **full_pre)
    # ---- E3 the other parse methods.  quick: the input content is tied to the chain when there are >= 2 files; parse_path with <= 1 file;
    #      the glob layout with parse_string only
    for method in ("string", "path", "object"):
        for name, nd, build in layouts(False):
            if quick and (name in ("3", "g1", "m1") or (method == "path" and nd >= 2) or (method == "object" and nd == 3)):
                continue
            for g in itertools.product((1, 2, 3), repeat=nd):
                for ec in ((None, ("str", 1), ("file", 2), ("str", 4)) if quick else ec_few + [("file", 4)]):
                    for e in (0, 1, 2):
                        for fg in (1, 2, 3):
                            if quick and nd >= 2 and fg != 1 + (sum(g) + e) % 3:
                                continue
                            yield mk(method=method, dcf=build(g), envcfg=ec_of(ec), envvars=envvars_of(e), final=content(5, fg))
    # parse_env, reading os.environ or an explicit dict, on parsers with default_env off and on
    for envdict in (False, True):
        for envmode in ("off", "on"):
            for name, nd, build in layouts(False):
                if (nd == 3 and name != "1g") or (quick and (envmode == "on" and nd >= 2 or envdict and nd == 3)):
                    continue
                for g in itertools.product((1, 2, 3), repeat=nd):
                    for ec in (ec_few if quick else ec_all):
                        for e in ((0, 1) if quick and nd == 3 else (0, 1, 2)):
                            yield mk(method="env", envmode=envmode, dcf=build(g), envcfg=ec_of(ec), envvars=envvars_of(e), envdict=envdict)
    # ---- E4 env modes and variable spelling
    for envmode in ("off", "calloff", "osvar", "call", "on"):
        for prefix in ("APP", "none", "prog"):
            if (envmode == "on" and prefix == "APP") or (quick and prefix != "APP" and envmode not in ("on", "osvar")):
                continue
            for method in ("args", "string", "object", "path"):
                if quick and (method == "path" or method == "object" and prefix != "APP"):
                    continue
                for g in (((1, 2), (2, 3), (3, 1), (2, 2)) if quick else itertools.product((1, 2, 3), repeat=2)):
                    for ec in (None, ("str", 1), ("file", 2), ("str", 3)) + ((("file", 4),) if thorough else ()):
                        for e in (0, 1, 2):
                            final = TAIL[: 2 + e] if method == "args" else content(5, 1 + (g[0] + e) % 3)
                            yield mk(method=method, envmode=envmode, prefix=prefix, dcf=[("file", "abs", content(0, g[0])), ("file", "abs", content(1, g[1]))],
                                     envcfg=ec_of(ec), envvars=envvars_of(e), final=final)
    # one variable at a time, every key, every prefix
    for prefix in ("APP", "none", "prog"):
        for k in KEYS:
            for ec in (None, ("str", 1), ("str", 2)):
                yield mk(prefix=prefix, envcfg=ec_of(ec), envvars=[(k, val(4, k, "="))])
                yield mk(prefix=prefix, envcfg=ec_of(ec), envvars=[(k, val(4, k, "="))], final=TAIL)
    # ---- E5 seeded random chains: every source picks an independent operation per key
    if thorough:
        def rcontent(pos):
            out = []
            for k in KEYS:
                ops = {"scalar": ["-", "="], "list": ["-", "=", "+L", "+S"], "dict": ["-", "="]}[KIND[k]]
                op = rng.choice(ops)
                if op != "-":
                    out.append((k, op, val(pos, k, op)))
            return out

        for _ in range(40000):
            dcf = []
            pos = 0
            for _p in range(rng.randrange(0, 3)):
                r = rng.random()
                if r < 0.6:
                    dcf.append(("file", "abs", rcontent(pos)))
                    pos += 1
                elif r < 0.85 and not any(p[0] == "glob" for p in dcf):
                    names = rng.sample(["a.json", "b.json", "c.json", "B.json", "10.json", "9.json"], 2)
                    order = sorted(names)
                    files = [(nm, rcontent(pos + order.index(nm))) for nm in names]
                    pos += 2
                    dcf.append(("glob", files, "*.json"))
                else:
                    dcf.append(("missing",))
            ec = (rng.choice(["str", "file"]), rcontent(3)) if rng.random() < 0.6 else None
            if ec and not ec[1]:
                ec = None
            ev = [(k, val(4, k, "=")) for k in KEYS if rng.random() < 0.3]
            method = rng.choice(["args", "args", "args", "string", "path", "object", "env"])
            if method == "args":
                final = []
                for i in range(rng.randrange(0, 7)):
                    r = rng.random()
                    if r < 0.6:
                        k = rng.choice(KEYS)
                        ops = {"scalar": ["="], "list": ["=", "+L", "+S"], "dict": ["=", ".k0", ".k1", ".k7"]}[KIND[k]]
                        op = rng.choice(ops)
                        final.append(("opt", k, op, val(5 + i, k, op)))
                    else:
                        c = rcontent(5 + i)
                        if c:
                            final.append((rng.choice(["cfgfile", "cfgstr"]), c))
            elif method == "env":
                final = []
            else:
                final = rcontent(5)
            yield mk(method=method, envmode=rng.choice(["off", "on", "on", "osvar", "call", "calloff"]), prefix=rng.choice(["APP", "APP", "none", "prog"]),
                     dcf=dcf, envcfg=ec, envvars=ev, final=final, envdict=(method == "env" and rng.random() < 0.5))


# ---------------------------------------------------------------------------------------------- E6 relative patterns
def relative_patterns_part(h):
    """E6: default_config_files given as *relative* patterns name files of the directory the program runs in, whichever
    parse method is used and wherever the input config lives; a file of the same relative name beside the input config is
    not a default config file.  Runs in this process (it changes the working directory and restores it)."""
    from jsonargparse import ArgumentParser

    here = os.getcwd()
    saved_env = {k: os.environ.pop(k, None) for k in ("APP_CFG", "APP_A", "APP_B", "JSONARGPARSE_DEFAULT_ENV")}
    try:
        with tempfile.TemporaryDirectory(prefix="b04_rel_") as tmp:
            tmp = os.path.realpath(tmp)
            for layout, patterns, dfile in (("direct", ["defaults.json"], "defaults.json"), ("glob", ["conf.d/*.json"], "conf.d/10.json"),
                                            ("direct-in-subdir", ["etc/defaults.json"], "etc/defaults.json")):
                for where in ("same-dir", "sibling-dir", "sub-dir"):
                    for decoy in (False, True):
                        for method in ("args", "path", "string", "object", "envcfg"):
                            root = os.path.join(tmp, "%s-%s-%d-%s" % (layout, where, decoy, method))
                            work = os.path.join(root, "work")
                            indir = {"same-dir": work, "sibling-dir": os.path.join(root, "other"), "sub-dir": os.path.join(work, "sub")}[where]
                            if where == "same-dir" and decoy:
                                continue
                            for d in (work, indir):
                                os.makedirs(os.path.join(d, os.path.dirname(dfile)), exist_ok=True)
                            with open(os.path.join(work, dfile), "w") as f:
                                json.dump({"a": 7}, f)
                            if decoy:
                                with open(os.path.join(indir, dfile), "w") as f:
                                    json.dump({"a": 9, "c": 9}, f)
                            with open(os.path.join(indir, "input.json"), "w") as f:
                                json.dump({"b": 5}, f)
                            rel_in = os.path.relpath(os.path.join(indir, "input.json"), work)
                            os.chdir(work)
                            try:
                                with quiet():
                                    p = ArgumentParser(exit_on_error=False, default_config_files=list(patterns), env_prefix="APP", default_env=(method == "envcfg"))
                                    p.add_argument("--cfg", action="config")
                                    p.add_argument("--a", type=int, default=0)
                                    p.add_argument("--b", type=int, default=0)
                                    p.add_argument("--c", type=int, default=0)
                                    if method == "args":
                                        res = p.parse_args(["--cfg=" + rel_in])
                                    elif method == "path":
                                        res = p.parse_path(rel_in)
                                    elif method == "string":
                                        res = p.parse_string(json.dumps({"b": 5}))
                                    elif method == "object":
                                        res = p.parse_object({"b": 5})
                                    else:
                                        os.environ["APP_CFG"] = rel_in
                                        try:
                                            res = p.parse_args([])
                                        finally:
                                            os.environ.pop("APP_CFG", None)
                                got = (res.a, res.b, res.c)
                            except BaseException as ex:  # noqa
                                got = "raised %s: %s" % (type(ex).__name__, str(ex)[:160].replace(tmp, "<tmp>"))
                            finally:
                                os.chdir(here)
                            want = (7, 5, 0)
                            if got == want:
                                outcome = "ok"
                            elif isinstance(got, str):
                                outcome = "raised"
                            elif got[0] == 9 or got[2] == 9:
                                outcome = "file-beside-the-input-config-applied-as-default-config"
                            elif got[0] == 0:
                                outcome = "default-config-file-of-the-working-directory-not-applied"
                            else:
                                outcome = "other"
                            sig = "c04:relative-default-config-pattern:%s:%s:input-in-%s%s" % (layout, method, where, ":same-name-beside-input" if decoy else "")
                            h.check(outcome == "ok", sig + ":" + outcome,
                                    "relative default_config_files name files of the working directory for every parse method: expected (a, b, c) = %r, got %r" % (want, got),
                                    {"cwd": "<work>", "default_config_files": patterns, "file <work>/" + dfile: {"a": 7},
                                     "input config": os.path.join("<work>", rel_in) + " = {'b': 5}", "method": method,
                                     "file beside the input config with the same relative name": {"a": 9, "c": 9} if decoy else None})
                            h.nontrivial(sig)
    finally:
        os.chdir(here)
        for k, v in saved_env.items():
            if v is not None:
                os.environ[k] = v


def nested_list_part(h):
    """E7: a list-typed key whose items are lists (List[List[int]]): `key+` appends items to the list built so far and leaves the items already there
    as they are, from the command line, a config string and a config file, after defaults / a default assignment."""
    from jsonargparse import ArgumentParser

    with tempfile.TemporaryDirectory(prefix="b04_ll_") as tmp:
        def argv_of_item(kind, v):
            if kind == "opt+":
                return "--ll+=" + json.dumps(v)
            if kind == "opt=":
                return "--ll=" + json.dumps(v)
            if kind == "cfgstr+":
                return "--cfg=" + json.dumps({"ll+": v})
            path = os.path.join(tmp, "c%d.json" % abs(hash(json.dumps(v))))
            with open(path, "w") as f:
                json.dump({"ll+": v}, f)
            return "--cfg=" + path
        atoms = [("opt+", [[3]]), ("opt+", [[4], [5, 6]]), ("opt=", [[7]]), ("cfgstr+", [[8]]), ("cfgfile+", [[9, 9]])]
        for n in (1, 2, 3):
            for seq in itertools.product(atoms, repeat=n):
                want = [[1, 2]]
                for kind, v in seq:
                    want = list(v) if kind == "opt=" else want + list(v)
                try:
                    with quiet():
                        p = ArgumentParser(exit_on_error=False)
                        p.add_argument("--cfg", action="config")
                        p.add_argument("--ll", type=List[List[int]], default=[[1, 2]])
                        got = p.parse_args([argv_of_item(k, v) for k, v in seq]).ll
                except BaseException as ex:  # noqa
                    got = "raised %s: %s" % (type(ex).__name__, str(ex)[:120])
                sig = "c04:list-of-lists:" + ",".join(k for k, _ in seq)
                first_bad = next((i for i, (a, b) in enumerate(zip(got, want)) if a != b), None) if isinstance(got, list) else None
                h.check(got == want, sig + (":raised" if isinstance(got, str) else ":an-item-already-in-the-list-changed" if first_bad is not None and first_bad < len(want) - len(seq[-1][1]) else ":wrong-items"),
                        "ll: expected %r, got %r" % (want, got), {"parser": "--ll: List[List[int]] = [[1, 2]]; --cfg", "argv": [k + " " + json.dumps(v) for k, v in seq]})
                h.nontrivial(sig)


def dashed_name_part(h):
    """E8: an option whose name has a dash (its key has an underscore): the `+` spelling of that option appends like any other."""
    from jsonargparse import ArgumentParser

    for name in ("my-list", "my_list", "a-b-c"):
        for seq, want in (((name + "+=2",), [1, 2]), ((name + "+=2", name + "+=[3, 4]"), [1, 2, 3, 4]), ((name + "=[7]", name + "+=8"), [7, 8])):
            try:
                with quiet():
                    p = ArgumentParser(exit_on_error=False)
                    p.add_argument("--" + name, type=List[int], default=[1])
                    got = getattr(p.parse_args(["--" + x for x in seq]), name.replace("-", "_"))
            except BaseException as ex:  # noqa
                got = "raised %s: %s" % (type(ex).__name__, str(ex)[:100].replace("\n", " "))
            sig = "c04:option-name-with-a-dash:%s:%s" % ("dashed" if "-" in name else "plain", ",".join("+" if "+=" in x else "=" for x in seq))
            h.check(got == want, sig + (":raised" if isinstance(got, str) else ":wrong-value"), "--%s: expected %r, got %r" % (name, want, got), {"option": "--" + name + ": List[int] = [1]", "argv": ["--" + x for x in seq]})
            h.nontrivial(sig)


def no_defaults_part(h):
    """E9: defaults=False takes the source-code defaults and the default config files out of the chain and nothing else: the environment of a parser
    built with default_env (or asked for with env=True) still applies below the input, for every parse method alike."""
    from jsonargparse import ArgumentParser

    saved = os.environ.get("APP_A")
    os.environ["APP_A"] = "5"
    try:
        with tempfile.TemporaryDirectory(prefix="b04_nd_") as tmp:
            path = os.path.join(tmp, "in.json")
            with open(path, "w") as f:
                json.dump({"b": 3}, f)
            for envmode, pkw, ckw, env_counts in (("default_env", {"default_env": True}, {}, True), ("env=True", {}, {"env": True}, True), ("off", {}, {}, False), ("default_env,env=False", {"default_env": True}, {"env": False}, False)):
                for method in ("args", "object", "string", "path"):
                    try:
                        with quiet():
                            p = ArgumentParser(exit_on_error=False, env_prefix="APP", **pkw)
                            p.add_argument("--a", type=int, default=1)
                            p.add_argument("--b", type=int, default=2)
                            call = dict(ckw, defaults=False)
                            res = {"args": lambda: p.parse_args(["--b=3"], **call), "object": lambda: p.parse_object({"b": 3}, **call), "string": lambda: p.parse_string('{"b": 3}', **call),
                                   "path": lambda: p.parse_path(path, **call)}[method]()
                        got = {k: res.get(k, "<absent>") for k in ("a", "b")}
                    except BaseException as ex:  # noqa
                        got = "raised %s" % type(ex).__name__
                    want = {"a": 5 if env_counts else "<absent>", "b": 3}
                    h.check(got == want, "c04:defaults=False:%s:%s:%s" % (envmode, method, "environment-variable-not-applied" if isinstance(got, dict) and got.get("a") == "<absent>" and env_counts else "other"),
                            "defaults=False, %s, %s: expected %r, got %r" % (envmode, method, want, got), {"parser": "--a: int = 1, --b: int = 2, env_prefix=APP, " + envmode, "os.environ": {"APP_A": "5"}, "input": {"b": 3}, "method": method})
                    h.nontrivial(("defaults=False", envmode, method))
    finally:
        if saved is None:
            os.environ.pop("APP_A", None)
        else:
            os.environ["APP_A"] = saved


def main():
    h = Harness("b04_precedence", rule="one evaluation = one parse of one chain of sources compared, key by key, with the reference fold; "
                "distinct non-trivial = distinct (method, env mode, prefix, chain descriptor) with at least one source besides the defaults")
    jobs = 12
    for a in h.extra:
        if a.startswith("--jobs="):
            jobs = int(a[7:])
    cases = list(enumerate_cases(h.thorough, h.rng))
    for a in h.extra:
        if a.startswith("--limit="):  # debugging aid only
            cases = cases[:: max(1, len(cases) // int(a[8:]))]
    size = 150
    chunks = [cases[i: i + size] for i in range(0, len(cases), size)]
    if jobs > 1:
        ctx = multiprocessing.get_context("fork")
        with ctx.Pool(min(jobs, 16)) as pool:
            results = pool.imap(run_chunk, chunks)
            collect(h, results)
    else:
        collect(h, map(run_chunk, chunks))
    relative_patterns_part(h)
    nested_list_part(h)
    dashed_name_part(h)
    no_defaults_part(h)
    if h.thorough:
        bound = ("0-3 default config files in %d layouts (direct paths, a glob whose listing order differs from the sorted order, a missing file, an empty file, ~, a '?' glob "
                 "with a non-matching file) x 3-5 contents per file; env config {none, string, file} x 3 contents (+1 without appends); env variables {none, 2 sets, each "
                 "key alone}; every sequence of <= 6 command line items over the atoms of one focus key (option, '+' scalar, '+' list, dict item, config file, config "
                 "string; first 4 atoms at lengths 5-6) on an empty and a full pre-chain; parse_args, parse_string, parse_path, parse_object, parse_env (os.environ / "
                 "dict); default_env off / on / JSONARGPARSE_DEFAULT_ENV / env=True / env=False; env_prefix 'APP' / False / from prog; + 40000 seeded random chains; + 3 relative patterns x 3 places of the input config x "
                 "decoy beside it x 5 methods; + every sequence of <= 3 items over 5 atoms on a List[List[int]] key"
                 % len(layouts(True)))
    else:
        bound = ("0-3 default config files in 6 layouts (direct paths, a glob - before and after a direct path - whose listing order differs from the sorted order, a missing "
                 "file) x 3 contents per file; env config {none, string, file} x 5 of 8 contents; env variables {none, 2 sets, each key alone}; every sequence of <= 3 "
                 "command line items over the 4-7 atoms of one focus key (option, '+' scalar, '+' list, dict item, config file, config string; <= 4 items over 4 atoms for "
                 "the flat list key) on an empty pre-chain and <= 2 items on a full one; parse_string / parse_object / parse_path / parse_env (os.environ / dict) on <= 3 / "
                 "2 / 1 / 3 files; default_env off / on / JSONARGPARSE_DEFAULT_ENV / env=True / env=False; env_prefix 'APP' / False / from prog; "
                 "+ 3 relative patterns x 3 places of the input config x decoy beside it x 5 methods; + every sequence of <= 3 items over 5 atoms on a List[List[int]] key")
    sys.exit(h.finish(exhaustive=True, bound=bound))


def collect(h, results):
    accepted = 0
    glob_stats = {}
    for chunk, gstats in results:
        glob_stats[gstats.pop("pid")] = gstats  # cumulative per worker process: keep the last
        for sig, nontrivial, viols, sample in chunk:
            if viols:
                h.check(False, viols[0][0], viols[0][1], viols[0][2])
                for vkey, what, case in viols[1:]:
                    h.violation(vkey, what, case)
            else:
                h.check(True, sig)
                accepted += 1
            if nontrivial:
                h.nontrivial(sig)
            if nontrivial and not viols and len(h.samples) < 5 and h.evaluations % 1009 == 7:
                h.sample(sample)
    h.note("cases agreeing with the reference fold: %d" % accepted)
    srt = sum(g["sorted"] for g in glob_stats.values())
    h.note("glob layouts: the file system listed the files in an order different from the sorted one in %s" % (
        "every run" if not srt else "some runs only; in the others the listing was already sorted and the sortedness check is vacuous"))


if __name__ == "__main__":
    main()
