"""C16 bounded stand-in (b): the end-to-end clause through real parsers.

For every digraph over K class groups (K <= 3 quick / <= 4 thorough), every declaration order of the groups and two
declaration orders of the links:
  acyclic  -> parse_args([]) + instantiate_classes: every class constructed exactly once, every source constructed before
              every object it feeds, every linked parameter receives the source object (or compute_fn(attribute));
  cyclic   -> link_arguments raises ValueError exactly at the link that closes the first cycle.
Two target styles: class groups (add_class_arguments) and subclass arguments (add_subclass_arguments, init_args targets).
"""
import itertools
import sys
from typing import Any, Optional

from bounded.common import Harness, outcome, quiet

from jsonargparse import ArgumentParser

LOG = []


def make_classes(K):
    classes = []
    for idx in range(K):
        params = "".join(f", from_{s}: Any = None" for s in range(K) if s != idx)
        body = "".join(f"\n        self.from_{s} = from_{s}" for s in range(K) if s != idx)
        src = (
            f"class C{idx}:\n"
            f"    def __init__(self, own: int = {idx}{params}):\n"
            f"        self.own = own\n"
            f"        self.attr = 'attr{idx}'{body}\n"
            f"        LOG.append(self)\n"
        )
        ns = {"Any": Any, "LOG": LOG}
        exec(src, ns)
        cls = ns[f"C{idx}"]
        cls.__module__ = __name__
        globals()[f"C{idx}"] = cls
        classes.append(cls)
    return classes


def closes_cycle(edges_so_far, new):
    """True iff adding `new` to the acyclic edge list creates a cycle."""
    a, b = new
    if a == b:
        return True
    todo, seen = [b], set()
    while todo:
        v = todo.pop()
        if v == a:
            return True
        if v in seen:
            continue
        seen.add(v)
        todo.extend(t for s, t in edges_so_far if s == v)
    return False


def main():
    h = Harness("b16_links", rule="every digraph over K class groups (K<=3 quick / <=4 thorough) x every declaration order of the groups x 2 link orders x "
                "{whole-object link, attribute link through compute_fn} x {class groups, subclass arguments}; non-trivial = distinct "
                "(style, K, edge set, group order, link order) with >= 1 link")
    Kmax = 4 if h.thorough else 3
    for K in range(2, Kmax + 1):
        classes = make_classes(K)
        pairs = [(a, b) for a in range(K) for b in range(K) if a != b]
        group_orders = list(itertools.permutations(range(K)))
        if K == 4 and not h.thorough:
            group_orders = group_orders[:4]
        for mask in range(1, 2 ** len(pairs)):
            edges = [pairs[i] for i in range(len(pairs)) if mask >> i & 1]
            if len(edges) > 4 and K == 4:
                # bound: at most 4 links on 4 groups
                continue
            for gorder in group_orders:
                for lorder_name, ledges in (("fwd", edges), ("rev", list(reversed(edges)))):
                    for style in ("group", "subclass"):
                        for kind in ("object", "attr"):
                            if style == "subclass" and (kind == "attr" or lorder_name == "rev" or gorder != group_orders[0] and gorder != group_orders[-1]):
                                continue
                            run_case(h, classes, K, edges, ledges, gorder, lorder_name, style, kind)
    extra_cases(h)
    sys.exit(h.finish(exhaustive=True, bound=f"K <= {Kmax} class groups; all edge sets (<= 4 links when K = 4); all group declaration orders; 2 link orders"))


class Tok:
    def __init__(self, limit: "Optional[int]" = None, size: int = 3):
        self.limit = limit
        self.size = size
        LOG.append(self)


class Dec:
    def __init__(self, limit: "Optional[int]" = 16, width: int = 1):
        self.limit = limit
        self.width = width
        LOG.append(self)


def extra_cases(h):
    """(1) a linked source attribute whose value is None / 0 / '' still feeds the target;
    (2) a link added *after* a first instantiate_classes is honoured by the next one (nothing cached on the parser)."""
    from typing import Optional
    Tok.__init__.__annotations__["limit"] = Optional[int]
    Dec.__init__.__annotations__["limit"] = Optional[int]
    for style in ("group", "subclass"):
        for given, want in ((None, None), (0, 0), (32, 32)):
            parser = ArgumentParser(exit_on_error=False)
            if style == "group":
                parser.add_class_arguments(Tok, "tok")
                parser.add_class_arguments(Dec, "dec")
                tgt = "dec.limit"
            else:
                parser.add_subclass_arguments(Tok, "tok", default={"class_path": f"{__name__}.Tok"})
                parser.add_subclass_arguments(Dec, "dec", default={"class_path": f"{__name__}.Dec"})
                tgt = "dec.init_args.limit"
            parser.link_arguments("tok.limit", tgt, apply_on="instantiate")
            del LOG[:]
            argv = [] if given is None else [f"--tok.limit={given}" if style == "group" else f"--tok.init_args.limit={given}"]
            res = outcome(lambda: parser.instantiate_classes(parser.parse_args(argv)))
            key = f"links:attr-value:{style}:tok.limit={given!r}"
            if res[0] != "ok":
                h.check(False, key + ":failed", f"parse/instantiate failed: {res}", None)
                continue
            got = res[1]["dec"].limit
            h.check(got == want and type(got) is type(want), key, f"dec.limit = {got!r}, the source attribute tok.limit is {want!r}", {"style": style, "argv": argv})
            h.nontrivial(key)
    # (3) a link target nested inside a class group that is itself the source of another link (containment: the nested object must be built
    #     before its owner, and its own source before it)
    nested_target_cases(h)
    self_link_cases(h)


def self_link_cases(h):
    """(4) a link from a component into itself (tok.limit --> tok.size) is the shortest cycle: refused with ValueError on a parser without any
    other link, as the only source or as one of two sources, and the parser stays usable for a legal link afterwards."""
    for style in ("group", "subclass"):
        for sources in (("tok.limit",), ("dec.limit", "tok.limit")):
            parser = ArgumentParser(exit_on_error=False)
            if style == "group":
                parser.add_class_arguments(Tok, "tok")
                parser.add_class_arguments(Dec, "dec")
                tgt, other = "tok.size", "dec.width"
            else:
                parser.add_subclass_arguments(Tok, "tok", default={"class_path": f"{__name__}.Tok"})
                parser.add_subclass_arguments(Dec, "dec", default={"class_path": f"{__name__}.Dec"})
                tgt, other = "tok.init_args.size", "dec.init_args.width"
            key = f"links:self-link:{style}:{'+'.join(sources)}>{tgt}"
            res = outcome(lambda: parser.link_arguments(sources if len(sources) > 1 else sources[0], tgt, compute_fn=(lambda *a: 1), apply_on="instantiate"))
            h.check(res[0] == "exc" and res[1] == "ValueError", key + ":accepted" if res[0] == "ok" else key + ":" + str(res[1]), f"a link from a component into itself was not refused with ValueError: {res[:2]}", {"style": style, "sources": sources, "target": tgt})
            if res[0] == "exc":
                after = outcome(lambda: (parser.link_arguments("tok.limit", other, compute_fn=(lambda v: 2), apply_on="instantiate"), parser.instantiate_classes(parser.parse_args([])))[1])
                ok = after[0] == "ok" and after[1]["dec"].width == 2
                h.check(ok, key + ":parser-unusable-after-the-refusal", f"after the refused self link a legal link no longer works: {after[:3] if after[0] != 'ok' else 'wrong wiring'}", {"style": style})
            h.nontrivial(key)
    # (2) history: instantiate, add a link whose source is declared after its target, instantiate again
    classes = make_classes(3)
    for first, second in itertools.permutations([(0, 1), (2, 0), (2, 1), (1, 0)], 2):
        if closes_cycle([first], second) or first == second:
            continue
        parser = ArgumentParser(exit_on_error=False)
        for g in range(3):
            parser.add_class_arguments(classes[g], f"g{g}")
        key = f"links:history:{first[0]}>{first[1]}:then:{second[0]}>{second[1]}"
        a, b = first
        parser.link_arguments(f"g{a}", f"g{b}.from_{a}", apply_on="instantiate")
        r1 = outcome(lambda: parser.instantiate_classes(parser.parse_args([])))
        a2, b2 = second
        r_add = outcome(parser.link_arguments, f"g{a2}", f"g{b2}.from_{a2}", apply_on="instantiate")
        if r1[0] != "ok" or r_add[0] != "ok":
            h.check(False, key + ":failed", f"setup failed: {r1[:2]} {r_add[:2]}", None)
            continue
        del LOG[:]
        r2 = outcome(lambda: parser.instantiate_classes(parser.parse_args([])))
        if r2[0] != "ok":
            h.check(False, key + ":failed2", f"second instantiate failed: {r2[:2]}", None)
            continue
        pos = {type(o).__name__: i for i, o in enumerate(LOG)}
        ok = all(pos[f"C{x}"] < pos[f"C{y}"] for x, y in (first, second)) and getattr(r2[1][f"g{b2}"], f"from_{a2}") is r2[1][f"g{a2}"]
        h.check(ok, key, f"after adding the second link the construction order is {[type(o).__name__ for o in LOG]}", {"links": [first, second]})
        h.nontrivial(key)


class NB:
    def __init__(self, z: Any = 1):
        self.z = z
        LOG.append(self)


class NA:
    def __init__(self, b: NB = None, y: int = 5):
        self.b, self.y = b, y
        LOG.append(self)


class NS:
    def __init__(self, v0: int = 100):
        self.v = v0 + 1
        LOG.append(self)


class NT:
    def __init__(self, x: Any = 0):
        self.x = x
        LOG.append(self)


def nested_target_cases(h):
    NA.__init__.__annotations__["b"] = NB
    for name, links in (("source-feeds-nested-target;owner-feeds-another", [("s.v", "a.b.init_args.z"), ("a.y", "t.x")]), ("same-links-other-order", [("a.y", "t.x"), ("s.v", "a.b.init_args.z")]),
                        ("only-the-nested-target", [("s.v", "a.b.init_args.z")])):
        parser = ArgumentParser(exit_on_error=False)
        parser.add_class_arguments(NA, "a")
        parser.add_class_arguments(NS, "s")
        parser.add_class_arguments(NT, "t")
        key = f"links:nested-target-in-a-source-group:{name}"
        ok_links = all(outcome(parser.link_arguments, s_, t_, apply_on="instantiate")[0] == "ok" for s_, t_ in links)
        if not ok_links:
            h.check(False, key + ":rejected", "an acyclic set of links was rejected", {"links": links})
            continue
        del LOG[:]
        res = outcome(lambda: parser.instantiate_classes(parser.parse_args([f"--a.b={__name__}.NB"])))
        if res[0] != "ok":
            h.check(False, key + ":failed", f"instantiate_classes failed: {res[1:3]}", {"links": links})
            h.nontrivial(key)
            continue
        order = [type(o).__name__ for o in LOG]
        init = res[1]
        ok = order.index("NS") < order.index("NB") < order.index("NA") and init.a.b.z == 101 and (("a.y", "t.x") not in links or (order.index("NA") < order.index("NT") and init.t.x == 5))
        h.check(ok, key, f"construction order {order}, a.b.z={init.a.b.z!r}, t.x={init.t.x!r}", {"links": links})
        h.nontrivial(key)
    # a link from a group into an object nested in that same group is a cycle (the group needs the object, the object needs the group's attribute)
    parser = ArgumentParser(exit_on_error=False)
    parser.add_class_arguments(NA, "a")
    r = outcome(parser.link_arguments, "a.y", "a.b.init_args.z", apply_on="instantiate")
    h.check(r[0] == "exc" and r[1] == "ValueError", "links:nested-target-in-a-source-group:self-feeding-link-accepted", f"a link that makes a group feed an object nested in itself was not rejected: {r[:2]}", None)
    h.nontrivial("links:self-feeding")


def run_case(h, classes, K, edges, ledges, gorder, lorder_name, style, kind):
    key = f"links:{style}:{kind}:K{K}:{'+'.join(f'{a}>{b}' for a, b in ledges)}:order{''.join(map(str, gorder))}"
    parser = ArgumentParser(exit_on_error=False)
    for g in gorder:
        if style == "group":
            parser.add_class_arguments(classes[g], f"g{g}")
        else:
            parser.add_subclass_arguments(classes[g], f"g{g}", default={"class_path": f"{__name__}.C{g}"}, instantiate=True)
    added = []
    for a, b in ledges:
        src = f"g{a}" if kind == "object" else f"g{a}.attr"
        tgt = f"g{b}.from_{a}" if style == "group" else f"g{b}.init_args.from_{a}"
        fn = None if kind == "object" else (lambda v: "fn(" + v + ")")
        expect_cycle = closes_cycle(added, (a, b))
        res = outcome(parser.link_arguments, src, tgt, fn, apply_on="instantiate")
        if expect_cycle:
            h.check(res[0] == "exc" and res[1] == "ValueError", key + f":cycle@{a}>{b}", f"cycle-closing link was not rejected with ValueError: {res[:2]}", {"edges": ledges})
            # the rejection must leave the parser usable: the links accepted so far still hold, nothing of the refused one remains
            del LOG[:]
            after = outcome(lambda: parser.instantiate_classes(parser.parse_args([])))
            ok = after[0] == "ok"
            if ok:
                objs = {g: after[1][f"g{g}"] for g in range(K)}
                ok = all(((getattr(objs[y], f"from_{x}") is objs[x]) if kind == "object" else (getattr(objs[y], f"from_{x}") == "fn(attr%d)" % x)) for x, y in added) and getattr(objs[b], f"from_{a}") is None
            h.check(ok, f"links:after-refused-cycle:{style}:{kind}", f"after the refused link {a}>{b} the parser no longer works as before: {after[:3] if after[0] != 'ok' else 'wrong wiring'}", {"edges": ledges, "refused": (a, b)})
            h.nontrivial(key)
            return
        if res[0] != "ok":
            h.check(False, key + f":rejected@{a}>{b}", f"acyclic link rejected: {res}", {"edges": ledges})
            return
        added.append((a, b))
    del LOG[:]
    res = outcome(lambda: parser.instantiate_classes(parser.parse_args([])))
    if res[0] != "ok":
        h.check(False, key + ":failed", f"parse/instantiate failed: {res}", {"edges": ledges})
        return
    init = res[1]
    built = list(LOG)
    ok = sorted(type(o).__name__ for o in built) == sorted(f"C{g}" for g in range(K))
    h.check(ok, key + ":once", f"constructed {[type(o).__name__ for o in built]}, expected each class exactly once", {"edges": ledges})
    pos = {type(o).__name__: i for i, o in enumerate(built)}
    objs = {g: init[f"g{g}"] for g in range(K)}
    for a, b in added:
        ok = pos.get(f"C{a}", 99) < pos.get(f"C{b}", -1)
        h.check(ok, key + f":before:{a}>{b}", f"source C{a} was not constructed before C{b}: order {[type(o).__name__ for o in built]}", {"edges": ledges})
        got = getattr(objs[b], f"from_{a}", "<missing>")
        want_ok = (got is objs[a]) if kind == "object" else (got == "fn(attr%d)" % a)
        h.check(want_ok, key + f":value:{a}>{b}", f"C{b}.from_{a} = {got!r}", {"edges": ledges})
    # parameters that are not link targets keep their defaults
    for b in range(K):
        for a in range(K):
            if a != b and (a, b) not in added:
                h.check(getattr(objs[b], f"from_{a}") is None, key + f":untouched:{a}>{b}", "a non-linked parameter was fed", {"edges": ledges})
    h.nontrivial(key)
    if len(h.samples) < 4 and len(added) >= 2:
        h.sample({"style": style, "kind": kind, "group_order": gorder, "links": ledges, "constructed": [type(o).__name__ for o in built]})


if __name__ == "__main__":
    with quiet():
        pass
    main()
