"""C10 bounded stand-in: parse results are fixed points - re-parsing or validating changes nothing.

Contract on every parse method (parse_args, parse_object, parse_string, parse_path, parse_env; argv, --cfg file, --cfg
string and environment channels): for the configuration r it returns (exactly as returned, meta included)
    (a) P.validate(r) does not raise
    (b) snap(P.parse_object(copy of r)) == snap(r)          (a deep copy is handed over, so C08's in-place rewriting cannot interfere)
    (c) d1 = P.dump(r, skip_none=False); d2 = P.dump(P.parse_string(d1), skip_none=False); d1 == d2 byte for byte
        (with the default skip_none=True as well when no null of r sits where the default is not null)
snap is the typed structural snapshot of gen_d; the config-file action's own entry and meta keys are not compared.

Canonical keys  c10:<clause>:<what happened>:<leaf>   clause in validate | object | redump | redump-default-args
  object:<kind>:<leaf>              first difference between r and parse_object(r) (kind = old type > new type, or raises:<Exc>)
  redump:reparse-<Exc>:<leaf>       the dumped text could not be parsed back (this is C01's defect seen from C10)
  redump:<kind>:<leaf>              texts differ; kind/leaf = first difference between r and the re-parsed configuration
Sections: default:<...> prefixes the parser description for the defaults-not-normalised cases so that they can be told apart.
"""
import copy
import json
import os
import sys
import tempfile
from typing import Dict, List, Optional, Set, Tuple, Union

from bounded.common import Harness, outcome
from bounded.gen_d import (
    PICK,
    SHAPES,
    Built,
    Color,
    Recorder,
    build,
    first_diff,
    has_none_in_container,
    jsonable,
    leaf_label,
    make_files,
    make_types,
    none_paths,
    render_arg,
    run_units,
    select,
    short,
    snap,
)

import bounded.b01_roundtrip as b01
from bounded.b01_roundtrip import describe, msgsig, s0_leaf

from jsonargparse import ActionConfigFile, ActionParser, ArgumentParser
from jsonargparse.typing import Path_fr, PositiveInt

CHANNELS = ["obj", "string-json", "string-yaml", "path", "argv", "cfgfile", "cfgstr", "env"]


class Ctx:
    def __init__(self, rec, B, tname, default_label, mode, prefix=""):
        self.rec, self.B, self.tname, self.default_label, self.mode, self.prefix = rec, B, tname, default_label, mode, prefix
        self.n = 0

    def case(self, inp, extra=None):
        c = {"parser": f"shape={self.B.shape} type={self.tname} default={self.default_label} parser_mode={self.mode}", "input": inp}
        if extra:
            c.update(extra)
        return c


def yaml_text(obj):
    import yaml

    return yaml.safe_dump(obj, default_flow_style=False, allow_unicode=True, sort_keys=False)


def feed(cx, channel, v):
    """Send value v through a channel. Returns an outcome tuple, or None when the channel cannot carry this value."""
    B, p = cx.B, cx.B.parser
    if channel == "obj":
        return outcome(p.parse_object, B.wrap(v))
    if not jsonable(v):
        return None
    if channel in ("string-json", "string-yaml", "path", "cfgfile", "cfgstr"):
        tree = B.wrap(v)
        try:
            text = json.dumps(tree) if channel != "string-yaml" else yaml_text(tree)
        except Exception:  # noqa
            return None
        if channel.startswith("string"):
            return outcome(p.parse_string, text)
        if channel == "cfgstr":
            return outcome(p.parse_args, [f"--cfg={text}"])
        cx.n += 1
        fname = f"in{cx.n}.json"
        with open(fname, "w") as f:
            f.write(text)
        return outcome(p.parse_path, fname) if channel == "path" else outcome(p.parse_args, [f"--cfg={fname}"])
    if v is None:
        return None
    s = render_arg(v)
    if channel == "argv":
        args = B.argv(s) if B.argv else None
        return outcome(p.parse_args, args) if args is not None else None
    if channel == "env":
        if B.shape not in ("flat", "group") or "\x00" in s:
            return None
        return outcome(p.parse_env, {"T_A" if B.shape == "flat" else "T_G__A": s})
    raise ValueError(channel)


def mask(s):
    """Secrets are dumped as a mask on purpose: when the re-parsed configuration is compared (to name what changed), every
    secret counts as the same value."""
    if s[0] == "SecretStr":
        return ("SecretStr", "*")
    if s[0] == "ns":
        return ("ns", tuple((k, mask(v)) for k, v in s[1]))
    if s[0] == "dict":
        return ("dict", tuple((k, mask(v)) for k, v in s[1]))
    if s[0] in ("list", "tuple", "set"):
        return (s[0], tuple(mask(x) for x in s[1]))
    return s


def has_multi_set(s):
    if s[0] == "set":
        return len(s[1]) > 1 or any(has_multi_set(x) for x in s[1])
    if s[0] == "ns":
        return any(has_multi_set(v) for _, v in s[1])
    if s[0] == "dict":
        return any(has_multi_set(v) for _, v in s[1])
    if s[0] in ("list", "tuple"):
        return any(has_multi_set(x) for x in s[1])
    return False


def fixed_point_checks(cx: Ctx, r, inp, reparse=None):
    """The three clauses for one returned configuration r. `reparse(text)` parses dumped text (default parse_string)."""
    p, rec, pre = cx.B.parser, cx.rec, cx.prefix
    s_r = snap(r, drop=("cfg",))
    hint = leaf_label(s0_leaf(s_r, cx))
    r_for_dump = copy.deepcopy(r)
    # (a) validate
    res = outcome(p.validate, r)
    rec.check(res[0] == "ok", f"c10:{pre}validate:{res[1] if res[0] != 'ok' else ''}:{msgsig(res[2] if len(res) > 2 else '')}:{hint}", f"validate(result) failed: {res[1:]}", cx.case(inp))
    # (b) parse_object on a deep copy
    res = outcome(p.parse_object, copy.deepcopy(r))
    if res[0] != "ok":
        rec.check(False, f"c10:{pre}object:{'raises:' + res[1] if res[0] == 'exc' else 'exit'}:{msgsig(res[2] if len(res) > 2 else '')}:{hint}", f"parse_object(result) failed: {res[1:]}", cx.case(inp))
    else:
        d = first_diff(s_r, snap(res[1], drop=("cfg",)))
        rec.check(d is None, f"c10:{pre}object:{d[1]}:{leaf_label(d[2] if d[2] is not None else d[3])}" if d else "", f"parse_object(result) differs at {d[0] or '.'}: {d[2]!r} -> {d[3]!r}" if d else "", cx.case(inp))
    # (c) dump / re-parse / dump
    variants = [("redump", dict(skip_none=False))]
    dflt = outcome(p.get_defaults)
    if dflt[0] == "ok" and not has_none_in_container(s_r) and none_paths(s_r) <= none_paths(snap(dflt[1], drop=("cfg",))):
        variants.append(("redump-default-args", {}))
    first_kind = None
    for clause, kw in variants:
        d1 = outcome(p.dump, r_for_dump, **kw)
        if d1[0] != "ok":
            kind = f"dump-{d1[1]}:{msgsig(d1[2])}"
            if clause == "redump" or kind != first_kind:
                rec.check(False, f"c10:{pre}{clause}:{kind}", f"dump(result) failed: {d1[1:]}", cx.case(inp))
            else:
                rec.check(False, f"c10:{pre}redump:{kind}", "", cx.case(inp))
            first_kind = first_kind or kind
            continue
        back = outcome(reparse or p.parse_string, d1[1])
        if back[0] != "ok":
            bad = describe(s_r, back, "yaml" if cx.mode == "yaml" else "json", hint)
            kind = "reparse-" + bad[0].replace("raises:", "")
            rec.check(False, f"c10:{pre}{'redump' if kind == first_kind else clause}:{kind}", f"the dumped text cannot be parsed back: {back[1:]}", cx.case(inp, {"dump": d1[1][:300]}))
            first_kind = first_kind or kind
            continue
        s_back = mask(snap(back[1], drop=("cfg",)))  # before dumping it: dump rewrites containers below tuples in place (C08)
        d2 = outcome(p.dump, back[1], **kw)
        ok = d2[0] == "ok" and d2[1] == d1[1]
        key = ""
        if not ok and d2[0] == "ok" and s_back == mask(s_r) and has_multi_set(s_r):
            # equal configurations whose texts differ while a set with several members is present: sets are unordered, the order
            # in which their members are written is not covered by the statement - not asserted, only counted
            rec.count("set-order-only")
            continue
        if not ok:
            d = first_diff(mask(s_r), s_back)
            kind = f"{d[1]}:{leaf_label(d[2] if d[2] is not None else d[3])}" if d else ("text-only:" + hint if d2[0] == "ok" else f"second-dump-{d2[1]}:{hint}")
            key = f"c10:{pre}{'redump' if kind == first_kind else clause}:{kind}"
            first_kind = first_kind or kind
        rec.check(ok, key, f"dump(parse(dump(r))) != dump(r): {d1[1][:150]!r} vs {str(d2[1])[:150]!r}", cx.case(inp, {"dump": d1[1][:300]}))
    return s_r


# ------------------------------------------------------------------------------------------------ grid
def grid_unit(unit):
    section, shape, mode, subset, lo, hi, thorough, maxdepth = unit
    rec = Recorder()
    old = os.getcwd()
    with tempfile.TemporaryDirectory() as td:
        os.chdir(td)
        try:
            make_files()
            types = select(make_types(thorough, maxdepth), subset)[lo:hi]
            for ts in types:
                if "SecretStr" in ts.name and "Set[" in ts.name:
                    continue  # two different secrets are both dumped as the mask on purpose; as set members they then collapse
                for dlabel in ("none", "canon"):
                    default = None if dlabel == "none" else ts.canon
                    if dlabel == "canon" and (default is None or shape == "positional"):
                        continue
                    if dlabel == "canon" and not thorough and (ts.depth >= 2 or ts.depth == 1 and ts.name not in PICK or shape != "flat"):
                        continue
                    try:
                        B = build(shape, ts, default, mode, env=True)
                    except Exception as ex:  # noqa
                        rec.count("parser-not-built")
                        continue
                    cx = Ctx(rec, B, ts.name, dlabel, mode)
                    full = shape == "flat" and (ts.depth <= 1 or thorough)
                    vals = ts.vals if full else ts.core
                    channels = CHANNELS if (shape == "flat" and ts.depth <= 1) or thorough else ["obj", "string-yaml", "argv", "cfgfile"]
                    seen = set()
                    for v in vals:
                        for ch in channels:
                            res = feed(cx, ch, v)
                            if res is None:
                                continue
                            if res[0] != "ok":
                                rec.count("rejected")
                                continue
                            rec.count("accepted")
                            r = res[1]
                            s_r = snap(r, drop=("cfg",))
                            # the same configuration reached through another channel is the same case - but keep one per channel class
                            # (results that carry meta differ from those that do not)
                            sig = (s_r, ch in ("cfgfile", "cfgstr", "path"))
                            if sig in seen:
                                continue
                            seen.add(sig)
                            rec.nontrivial(f"{shape}:{mode}:{ts.name}:{dlabel}:{'meta' if sig[1] else 'plain'}:{short(s0_leaf(s_r, cx), limit=60)}")
                            fixed_point_checks(cx, r, [ch, v])
                            if len(rec.samples) < 1 and ts.depth >= 1:
                                rec.sample({"shape": shape, "type": ts.name, "channel": ch, "input": repr(v)[:80]})
        finally:
            os.chdir(old)
    return rec


# ------------------------------------------------------------------------------------------------ special sections
def special_units(thorough):
    n = len(b01.focus_cases(thorough))
    focus = [("focus", i, thorough) for i in range(n) if not b01.focus_cases(thorough)[i][0].startswith("dictdefault") or i % 9 == 0]
    return focus + [("relpath", 0, thorough), ("meta", 0, thorough), ("defaults", 0, thorough), ("dict_kwargs", 0, thorough)]


def special_unit(unit):
    kind, idx, thorough = unit
    rec = Recorder()
    old = os.getcwd()
    with tempfile.TemporaryDirectory() as td:
        os.chdir(td)
        try:
            if kind == "focus":
                focus_case(rec, idx, thorough)
            elif kind == "relpath":
                relpath_cases(rec)
            elif kind == "meta":
                meta_cases(rec)
            elif kind == "dict_kwargs":
                dict_kwargs_cases(rec)
            else:
                default_cases(rec)
        finally:
            os.chdir(old)
    return rec


def focus_case(rec, idx, thorough):
    """The parsers of b01's focused cases (subcommands, nested dataclasses, subclass specs, callables, help texts)."""
    label, b, inputs = b01.focus_cases(thorough)[idx]
    p = ArgumentParser(exit_on_error=False, prog="app")
    b(p)
    B = Built(p, label, lambda v: v, lambda a: a, "")
    cx = Ctx(rec, B, "-", "-", "yaml")
    seen = set()
    for ch, v in inputs:
        res = outcome(p.parse_object, v) if ch == "obj" else outcome(p.parse_args, v)
        vars(p).pop("print_config", None)
        if res[0] != "ok":
            rec.count("rejected")
            continue
        rec.count("accepted")
        s_r = snap(res[1], drop=("cfg",))
        if s_r in seen:
            continue
        seen.add(s_r)
        rec.nontrivial(f"focus:{label}:{short(v, limit=90)}")
        fixed_point_checks(cx, res[1], [ch, v])
        # the same settings through a config file (result carries meta)
        if ch == "obj" and jsonable(v):
            with open("in.json", "w") as f:
                json.dump(v, f)
            res = outcome(p.parse_args, ["--cfg=in.json"])
            if res[0] == "ok":
                rec.nontrivial(f"focus:{label}:cfgfile:{short(v, limit=90)}")
                fixed_point_checks(cx, res[1], ["cfgfile", v])


def relpath_cases(rec):
    """Relative paths given inside a config file that lives in another directory: the result must stay a fixed point, also
    after the process moved to another working directory."""
    os.makedirs("sub/deeper", exist_ok=True)
    os.makedirs("elsewhere", exist_ok=True)
    for n in ("only_in_sub.txt", "123", "deeper/x.txt"):
        with open(os.path.join("sub", n), "w") as f:
            f.write("1\n2\n")
    p = ArgumentParser(exit_on_error=False, prog="app")
    p.add_argument("--cfg", action=ActionConfigFile)
    p.add_argument("--p", type=Optional[Path_fr], default=None)
    p.add_argument("--l", type=List[Path_fr], default=[])
    p.add_argument("--d", type=Dict[str, Path_fr], default={})
    p.add_argument("--u", type=Union[Path_fr, int], default=1)
    p.add_argument("--t", type=Tuple[Path_fr, str], default=None)
    B = Built(p, "relpath:config-in-subdir", lambda v: v, None, "")
    cx = Ctx(rec, B, "-", "-", "yaml")
    configs = {
        "one": {"p": "only_in_sub.txt"}, "list": {"l": ["only_in_sub.txt", "deeper/x.txt", "123"]}, "dict": {"d": {"k": "deeper/x.txt"}}, "union": {"u": "123"}, "tuple": {"t": ["deeper/x.txt", "x"]},
        "all": {"p": "123", "l": ["deeper/x.txt"], "d": {"a.b": "only_in_sub.txt"}, "u": "only_in_sub.txt", "t": ["123", "123"]},
    }
    top = os.getcwd()
    for name, tree in configs.items():
        with open(f"sub/{name}.yaml", "w") as f:
            f.write(yaml_text(tree))
        for where in ("same-cwd", "moved-cwd"):
            res = outcome(p.parse_args, [f"--cfg=sub/{name}.yaml"])
            if res[0] != "ok":
                rec.check(False, f"c10:relpath:setup:{name}", f"a relative path next to its config file was rejected: {res[1:]}", {"config": tree})
                continue
            rec.count("accepted")
            rec.nontrivial(f"relpath:{name}:{where}")
            if where == "moved-cwd":
                os.chdir("elsewhere")

            def reparse(text, n=[0]):
                # the dumped text is read from the directory the original config lived in (relative paths follow the config)
                n[0] += 1
                fn = os.path.join(top, "sub", f"again{n[0]}.yaml")
                with open(fn, "w") as f:
                    f.write(text)
                return p.parse_path(fn)
            cx.prefix = f"relpath:{where}:"
            try:
                fixed_point_checks(cx, res[1], ["cfgfile", f"sub/{name}.yaml", tree], reparse=reparse)
            finally:
                os.chdir(top)
    # a rejected case so that the section is not vacuous
    res = outcome(p.parse_args, ["--p=only_in_sub.txt"])
    rec.count("rejected" if res[0] != "ok" else "accepted")


def meta_cases(rec):
    """Results that carry __path__ / __orig__ metadata of nested config files."""
    ME = b01.ME
    os.makedirs("src", exist_ok=True)
    texts = {"plain": "s: y\nn: 2\n", "tricky": "s: '1e1x'\nn: null\n", "nullish": "s: 'null'\n", "multi": "s: \"a\\nb: 1\"\nn: 3\n"}
    for name, text in texts.items():
        for suffix in ("", "_in"):
            with open(f"src/{name}{suffix}.yaml", "w") as f:
                f.write(text)
        with open(f"src/main_{name}.yaml", "w") as f:
            f.write(f"top: '1:30'\nd: {name}.yaml\nin: {name}_in.yaml\n")
    with open("src/sub.yaml", "w") as f:
        f.write(f"class_path: {ME}.Sub\ninit_args:\n  r: 3.5\n  q: '~'\n")
    p = ArgumentParser(exit_on_error=False, prog="app")
    p.add_argument("--cfg", action=ActionConfigFile)
    p.add_argument("--top", type=Optional[str], default=None)
    p.add_argument("--d", type=b01.Inner, default=b01.Inner())
    ip = ArgumentParser(exit_on_error=False)
    ip.add_argument("--s", type=str, default="1e1x")
    ip.add_argument("--n", type=Optional[int], default=None)
    p.add_argument("--in", action=ActionParser(parser=ip))
    p.add_argument("--b", type=Optional[b01.Base], default=None)
    B = Built(p, "meta:nested-config-files", lambda v: v, None, "")
    cx = Ctx(rec, B, "-", "-", "yaml")
    for name in texts:
        for args in ([f"--d=src/{name}.yaml"], [f"--in=src/{name}.yaml"], [f"--cfg=src/main_{name}.yaml"], [f"--d=src/{name}.yaml", "--d.n=7", "--b=src/sub.yaml"], [f"--cfg=src/main_{name}.yaml", "--in.s=over"]):
            for with_meta in (True, False):
                res = outcome(p.parse_args, args, with_meta=with_meta)
                if res[0] != "ok":
                    rec.count("rejected")
                    continue
                rec.count("accepted")
                rec.nontrivial(f"meta:{name}:{with_meta}:{' '.join(args)}")
                cx.prefix = "meta:"
                fixed_point_checks(cx, res[1], ["argv", args, {"with_meta": with_meta}])


def default_cases(rec):
    """Defaults written in a form that a parse would normalise (int for float, list for tuple, str for path/enum ...):
    the result of parsing nothing must already be the fixed point."""
    import dataclasses
    import datetime
    import decimal

    make_files()

    @dataclasses.dataclass
    class DF:
        x: float = 1
        t: Tuple[int, int] = (1, 2)
        lf: List[float] = dataclasses.field(default_factory=lambda: [1, 2])

    DF.__module__, DF.__qualname__ = __name__, "DF"
    globals()["DF"] = DF
    cases = [
        ("float=1", float, 1), ("Optional[float]=1", Optional[float], 1), ("Union[int,float]=1.0", Union[int, float], 1.0), ("List[float]=[1,2]", List[float], [1, 2]), ("Tuple[int,int]=[1,2]", Tuple[int, int], [1, 2]),
        ("Tuple[int,...]=[1]", Tuple[int, ...], [1]), ("Set[int]=[1,2]", Set[int], [1, 2]), ("Dict[int,str]={'1':'a'}", Dict[int, str], {"1": "a"}), ("Dict[str,float]={'k':1}", Dict[str, float], {"k": 1}),
        ("Path_fr='f.txt'", Path_fr, "f.txt"), ("Optional[Path_fr]='f.txt'", Optional[Path_fr], "f.txt"), ("List[Path_fr]=['f.txt']", List[Path_fr], ["f.txt"]), ("Color='red'", Color, "red"), ("Color=Color.red", Color, Color.red),
        ("List[Color]=['red']", List[Color], ["red"]), ("List[Color]=[Color.red]", List[Color], [Color.red]), ("PositiveInt=3", PositiveInt, 3), ("List[PositiveInt]=[3]", List[PositiveInt], [3]),
        ("timedelta='1:00:00'", datetime.timedelta, "1:00:00"), ("Decimal=0.5", decimal.Decimal, 0.5), ("int='1'", int, "1"), ("bool='true'", bool, "true"), ("dataclass DF(x: float = 1, t=(1,2), lf=[1,2])", DF, DF()),
        ("Optional[DF]=DF()", Optional[DF], DF()),
    ]
    for label, hint, dflt in cases:
        for style in ("add_argument", "function-signature"):
            p = ArgumentParser(exit_on_error=False, prog="app")
            p.add_argument("--cfg", action=ActionConfigFile)
            try:
                if style == "add_argument":
                    p.add_argument("--a", type=hint, default=dflt)
                else:
                    def fn(a=dflt):
                        pass
                    fn.__annotations__ = {"a": hint}
                    p.add_function_arguments(fn)
            except Exception:  # noqa
                rec.count("parser-not-built")
                continue
            B = Built(p, f"default:{style}", lambda v: v, None, "a")
            cx = Ctx(rec, B, label, "-", "yaml", prefix=f"default:{label}:")
            for ch, feedfn in (("argv", lambda: p.parse_args([])), ("obj", lambda: p.parse_object({})), ("string", lambda: p.parse_string("{}"))):
                res = outcome(feedfn)
                if res[0] != "ok":
                    rec.count("rejected")
                    continue
                rec.count("accepted")
                rec.nontrivial(f"default:{label}:{style}:{ch}")
                fixed_point_checks(cx, res[1], [ch, "no settings"])


class KW:
    def __init__(self, x: int = 0, **kw):
        pass


def dict_kwargs_cases(rec):
    """A class taking **kwargs whose declared default already carries dict_kwargs: a result that gives other dict_kwargs is a fixed point like any other."""
    cp = __name__ + ".KW"
    for label, dflt in (("default-with-dict_kwargs", {"class_path": cp, "dict_kwargs": {"d": 1}}), ("default-without-dict_kwargs", {"class_path": cp}), ("no-default", None)):
        p = ArgumentParser(exit_on_error=False, prog="app")
        p.add_argument("--cfg", action=ActionConfigFile)
        p.add_argument("--a", type=KW, **({} if dflt is None else {"default": dflt}))
        B = Built(p, "dict_kwargs:" + label, lambda v: v, None, "a")
        cx = Ctx(rec, B, "class-with-**kwargs", "-", "yaml", prefix=f"dict_kwargs:{label}:")
        given = {"a": {"class_path": cp, "dict_kwargs": {"e": 2}}}
        for ch, feedfn in (("argv", lambda: p.parse_args(["--a=" + cp, "--a.dict_kwargs.e=2"])), ("obj", lambda: p.parse_object(copy.deepcopy(given))), ("string", lambda: p.parse_string(json.dumps(given)))):
            res = outcome(feedfn)
            if res[0] != "ok":
                rec.count("rejected")
                continue
            rec.count("accepted")
            rec.nontrivial(f"dict_kwargs:{label}:{ch}")
            fixed_point_checks(cx, res[1], [ch, given])


def any_unit(unit):
    return special_unit(unit) if unit[0] in ("focus", "relpath", "meta", "defaults", "dict_kwargs") else grid_unit(unit)


def main():
    h = Harness("b10_fixedpoint", rule="parsers = shape x type of G(d) x default in {None, a normalised value}; results = every distinct configuration returned for the per-type value sets "
                "through the channels parse_object / parse_string (json, yaml) / parse_path / argv / --cfg file / --cfg string / parse_env; one evaluation = one clause "
                "(validate, parse_object, dump-reparse-dump with skip_none=False, the same with default arguments) on one result; non-trivial = distinct (shape, type, default, "
                "meta or not, resulting leaf value)")
    thorough = h.thorough
    D = 3 if thorough else 2
    alltypes = make_types(thorough, D)
    units = []

    def add(shape, mode, subset, st=8):
        n = len(select(alltypes, subset))
        for lo in range(0, n, st):
            units.append(("grid", shape, mode, subset, lo, min(n, lo + st), thorough, D))

    add("flat", "yaml", "all", st=6 if not thorough else 12)
    for shape in SHAPES[1:]:
        add(shape, "yaml", "d1" if thorough else ("few" if shape.startswith("subclass") else "pick"), st=3 if shape.startswith("subclass") else 6)
    add("flat", "json", "pick" if not thorough else "d1", st=6)
    if thorough:
        add("dataclass", "json", "pick")
    totals = run_units(h, any_unit, units + special_units(thorough))
    h.note(f"inputs accepted {totals.get('accepted', 0)}, rejected {totals.get('rejected', 0)}, parsers not built {totals.get('parser-not-built', 0)}; "
           f"{totals.get('set-order-only', 0)} re-dumps differed only in the order of set members (not asserted)")
    h.check(totals.get("accepted", 0) > 0 and totals.get("rejected", 0) > 0, "c10:vacuity", "both accepted and rejected inputs must occur", totals)
    if h.only:  # replay: report only the requested key (exit status 1 iff it still fails)
        h.violations = [v for v in h.violations if v["key"] == h.only]
        h.viol_keys = {v["key"] for v in h.violations}
    if len(h.viol_keys) > len(h.violations):
        stored = {v["key"] for v in h.violations}
        h.note(f"{len(h.viol_keys)} distinct violation keys, only {len(h.violations)} stored; the others: " + " | ".join(sorted(h.viol_keys - stored)))
    sys.exit(h.finish(exhaustive=True, bound=f"type grammar depth <= {D} ({len(alltypes)} types, all in the flat shape; {'depth <= 1' if thorough else 'leaves + 37 representative depth-1 types'} in the other "
                      f"{len(SHAPES) - 1} shapes), value sets of gen_d, 8 channels (all 8 for depth <= 1 in the flat shape, 4 elsewhere" + (" - all 8 everywhere in this tier" if thorough else "") + "), parser modes yaml/json; special sections: b01's focused parsers (subcommands, nested dataclasses, subclass specs, callables), relative paths through a "
                      "config in a sub-directory (also after chdir), nested config files with and without meta, 24 defaults written in non-normalised form x 2 declaration styles"))


if __name__ == "__main__":
    main()
