"""C16 bounded stand-in (a): the DirectedGraph / reorder contracts evaluated at run time on every small digraph.

quick:    every loop-free digraph on <= 4 nodes (2^12 edge sets) x 2 insertion orders, plus every single self-loop placement
thorough: every loop-free digraph on <= 5 nodes (2^20 edge sets), plus self-loops
Oracle: an independent cycle test (Kahn) and a direct check of "permutation with every edge forward".
Also covers termination (not proved by the VC tier) on these sizes.
"""
import itertools
import sys

from bounded.common import Harness, outcome

from jsonargparse._link_arguments import ActionLink, DirectedGraph


def has_cycle(n, edges):
    indeg = [0] * n
    for a, b in edges:
        indeg[b] += 1
    todo = [v for v in range(n) if indeg[v] == 0]
    seen = 0
    adj = {v: [b for a, b in edges if a == v] for v in range(n)}
    while todo:
        v = todo.pop()
        seen += 1
        for b in adj[v]:
            indeg[b] -= 1
            if indeg[b] == 0:
                todo.append(b)
    return seen != n


def wf(graph):
    nodes = graph.nodes
    if len(set(nodes)) != len(nodes):
        return False, "duplicate nodes"
    for u, targets in graph.edges_dict.items():
        if not (0 <= u < len(nodes)):
            return False, "adjacency key out of range"
        if len(set(targets)) != len(targets):
            return False, "duplicate targets"
        if any(not (0 <= t < len(nodes)) for t in targets):
            return False, "target index out of range"
    return True, ""


def edge_set(graph):
    return {(graph.nodes[u], graph.nodes[t]) for u, ts in graph.edges_dict.items() for t in ts}


def main():
    h = Harness("b16_graph", rule="every digraph on <= N nodes (N=4 quick / 5 thorough) built through the real add_edge in two insertion orders; "
                "non-trivial = distinct (node count, edge set) with at least one edge; contracts: add_edge (wf, E' = E + {(s,t)}, old nodes stay a prefix), "
                "get_topological_order (permutation + every edge forward, or ValueError iff cyclic), reorder (stable grouping by order)")
    N = 5 if h.thorough else 4
    names = ["a", "b.c", "d", "e.f.g", "h"]

    # run-time contract on add_edge (the twin of the VC-tier contract)
    def add_old(self, source, target):
        return (list(self.nodes), edge_set(self))

    def add_post(snap, result, exc, self, source, target):
        if exc is not None:
            return False, f"add_edge raised {exc!r}", "raises"
        nodes0, e0 = snap
        ok, why = wf(self)
        if not ok:
            return False, "wf broken: " + why, "wf"
        if self.nodes[: len(nodes0)] != nodes0:
            return False, "old nodes are not a prefix", "prefix"
        if edge_set(self) != e0 | {(source, target)}:
            return False, f"edge set {edge_set(self)} != old + {(source, target)}", "edges"
        return True, "", ""

    h.install(DirectedGraph, "add_edge", "DirectedGraph.add_edge", old=add_old, post=add_post)

    def topo_post(snap, result, exc, self):
        n = len(self.nodes)
        edges = [(u, t) for u, ts in self.edges_dict.items() for t in ts]
        cyc = has_cycle(n, edges)
        if exc is not None:
            if not isinstance(exc, ValueError):
                return False, f"raised {type(exc).__name__}", "raises-other"
            return cyc, "ValueError on an acyclic graph", "false-cycle"
        if cyc:
            return False, "cyclic graph was ordered", "missed-cycle"
        if sorted(map(str, result)) != sorted(map(str, self.nodes)) or len(result) != n:
            return False, "result is not a permutation of the nodes", "perm"
        pos = {v: i for i, v in enumerate(result)}
        for u, t in edges:
            if not pos[self.nodes[u]] < pos[self.nodes[t]]:
                return False, f"edge {self.nodes[u]}->{self.nodes[t]} goes backward", "backward"
        return True, "", ""

    h.install(DirectedGraph, "get_topological_order", "DirectedGraph.get_topological_order", post=topo_post)

    total = 0
    for n in range(1, N + 1):
        pairs = [(a, b) for a in range(n) for b in range(n) if a != b]
        for mask in range(1, 2 ** len(pairs)):
            edges = [pairs[i] for i in range(len(pairs)) if mask >> i & 1]
            # only graphs that use all n nodes are new at this n
            if len({x for e in edges for x in e}) != n:
                continue
            for variant, seq in (("fwd", edges), ("rev", list(reversed(edges)))):
                if variant == "rev" and (n == N and h.thorough):
                    continue
                g = DirectedGraph()
                for a, b in seq:
                    g.add_edge(names[a], names[b])
                res = outcome(g.get_topological_order)
                total += 1
            h.nontrivial((n, mask))
            if mask % 997 == 1:
                h.sample({"nodes": n, "edges": edges, "result": res[:2] if res[0] != "ok" else res[1]})
        # self loops: one self loop added to a path graph at each position
        for s in range(n):
            g = DirectedGraph()
            for a in range(n - 1):
                g.add_edge(names[a], names[a + 1])
            g.add_edge(names[s], names[s])
            res = outcome(g.get_topological_order)
            h.check(res[0] == "exc" and res[1] == "ValueError", f"self-loop:{n}:{s}", "self loop not reported as a cycle", {"n": n, "s": s})
            h.nontrivial(("self", n, s))

    # ---- reorder: twin of the contract, exhaustive over small inputs
    class Comp:
        def __init__(self, dest):
            self.dest = dest

        def __repr__(self):
            return self.dest

    keys = ["a", "a.b", "ab", "c"]
    dests = ["a", "a.b", "a.b.c", "ab", "c", "d"]

    def claims(key, comp):
        return comp.dest == key or comp.dest.startswith(key + ".")

    for order_len in range(0, 3):
        for order in itertools.permutations(keys, order_len):
            for clen in range(0, 4 if not h.thorough else 5):
                for comps in itertools.permutations(dests, clen):
                    components = [Comp(d) for d in comps]
                    res = outcome(ActionLink.reorder, list(order), list(components))
                    key = f"reorder:{','.join(order)}:{','.join(comps)}"
                    if res[0] != "ok":
                        h.check(False, key, f"reorder raised {res}", None)
                        continue
                    out = res[1]
                    ok = len(out) == len(components) and {id(c) for c in out} == {id(c) for c in components}

                    def first_claim(c):
                        for i, k in enumerate(order):
                            if claims(k, c):
                                return i
                        return len(order)

                    ranks = [first_claim(c) for c in out]
                    ok = ok and ranks == sorted(ranks)
                    # stable within the same claimant
                    for r in set(ranks):
                        same_out = [c for c in out if first_claim(c) == r]
                        same_in = [c for c in components if first_claim(c) == r]
                        ok = ok and [id(c) for c in same_out] == [id(c) for c in same_in]
                    h.check(ok, key, "reorder result is not the stable grouping of components by first claiming key", {"order": order, "components": comps, "result": [c.dest for c in out]})
                    if order and comps:
                        h.nontrivial(key)
    h.sample({"graphs_run": total})
    sys.exit(h.finish(exhaustive=True, bound=f"all digraphs with <= {N} nodes; reorder: order <= 2 keys of {keys}, <= {4 if h.thorough else 3} components of {dests}"))


if __name__ == "__main__":
    main()
