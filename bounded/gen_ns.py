"""Reference model + helpers for the C11 harness (b11_namespace.py).

The reference is written from the property statement only: a *nested dictionary addressed step by step*.
  MB (a dict subclass)  = a branch (what a Namespace is);   every other value = a leaf value.
  A dotted key k1.k2.k3 means exactly what node[k1][k2][k3] means on nested mappings; a plain dict stored as a value is a
  leaf for items/keys/values (it is one value) but, being a mapping, it can be addressed step by step like a branch.
Nothing in this file calls a dotted-key method of jsonargparse.Namespace.
"""
import hashlib

from jsonargparse import Namespace

MARK = "\u200b"
MISSING = type("Missing", (), {"__repr__": lambda s: "<MISSING>"})()
CLASH = ("items", "keys", "get", "update", "pop", "clone", "values", "as_dict")
DICT_ONLY_ATTRS = ("copy", "clear", "fromkeys", "popitem", "setdefault")


class MB(dict):
    """model branch"""
    __slots__ = ()


class NS:
    """value spec: 'a Namespace with these entries' (built freshly for the real object and for the model)"""
    def __init__(self, **kw):
        self.kw = kw

    def __repr__(self):
        return "NS(" + ", ".join(f"{k}={v!r}" for k, v in self.kw.items()) + ")"


# ------------------------------------------------------------------ value construction
def mk_real(spec):
    if isinstance(spec, NS):
        n = Namespace()
        for k, v in spec.kw.items():
            n[k] = mk_real(v)  # single-segment public assignment
        return n
    if isinstance(spec, dict):
        return {k: mk_real(v) for k, v in spec.items()}
    if isinstance(spec, list):
        return [mk_real(v) for v in spec]
    if isinstance(spec, tuple):
        return tuple(mk_real(v) for v in spec)
    return spec


def mk_model(spec):
    if isinstance(spec, NS):
        return MB((k, mk_model(v)) for k, v in spec.kw.items())
    if isinstance(spec, dict):
        return {k: mk_model(v) for k, v in spec.items()}
    if isinstance(spec, list):
        return [mk_model(v) for v in spec]
    if isinstance(spec, tuple):
        return tuple(mk_model(v) for v in spec)
    return spec


def spec_src(spec):
    """python source that rebuilds the value (for reproducers)"""
    if isinstance(spec, NS):
        return "Namespace(**{" + ", ".join(f"{k!r}: {spec_src(v)}" for k, v in spec.kw.items()) + "})"
    if isinstance(spec, dict):
        return "{" + ", ".join(f"{k!r}: {spec_src(v)}" for k, v in spec.items()) + "}"
    if isinstance(spec, list):
        return "[" + ", ".join(spec_src(v) for v in spec) + "]"
    if isinstance(spec, tuple):
        return "(" + ", ".join(spec_src(v) for v in spec) + ("," if len(spec) == 1 else "") + ")"
    return repr(spec)


# ------------------------------------------------------------------ looking at the real object
def unmark(k):
    return k[1:] if isinstance(k, str) and k.startswith(MARK) else k


def raw(x):
    """Abstraction of the stored object graph (used to copy/dedup states and to resynchronise after a violation)."""
    if isinstance(x, Namespace):
        return MB((unmark(k), raw(v)) for k, v in x.__dict__.items())
    if isinstance(x, dict):
        return {k: raw(v) for k, v in x.items()}
    if isinstance(x, list):
        return [raw(v) for v in x]
    if isinstance(x, tuple):
        return tuple(raw(v) for v in x)
    return x


def rawcopy(x):
    """Structural copy of a real value that does not go through any Namespace method."""
    if isinstance(x, Namespace):
        n = Namespace()
        d = n.__dict__
        for k, v in x.__dict__.items():
            d[k] = rawcopy(v)
        return n
    if isinstance(x, dict):
        return {k: rawcopy(v) for k, v in x.items()}
    if isinstance(x, list):
        return [rawcopy(v) for v in x]
    if isinstance(x, tuple):
        return tuple(rawcopy(v) for v in x)
    return x


def pubview(ns):
    """The nested view as published by items(branches=True): MB tree whose leaves are the real leaf objects.
    Returns None when the published items do not form a tree."""
    root = MB()
    try:
        for k, v in ns.items(branches=True):
            path = k.split(".")
            node = root
            for seg in path[:-1]:
                node = node[seg]
                if type(node) is not MB:
                    return None
            if path[-1] in node:
                return None
            node[path[-1]] = MB() if isinstance(v, Namespace) else v
    except Exception:  # noqa
        return None
    # non-empty published branches must be the ones that have children; empty ones are Namespace()
    return root


_SCALAR = (int, str, float, type(None), bool)


def eqv(a, b):
    """typed equality of a real value and a reference value (loose only about mapping kinds inside dict values)"""
    if type(b) in _SCALAR:
        return type(a) is type(b) and a == b
    return norm(a, True) == norm(b, True)


def norm(x, loose=False, _in_dict=False):
    """Typed, order-insensitive canonical form. Namespace and MB are the same thing ('B'). With loose=True a mapping that
    sits *inside a dict value* is 'M' whether it is a dict or a branch (the statement does not say which it must be)."""
    t = type(x)
    if t in _SCALAR:
        return (t.__name__, repr(x))
    if isinstance(x, Namespace):
        x = MB((unmark(k), v) for k, v in x.__dict__.items())
    if type(x) is MB:
        tag = "M" if (loose and _in_dict) else "B"
        return (tag, tuple(sorted(((repr(k), norm(v, loose, _in_dict)) for k, v in x.items()))))
    if isinstance(x, dict):
        tag = "M" if (loose and _in_dict) else "D"
        return (tag, tuple(sorted(((repr(k), norm(v, loose, True)) for k, v in x.items()))))
    if isinstance(x, list):
        return ("L", tuple(norm(v, loose, _in_dict) for v in x))
    if isinstance(x, tuple):
        return ("T", tuple(norm(v, loose, _in_dict) for v in x))
    return (type(x).__name__, repr(x))


def digest(x):
    return int.from_bytes(hashlib.blake2b(repr(norm(x)).encode(), digest_size=8).digest(), "big")


def tainted(m):
    """A marked key became visible as data (consequence of an already reported defect)."""
    if isinstance(m, dict):
        return any((isinstance(k, str) and k.startswith(MARK)) or tainted(v) for k, v in m.items())
    if isinstance(m, (list, tuple)):
        return any(tainted(v) for v in m)
    return False


# ------------------------------------------------------------------ the reference model
def mcopy(m):
    if type(m) is MB:
        return MB((k, mcopy(v)) for k, v in m.items())
    if isinstance(m, dict):
        return {k: mcopy(v) for k, v in m.items()}
    if isinstance(m, list):
        return [mcopy(v) for v in m]
    if isinstance(m, tuple):
        return tuple(mcopy(v) for v in m)
    return m


def m_lookup(m, path):
    node = m
    for seg in path:
        if isinstance(node, dict) and seg in node:
            node = node[seg]
        else:
            return MISSING
    return node


def m_set(m, path, value):
    node = m
    for seg in path[:-1]:
        child = node.get(seg, MISSING)
        if not isinstance(child, dict):
            child = MB()
            node[seg] = child
        node = child
    node[path[-1]] = value


def m_del(m, path):
    """-> True if deleted, False if absent"""
    parent = m_lookup(m, path[:-1])
    if isinstance(parent, dict) and path[-1] in parent:
        del parent[path[-1]]
        return True
    return False


def m_leaves(m, prefix=""):
    """leaves of the branch tree (dict values are single leaves; empty branches have none)"""
    out = []
    for k, v in m.items():
        if type(v) is MB:
            out.extend(m_leaves(v, prefix + k + "."))
        else:
            out.append((prefix + k, v))
    return out


def m_items_branches(m, prefix=""):
    out = []
    for k, v in m.items():
        if type(v) is MB:
            out.append((prefix + k, v))
            out.extend(m_items_branches(v, prefix + k + "."))
        else:
            out.append((prefix + k, v))
    return out


def m_to_dict(m):
    if type(m) is MB:
        return {k: m_to_dict(v) for k, v in m.items()}
    return m


def m_all_paths(m, prefix=(), maxdepth=4):
    """every addressable path (through branches and through dict values), parents before children"""
    out = []
    if isinstance(m, dict) and len(prefix) < maxdepth:
        for k, v in m.items():
            if isinstance(k, str) and k and "." not in k and " " not in k:
                out.append(prefix + (k,))
                out.extend(m_all_paths(v, prefix + (k,), maxdepth))
    return out


def m_expand_all(d):
    """what dict_to_namespace promises: every str-keyed dict (also inside lists) becomes a branch"""
    if isinstance(d, dict) and all(isinstance(k, str) for k in d):
        return MB((k, m_expand_all(v)) for k, v in d.items())
    if isinstance(d, list):
        return [m_expand_all(v) for v in d]
    return d


def m_apply(m, op):
    """Apply a mutating op to the model in place. -> ('ok', result) | ('exc', 'KeyError')"""
    kind = op[0]
    if kind in ("set", "setattr", "set_steps"):
        m_set(m, op[1].split("."), mk_model(op[2]))
        return ("ok", None)
    if kind == "del":
        return ("ok", None) if m_del(m, op[1].split(".")) else ("exc", "KeyError")
    if kind == "pop":
        path = op[1].split(".")
        val = m_lookup(m, path)
        if val is MISSING:
            return ("ok", op[2])
        m_del(m, path)
        return ("ok", val)
    if kind in ("update", "update_unset"):
        spec, key = op[1], op[2]
        unset = kind == "update_unset"
        if not isinstance(spec, NS):
            if not key:
                return ("exc", "KeyError")
            path = key.split(".")
            if not (unset and m_lookup(m, path) is not MISSING):
                m_set(m, path, mk_model(spec))
            return ("ok", None)
        prefix = key + "." if key else ""
        for k, v in m_leaves(mk_model(spec)):
            path = (prefix + k).split(".")
            if not (unset and m_lookup(m, path) is not MISSING):
                m_set(m, path, v)
        return ("ok", None)
    raise ValueError(kind)


# ------------------------------------------------------------------ the same op on the real object
def r_apply(ns, op):
    """-> ('ok', result) | ('exc', ClassName-or-'KeyError')"""
    kind = op[0]
    try:
        if kind == "set":
            ns[op[1]] = mk_real(op[2])
            return ("ok", None)
        if kind == "setattr":
            setattr(ns, op[1], mk_real(op[2]))
            return ("ok", None)
        if kind == "set_steps":
            path = op[1].split(".")
            node = ns
            for seg in path[:-1]:
                child = node[seg] if seg in node else MISSING  # single-segment membership / read
                if not isinstance(child, (Namespace, dict)):
                    child = Namespace()
                    node[seg] = child
                node = child
            node[path[-1]] = mk_real(op[2])
            return ("ok", None)
        if kind == "del":
            del ns[op[1]]
            return ("ok", None)
        if kind == "pop":
            return ("ok", ns.pop(op[1], op[2]))
        if kind == "update":
            r = ns.update(mk_real(op[1]), op[2]) if op[2] is not None else ns.update(mk_real(op[1]))
            return ("ok", None)
        if kind == "update_unset":
            r = ns.update(mk_real(op[1]), op[2], only_unset=True)  # noqa
            return ("ok", None)
    except KeyError:
        return ("exc", "KeyError")
    except Exception as ex:  # noqa
        return ("exc", type(ex).__name__)
    raise ValueError(kind)


def op_src(op):
    kind = op[0]
    if kind == "set":
        return f"ns[{op[1]!r}] = {spec_src(op[2])}"
    if kind == "setattr":
        return f"setattr(ns, {op[1]!r}, {spec_src(op[2])})"
    if kind == "set_steps":
        segs = op[1].split(".")
        return "ns" + "".join(f"[{s!r}]" for s in segs) + f" = {spec_src(op[2])}  # step by step, missing parents created as Namespace()"
    if kind == "del":
        return f"del ns[{op[1]!r}]"
    if kind == "pop":
        return f"ns.pop({op[1]!r}, {op[2]!r})"
    if kind == "update":
        return f"ns.update({spec_src(op[1])}" + (f", {op[2]!r})" if op[2] is not None else ")")
    if kind == "update_unset":
        return f"ns.update({spec_src(op[1])}, {op[2]!r}, only_unset=True)"
    if kind == "clone":
        return "ns = ns.clone()"
    return repr(op)


def repro(history, last=None):
    lines = ["from jsonargparse import Namespace", "ns = Namespace()"] + [op_src(o) for o in history]
    if last:
        lines.append(last)
    return "; ".join(lines)


# ------------------------------------------------------------------ classification of a key against a model state
NAME_RANK = ["plain", "clash", "plain-below-dict", "clash-below-dict", "dictattr-below-dict", "marked-key-in-dict"]
FAMILY_RANK = ["at-branch", "parent-missing", "parent-None", "parent-leaf", "thru-dict"]


def _has_marked_key(d):
    return any(isinstance(k, str) and k.startswith(MARK) for k in d)


def classify(m, path, names_clash=CLASH):
    """-> (family, sub, name class): names the *class* of the addressed position, for canonical violation keys.
      family  at-branch (every proper prefix is a branch)  sub: absent | leaf | dict | branch   (what the key addresses)
              parent-missing | parent-None | parent-leaf (a proper prefix is missing / None / another non-mapping)  sub: -
              thru-dict (a proper prefix is a plain dict value)  sub: present | absent | mid (a later prefix is no mapping)
      name    plain | clash (a segment is one of the method names) | for thru-dict, looking at the segments below the dict:
              plain-below-dict | clash-below-dict | dictattr-below-dict (a name that is an attribute of dict but not of
              Namespace) | marked-key-in-dict (a traversed dict already holds a key starting with the clash mark, i.e. the
              state is the product of an earlier reported violation)
    """
    node, first_dict, marked = m, None, False
    stop = None
    for i, seg in enumerate(path[:-1]):
        child = node.get(seg, MISSING) if isinstance(node, dict) else MISSING
        if child is MISSING:
            stop = "missing"
        elif child is None:
            stop = "None"
        elif not isinstance(child, dict):
            stop = "leaf"
        if stop:
            break
        if type(child) is not MB:
            if first_dict is None:
                first_dict = i
            marked = marked or _has_marked_key(child)
        node = child
    if first_dict is not None:
        if stop:
            sub = "mid"
        else:
            leaf = node.get(path[-1], MISSING) if isinstance(node, dict) else MISSING
            sub = "absent" if leaf is MISSING else "present"
        below = path[first_dict + 1:]
        name = ("marked-key-in-dict" if marked else "dictattr-below-dict" if any(s in DICT_ONLY_ATTRS for s in below)
                else "clash-below-dict" if any(s in names_clash for s in below) else "plain-below-dict")
        return "thru-dict", sub, name
    name = "clash" if any(s in names_clash for s in path) else "plain"
    if stop:
        return "parent-" + stop, "-", name
    leaf = node.get(path[-1], MISSING)
    sub = "absent" if leaf is MISSING else "branch" if type(leaf) is MB else "dict" if isinstance(leaf, dict) else "leaf"
    return "at-branch", sub, name


def classify_many(m, paths):
    cls = [classify(m, p) for p in paths]
    if not cls:
        return "nokey", "-", "plain"
    if len(cls) == 1:
        return cls[0]
    fam = max((c[0] for c in cls), key=FAMILY_RANK.index)
    name = max((c[2] for c in cls), key=NAME_RANK.index)
    return fam, "*", name


def m_plain(m):
    """every branch, wherever it sits, as a plain dict"""
    if isinstance(m, dict):
        return {k: m_plain(v) for k, v in m.items()}
    if isinstance(m, list):
        return [m_plain(v) for v in m]
    if isinstance(m, tuple):
        return tuple(m_plain(v) for v in m)
    return m
