"""C17 bounded stand-in: exactly one subcommand is selected and only its settings survive.

Contract (end to end, on parse_args / parse_string / parse_object / parse_env of real parsers built from /repo):
for a subcommand tree T and an input scenario S the parse result (cfg keys and metadata stripped) equals the result of a
small reference model written from the property statement, and the accept/reject decision agrees:

  selection at every level = the name given on the command line, else the name given by the highest-priority
  config/environment source that names one, else the first *declared* subcommand for which some source gives
  settings; none and required -> failure; none and optional -> subcommand key None and no section;
  result[name] = the chosen sub-parser's complete settings: its defaults, overridden by default config files, environment,
  the parsed config/object, and the command line in textual order; recursively; no section of any other subcommand.

A scenario is a small set of (source, atom) pairs.  Atoms: "set the first option of the parser at path P" and "name
child C at path P".  Sources: D root default config file, Dc:P the default config file of the sub-parser at P, E
environment, B the parsed string/object, C --cfg=<json> before the first subcommand name, Cs:P --cfg=<json> given to the
sub-parser at P, A the command line itself (subcommand names and --opt=value).  Every value encodes its source, so the
model also decides *which* source must win.  All scenarios with at most N atoms are enumerated (N by tree, see bound);
every depth-1 scenario is additionally replayed ("lifted") at inner positions of deeper trees.

Deliberately *not* asserted (statement silent / ambiguous; see the report):
  * whether settings given only through environment variables count as "settings were given" when nothing names a
    subcommand: both readings are accepted;
  * the order between several config / environment / default-config sources that name different subcommands or give the
    same option: the model uses the documented override order (DOCUMENTATION.rst, "Override order"), but a result that is
    still compatible with the statement read *without* any such order (function `admissible`) is only listed in the notes
    under the class prefix 'order-' and not asserted; `--assert-order` turns these into violations;
  * a leaf or a name given by two default config files of different levels (scenario filtered out);
  * a failing parse when some source names an undeclared subcommand (any outcome but a success that stores it);
  * empty sections ({}), aliases, the type of the exception on failure (any exception counts as "parsing fails";
    non-ArgumentError failures are counted in the notes).

Violation key:  c17:<class>:<mechanism>:<tree>:<required modes>:<channels>[:d0][:oc]:<minimal scenario>:<detail>
  class      extra-section | wrong-choice | wrong-value | incomplete | accepted | rejected  (+ 'order-' prefix, see above)
  mechanism  coarse shape of the *minimal* scenario (see `mechanism_of`): D default config file, K config content,
             E environment, A command line; s = sets an option, n = names a subcommand, ! = off the chain the model selects
  d0 = defaults=False, oc = option before --cfg on the command line; '*' = fails with required and with optional subcommands.
Every failing evaluation is shrunk to a minimal scenario (confirmed on freshly built parsers); at most 3 (thorough 2)
minimal witnesses per (class, mechanism) get their own key, further ones are attributed to the first witness of the group
(all of them are written by `--dump-keys <file>`).
"""
import itertools
import json
import os
import sys
import tempfile
import warnings

from bounded.common import Harness, outcome

from jsonargparse import ArgumentParser, Namespace

DEST = "subcommand"
SRC_BASE = {"D": 1, "Dc": 2, "E": 3, "B": 4, "C": 5, "Cs": 6, "A": 7}
UNKNOWN = "zzz"


# --------------------------------------------------------------------------------------------- trees
class Node:
    def __init__(self, name, opt, children=()):
        self.name, self.opt, self.children = name, opt, list(children)
        self.opt2 = opt + "2"
        self.path, self.idx = (), 0

    def child(self, name):
        for c in self.children:
            if c.name == name:
                return c
        return None


class Tree:
    def __init__(self, tid, root):
        self.tid, self.root = tid, root
        self.nodes = []

        def walk(n, path):
            n.path, n.idx = path, len(self.nodes)
            self.nodes.append(n)
            for c in n.children:
                walk(c, path + (c.name,))

        walk(root, ())
        self.depth = max(len(n.path) for n in self.nodes)
        self.by_path = {n.path: n for n in self.nodes}

    def spec(self):
        def s(n):
            return n.name + "[" + n.opt + "]" + ("(" + ",".join(s(c) for c in n.children) + ")" if n.children else "")

        return s(self.root)


def N(name, opt, *children):
    return Node(name, opt, children)


def trees():
    t = {}
    t["k1"] = Tree("k1", N("", "g", N("a", "o")))
    t["k2"] = Tree("k2", N("", "g", N("a", "o"), N("b", "o")))
    t["k3"] = Tree("k3", N("", "g", N("a", "o"), N("b", "o"), N("c", "o")))
    t["k4"] = Tree("k4", N("", "g", N("a", "o"), N("b", "o"), N("c", "o"), N("d", "o")))
    t["d2"] = Tree("d2", N("", "g", N("a", "o", N("x", "q"), N("y", "q")), N("b", "o")))
    t["d2s"] = Tree("d2s", N("", "g", N("a", "o", N("x", "q"), N("y", "q")), N("b", "o", N("x", "q"), N("y", "q"))))
    # repeated names along a path (a.a.a), as in test_subsubcommand_default_config_repeated_keys
    t["rep"] = Tree("rep", N("", "g", N("a", "o", N("a", "a"), N("b", "a")), N("b", "o")))
    t["d3"] = Tree("d3", N("", "g", N("a", "o", N("x", "q", N("m", "r"), N("n", "r")), N("y", "q")), N("b", "o")))
    return t


def default_of(node, second=False):
    return node.idx * 10 + (1 if second else 0) + 10


def required_at(mode, level):
    return mode[min(level, len(mode) - 1)] == "R"


# --------------------------------------------------------------------------------------------- scenarios
def src_kind(src):
    return src.split(":")[0]


def src_path(src):
    if ":" not in src:
        return ()
    p = src.split(":")[1]
    return tuple(p.split(".")) if p else ()


def atom_str(tree, atom):
    if atom[0] == "s":
        node = tree.by_path[atom[1]]
        return ".".join(atom[1] + (node.opt,))
    return ".".join(atom[1]) + ">" + atom[2]


def sig(tree, sc):
    parts = []
    for src in sorted({s for s, _ in sc}, key=lambda s: (SRC_BASE[src_kind(s)], s)):
        label = src.replace(":", ".")
        parts.append(label + "(" + ",".join(atom_str(tree, a) for s, a in sc if s == src) + ")")
    return "".join(parts) or "-"


def value(tree, src, atom):
    return SRC_BASE[src_kind(src)] * 100 + tree.by_path[atom[1]].idx


def build_dict(tree, src, atoms, rel):
    """Nested dict, relative to path `rel`, holding the atoms of one source."""
    out = {}
    for atom in atoms:
        path = atom[1][len(rel):]
        d = out
        for p in path:
            d = d.setdefault(p, {})
        if atom[0] == "s":
            d[tree.by_path[atom[1]].opt] = value(tree, src, atom)
        else:
            d[DEST] = atom[2]
    return out


def atoms_of(tree, below=(), unknown=False):
    out = []
    for n in tree.nodes:
        if n.path[: len(below)] != below:
            continue
        out.append(("s", n.path))
        for c in n.children:
            out.append(("n", n.path, c.name))
        if unknown and n.children:
            out.append(("n", n.path, UNKNOWN))
    return out


def universe(tree, unknown=True):
    u = []
    for src in ("D", "E", "B", "C", "A"):
        for a in atoms_of(tree, unknown=unknown and src in ("B", "C", "A")):
            u.append((src, a))
    for n in tree.nodes[1:]:
        for kind in ("Dc", "Cs"):
            for a in atoms_of(tree, below=n.path):
                u.append((kind + ":" + ".".join(n.path), a))
    return u


def chain_of(sc):
    """argv chain: {path: child name} from the A name atoms, or None when they do not form a chain from the root."""
    names = sorted((a for s, a in sc if s == "A" and a[0] == "n"), key=lambda a: len(a[1]))
    chain, cur = {}, ()
    for a in names:
        if a[1] != cur:
            return None
        chain[cur] = a[2]
        cur = cur + (a[2],)
    return chain


def on_chain(chain, path):
    cur = ()
    for p in path:
        if chain.get(cur) != p:
            return False
        cur = cur + (p,)
    return True


def valid(tree, sc):
    srcs = {s for s, _ in sc}
    kinds = {src_kind(s) for s in srcs}
    if "B" in kinds and kinds & {"A", "C", "Cs"}:
        return False
    seen = set()
    for s, a in sc:
        if a[0] == "n":
            if (s, a[1]) in seen:
                return False
            seen.add((s, a[1]))
    chain = chain_of(sc)
    if chain is None:
        return False
    for s, a in sc:
        k = src_kind(s)
        if k in ("Dc", "Cs") and a[1][: len(src_path(s))] != src_path(s):
            return False
        if k == "Cs" and not (on_chain(chain, src_path(s)) and src_path(s) in tree.by_path):
            return False
        if k == "A" and a[0] == "s" and not on_chain(chain, a[1]):
            return False
    # the same leaf / the same name slot given by two default config files: no documented order -> not asserted
    slots = [(a[0], a[1]) for s, a in sc if src_kind(s) in ("D", "Dc")]
    if len(slots) != len(set(slots)):
        return False
    return True


def channels(sc):
    kinds = {src_kind(s) for s, _ in sc}
    if "B" in kinds:
        return ["string", "object"]
    if kinds & {"A", "C", "Cs"}:
        return ["args"]
    return ["args", "object"] + (["env"] if "E" in kinds else [])


# --------------------------------------------------------------------------------------------- reference model
class Reject(Exception):
    pass


def layers_of(tree, sc, cfg_first=True):
    """Ordered (low -> high priority) list of (kind, origin path, dict relative to origin)."""
    by_src = {}
    for s, a in sc:
        by_src.setdefault(s, []).append(a)
    chain = chain_of(sc) or {}
    out = []
    for s in sorted(x for x in by_src if src_kind(x) in ("D", "Dc")):
        out.append((src_kind(s), src_path(s), build_dict(tree, s, by_src[s], src_path(s))))
    if "E" in by_src:
        out.append(("E", (), build_dict(tree, "E", by_src["E"], ())))
    if "B" in by_src:
        out.append(("B", (), build_dict(tree, "B", by_src["B"], ())))
    # command line in textual order: at each level --cfg and the option (in the rendered order), then the subcommand name
    cur = ()
    while True:
        s = "C" if cur == () else "Cs:" + ".".join(cur)
        items = []
        if s in by_src:
            items.append((src_kind(s), cur, build_dict(tree, s, by_src[s], cur)))
        if ("s", cur) in by_src.get("A", []):
            items.append(("A", cur, build_dict(tree, "A", [("s", cur)], cur)))
        out += items if cfg_first else items[::-1]
        nxt = chain.get(cur)
        if nxt is None or cur + (nxt,) not in tree.by_path:
            break
        cur = cur + (nxt,)
    return out, chain


def descend(d, path):
    for p in path:
        d = d.get(p) if isinstance(d, dict) else None
        if d is None:
            return None
    return d if isinstance(d, dict) else None


def model(tree, sc, mode, defaults, env_counts, cfg_first=True):
    layers, chain = layers_of(tree, sc, cfg_first)

    def rec(node):
        path = node.path
        here = []
        for kind, origin, d in layers:
            if path[: len(origin)] != origin:
                continue
            sub = descend(d, path[len(origin):])
            if sub:
                here.append((kind, sub))
        res = {}
        if defaults:
            res[node.opt] = default_of(node)
            res[node.opt2] = default_of(node, True)
        for kind, sub in here:
            if node.opt in sub:
                res[node.opt] = sub[node.opt]
        if not node.children:
            return res
        chosen = chain.get(path)
        if chosen is None:
            for kind, sub in reversed(here):
                if sub.get(DEST) is not None:
                    chosen = sub[DEST]
                    break
        if chosen is None:
            for c in node.children:
                if any(isinstance(sub.get(c.name), dict) and sub[c.name] for kind, sub in here if env_counts or kind != "E"):
                    chosen = c.name
                    break
        if chosen is None:
            if required_at(mode, len(path)):
                raise Reject("required subcommand at '%s' cannot be determined" % ".".join(path))
            if defaults:
                res[DEST] = None
            return res
        child = node.child(chosen)
        if child is None:
            raise Reject("unknown subcommand %r" % chosen)
        res[DEST] = chosen
        sub = rec(child)
        if sub or defaults:
            res[chosen] = sub
        return res

    try:
        return ("ok", rec(tree.root))
    except Reject as ex:
        return ("reject", str(ex))


def admissible(tree, sc, mode, defaults, cfg_first, res):
    """The order-free reading of the statement: True iff the outcome is compatible with the statement when nothing is
    assumed about *which* of several config / environment / default-config sources wins: without a command-line name any
    subcommand named by some source may be chosen; an option given by several sources may hold any of the given values.
    (A value given by exactly one source must still arrive, no foreign section may survive, and so on.)"""
    layers, chain = layers_of(tree, sc, cfg_first)

    def here(node):
        out = []
        for kind, origin, d in layers:
            if node.path[: len(origin)] != origin:
                continue
            sub = descend(d, node.path[len(origin):])
            if sub:
                out.append((kind, sub))
        return out

    def choices(node, hs):
        if chain.get(node.path) is not None:
            return {chain[node.path]}
        names = {sub[DEST] for kind, sub in hs if sub.get(DEST) is not None}
        if names:
            return names
        out = set()
        for env_counts in (False, True):
            pick = None
            for c in node.children:
                if any(isinstance(sub.get(c.name), dict) and sub[c.name] for kind, sub in hs if env_counts or kind != "E"):
                    pick = c.name
                    break
            out.add(pick)
        return out

    def may_reject(node):
        if not node.children:
            return False
        for ch in choices(node, here(node)):
            if ch is None:
                if required_at(mode, len(node.path)):
                    return True
            elif node.child(ch) is None or may_reject(node.child(ch)):
                return True
        return False

    def ok(node, got):
        hs = here(node)
        for o, dflt in ((node.opt, default_of(node)), (node.opt2, default_of(node, True))):
            vals = {sub[o] for kind, sub in hs if o in sub}
            if vals:
                if got.get(o) not in vals:
                    return False
            elif defaults:
                if got.get(o) != dflt:
                    return False
            elif o in got:
                return False
        if not node.children:
            return set(got) <= {node.opt, node.opt2}
        ch = got.get(DEST)
        cands = choices(node, hs)
        if ch is None:
            return None in cands and not required_at(mode, len(node.path)) and set(got) <= {node.opt, node.opt2, DEST}
        if ch not in cands or node.child(ch) is None or not set(got) <= {node.opt, node.opt2, DEST, ch}:
            return False
        sub = got.get(ch, {})
        return isinstance(sub, dict) and ok(node.child(ch), sub)

    if res[0] != "ok":
        return may_reject(tree.root)
    got = res[1]
    if not isinstance(got, dict):
        return False
    return ok(tree.root, got if defaults else drop_empty(got))


# --------------------------------------------------------------------------------------------- real parsers
def build_parser(tree, mode, dcfdir):
    def files(node):
        if dcfdir is None:
            return None
        return [os.path.join(dcfdir, "dcf_" + "_".join(node.path) + ".json")]

    def mk(node):
        kw = {"exit_on_error": False, "default_config_files": files(node)}
        if node.path == ():
            kw.update(prog="app", env_prefix="APP")
        p = ArgumentParser(**kw)
        p.add_argument("--cfg", action="config")
        p.add_argument("--" + node.opt, type=int, default=default_of(node))
        p.add_argument("--" + node.opt2, type=int, default=default_of(node, True))
        return p

    def add_subs(node, parser):
        if not node.children:
            return
        sc = parser.add_subcommands(required=required_at(mode, len(node.path)))
        made = []
        for c in node.children:
            sp = mk(c)
            sc.add_subcommand(c.name, sp)
            made.append((c, sp))
        for c, sp in made:
            add_subs(c, sp)

    root = mk(tree.root)
    add_subs(tree.root, root)
    return root


def render_env(tree, sc):
    env = {}
    for s, a in sc:
        if s != "E":
            continue
        name = "APP_" + "".join(p.upper() + "__" for p in a[1])
        if a[0] == "s":
            env[name + tree.by_path[a[1]].opt.upper()] = str(value(tree, s, a))
        else:
            env[name + DEST.upper()] = a[2]
    return env


def render_argv(tree, sc, cfg_first=True):
    by_src = {}
    for s, a in sc:
        by_src.setdefault(s, []).append(a)
    chain = chain_of(sc) or {}
    argv, cur = [], ()
    while True:
        s = "C" if cur == () else "Cs:" + ".".join(cur)
        items = []
        if s in by_src:
            items.append("--cfg=" + json.dumps(build_dict(tree, s, by_src[s], cur)))
        if ("s", cur) in by_src.get("A", []):
            items.append("--%s=%d" % (tree.by_path[cur].opt, value(tree, "A", ("s", cur))))
        argv += items if cfg_first else items[::-1]
        nxt = chain.get(cur)
        if nxt is None:
            break
        argv.append(nxt)
        if cur + (nxt,) not in tree.by_path:
            break
        cur = cur + (nxt,)
    return argv


def strip(tree, d):
    """Drop the config-argument keys (cfg) at every level of a result dict; leave everything else as it is."""

    def rec(node, d):
        if not isinstance(d, dict):
            return d
        out = {}
        for k, v in d.items():
            if k == "cfg":
                continue
            c = node.child(k) if node is not None else None
            out[k] = rec(c, v) if isinstance(v, dict) else v
        return out

    return rec(tree.root, d)


def drop_empty(d):
    if not isinstance(d, dict):
        return d
    out = {}
    for k, v in d.items():
        v = drop_empty(v)
        if isinstance(v, dict) and not v:
            continue
        out[k] = v
    return out


def diff(tree, want, got):
    """First difference between the model result and the real result, as (class, detail)."""

    def rec(node, w, g, path):
        names = [c.name for c in node.children]
        p = ".".join(path)
        for n in names:
            if n in g and g.get(DEST) != n:
                return "extra-section", (p + "." if p else "") + n
        if node.children and w.get(DEST) != g.get(DEST):
            return "wrong-choice", "%s>%s!=%s" % (p, g.get(DEST), w.get(DEST))
        for o in (node.opt, node.opt2):
            if o in w and o not in g:
                return "incomplete", (p + "." if p else "") + o
            if w.get(o) != g.get(o):
                return "wrong-value", "%s%s=%s!=%s" % (p + "." if p else "", o, g.get(o), w.get(o))
        extra = sorted(set(g) - set(w))
        if extra:
            return "extra-key", (p + "." if p else "") + extra[0]
        ch = w.get(DEST)
        if ch is not None and node.child(ch) is not None:
            wc, gc = w.get(ch, {}), g.get(ch, {})
            if not isinstance(gc, dict):
                return "no-section", (p + "." if p else "") + ch
            return rec(node.child(ch), wc, gc, path + (ch,))
        missing = sorted(set(w) - set(g))
        if missing:
            return "missing-key", (p + "." if p else "") + missing[0]
        return None

    return rec(tree.root, want, got, ())


def chain_in(tree, d):
    """The chain of chosen subcommand names in a (model or real) result dict."""
    chain, node = (), tree.root
    while isinstance(d, dict) and node is not None and node.children and isinstance(d.get(DEST), str):
        ch = d[DEST]
        chain += (ch,)
        node, d = node.child(ch), d.get(ch)
    return chain


def mechanism_of(sc, chain, cls, detail):
    """Coarse name of the defect mechanism shown by a minimal scenario, used to group witnesses: the set of
    <source kind><s|n>['!' when the atom is off the chain the model selects], source kinds D = a default config file (root or
    sub-parser), K = config content (parsed string / object, --cfg at any level), E = environment, A = command line.  Atoms that
    merely establish the context are left
    out: command-line / config atoms on the chain above the place of the mismatch; for rejections everything but the
    default-config atoms (+ 'E' when the environment is on).  The witness part of the key names the exact input."""
    base = cls[6:] if cls.startswith("order-") else cls
    where = None
    if base == "wrong-value":
        where = len(detail.split("=")[0].split(".")) - 1
    elif base == "wrong-choice":
        where = len([p for p in detail.split(">")[0].split(".") if p]) + 1
    elif base == "extra-section":
        where = len(detail.split("."))
    parts = set()
    for s, a in sc:
        k = src_kind(s)
        target = a[1] if a[0] == "s" else a[1] + (a[2],)
        on = chain[: len(target)] == target
        short = {"D": "D", "Dc": "D", "B": "K", "C": "K", "Cs": "K", "E": "E", "A": "A"}[k]
        if base == "rejected" and short != "D":
            if short == "E":
                parts.add("E")
            elif detail not in ("dcf-needs-subcommand", "nested-key"):
                parts.add("%s%s%s" % (short, a[0], "" if on else "!"))
            continue
        if where is not None and on and short in ("A", "K") and len(target) < where:
            continue
        parts.add("%s%s%s" % (short, a[0], "" if on else "!"))
    return "+".join(sorted(parts)) or "-"


def failure_category(res):
    """Short, input-independent name of a failure (used in keys only, never in the verdict)."""
    if res[0] == "exit":
        return "exit%s" % res[1]
    name, msg = res[1], res[2]
    if name != "ArgumentError":
        return name
    if "Problem in default config file" in msg and "to be one of" in msg:
        return "dcf-needs-subcommand"
    if "does not accept nested key" in msg:
        return "nested-key"
    if "to be one of" in msg:
        return "not-provided"
    return "ArgumentError-" + "-".join(msg.replace('"', "").replace("'", "").split()[:3])[:30]


class Runner:
    """Runs scenarios on real parsers (one set per worker process) and judges them against the model."""

    def __init__(self, tmp):
        self.tmp = tmp
        self.parsers = {}
        self.cache = {}
        self.confirmed = {}
        self.n_dirs = 0

    def parser(self, tree, mode, with_dcf, fresh=False):
        key = (tree.tid, mode, with_dcf)
        if fresh or key not in self.parsers:
            d = None
            if with_dcf:
                d = os.path.join(self.tmp, "p%d" % self.n_dirs)
                self.n_dirs += 1
                os.mkdir(d)
                for n in tree.nodes:
                    with open(os.path.join(d, "dcf_" + "_".join(n.path) + ".json"), "w") as f:
                        f.write("")
            p = (build_parser(tree, mode, d), d)
            if fresh:
                return p
            self.parsers[key] = p
        return self.parsers[key]

    def call(self, tree, sc, mode, channel, defaults, cfg_first, fresh=False):
        kinds = {src_kind(s) for s, _ in sc}
        with_dcf = bool(kinds & {"D", "Dc"})
        parser, d = self.parser(tree, mode, with_dcf, fresh)
        by_src = {}
        for s, a in sc:
            by_src.setdefault(s, []).append(a)
        if with_dcf:
            for n in tree.nodes:
                s = "D" if n.path == () else "Dc:" + ".".join(n.path)
                with open(os.path.join(d, "dcf_" + "_".join(n.path) + ".json"), "w") as f:
                    f.write(json.dumps(build_dict(tree, s, by_src[s], n.path)) if s in by_src else "")
        env = render_env(tree, sc)
        use_env = True if "E" in kinds else None
        kw = {"with_meta": False, "defaults": defaults}
        case = {"tree": tree.spec(), "required_by_level": mode, "channel": channel, "defaults": defaults, "env": env,
                "default_config_files": {("root" if s == "D" else s[3:]): build_dict(tree, s, by_src[s], src_path(s))
                                         for s in by_src if src_kind(s) in ("D", "Dc")}}
        saved = dict(os.environ)
        try:
            for k in [k for k in os.environ if k.startswith("APP_")]:
                del os.environ[k]
            os.environ.update(env)
            if channel == "args":
                argv = render_argv(tree, sc, cfg_first)
                case["call"] = "parse_args(%r, env=%r, defaults=%r)" % (argv, use_env, defaults)
                res = outcome(parser.parse_args, argv, env=use_env, **kw)
            elif channel == "string":
                text = json.dumps(build_dict(tree, "B", by_src.get("B", []), ()))
                case["call"] = "parse_string(%r, env=%r, defaults=%r)" % (text, use_env, defaults)
                res = outcome(parser.parse_string, text, env=use_env, **kw)
            elif channel == "object":
                obj = build_dict(tree, "B", by_src.get("B", []), ())
                case["call"] = "parse_object(%r, env=%r, defaults=%r)" % (obj, use_env, defaults)
                res = outcome(parser.parse_object, obj, env=use_env, **kw)
            else:
                case["call"] = "parse_env(defaults=%r)" % (defaults,)
                res = outcome(parser.parse_env, **kw)
        finally:
            os.environ.clear()
            os.environ.update(saved)
        if res[0] == "ok":
            val = res[1]
            res = ("ok", strip(tree, val.as_dict()) if isinstance(val, Namespace) else val)
        return res, case

    def judge(self, tree, sc, mode, defaults, cfg_first, res):
        """-> (ok, class, detail, expected).  The reference is the model with the documented override order; either reading
        of env-only settings is accepted.  A mismatch that is still compatible with the order-free reading of the statement
        (see `admissible`) gets the class prefix 'order-'."""
        verdicts = []
        has_unknown = any(a[0] == "n" and a[2] == UNKNOWN for _, a in sc)
        for env_counts in (False, True):
            exp = model(tree, sc, mode, defaults, env_counts, cfg_first)
            if res[0] != "ok" and has_unknown:
                # a config / command line naming an undeclared subcommand may be refused whatever else is given
                return True, "", "", exp
            if exp[0] == "reject":
                if res[0] != "ok":
                    return True, "", "", exp
                verdicts.append(("accepted", exp[1].split(" at ")[0].split(" '")[0].replace(" ", "-")[:40], exp))
            elif res[0] != "ok":
                verdicts.append(("rejected", failure_category(res), exp))
            else:
                got = res[1]
                if not isinstance(got, dict):
                    verdicts.append(("not-a-namespace", type(got).__name__, exp))
                    continue
                w, g = exp[1], got
                if not defaults:
                    w, g = drop_empty(w), drop_empty(g)
                df = diff(tree, w, g)
                if df is None:
                    return True, "", "", exp
                verdicts.append((df[0], df[1], exp))
        cls, detail, exp = verdicts[0]
        if admissible(tree, sc, mode, defaults, cfg_first, res):
            cls = "order-" + cls
        return False, cls, detail, exp

    def verdict(self, tree, sc, mode, channel, defaults, cfg_first, fresh=False):
        """-> dict(ok, cls, detail, exp, res, case); cached for the reused parsers."""
        key = (tree.tid, tuple(sc), mode, channel, defaults, cfg_first)
        if not fresh and key in self.cache:
            return self.cache[key]
        res, case = self.call(tree, sc, mode, channel, defaults, cfg_first, fresh)
        ok, cls, detail, exp = self.judge(tree, sc, mode, defaults, cfg_first, res)
        v = {"ok": ok, "cls": cls, "detail": detail, "exp": exp, "res": res, "case": case}
        if not fresh:
            self.cache[key] = v
        return v

    def shrink(self, tree, sc, mode, channel, defaults, cfg_first, cls):
        """Greedy removal of atoms while some channel still shows the same class of violation."""
        cur, cur_channel = tuple(sc), channel
        changed = True
        while changed:
            changed = False
            for i in range(len(cur)):
                cand = cur[:i] + cur[i + 1:]
                if not valid(tree, cand):
                    continue
                chans = channels(cand)
                for c in ([cur_channel] if cur_channel in chans else []) + [c for c in chans if c != cur_channel]:
                    v = self.verdict(tree, cand, mode, c, defaults, cfg_first)
                    if not v["ok"] and v["cls"] == cls:
                        cur, cur_channel, changed = cand, c, True
                        break
                if changed:
                    break
        return cur, cur_channel

    def run(self, tree, sc, mode, defaults=True, cfg_first=True):
        """One scenario on every channel it applies to -> list of result records (one contract evaluation each)."""
        out = []
        s = sig(tree, sc)
        flags = ("" if defaults else ":d0") + ("" if cfg_first else ":oc")
        for channel in channels(sc):
            v = self.verdict(tree, sc, mode, channel, defaults, cfg_first)
            res = v["res"]
            rec = {"ok": v["ok"], "orig": "%s:%s:%s%s:%s" % (tree.tid, mode, channel, flags, s),
                   "res": res[0], "fail": res[1] if res[0] == "exc" else ("exit" if res[0] == "exit" else None),
                   "ambiguous": model(tree, sc, mode, defaults, False, cfg_first) != model(tree, sc, mode, defaults, True, cfg_first),
                   "nontrivial": bool(sc), "stale": False}
            if not v["ok"]:
                # shrink to a minimal scenario with the same class of violation (the canonical key names the minimal one) and
                # confirm it on a freshly built parser, so that the reproducer is stand-alone (history effects belong to C09)
                cls = v["cls"]
                cur, cur_channel = self.shrink(tree, sc, mode, channel, defaults, cfg_first, cls)
                ck = (tree.tid, cur, mode, cur_channel, defaults, cfg_first, cls)
                if ck not in self.confirmed:
                    vm = self.verdict(tree, cur, mode, cur_channel, defaults, cfg_first, fresh=True)
                    self.confirmed[ck] = vm if (not vm["ok"] and vm["cls"] == cls) else None
                vm = self.confirmed[ck]
                if vm is None:
                    cur, cur_channel = tuple(sc), channel
                    vm = self.verdict(tree, sc, mode, channel, defaults, cfg_first, fresh=True)
                    if vm["ok"]:
                        rec.update(ok=True, stale=True)
                    cls = vm["cls"]
            if not rec["ok"]:
                depth = tree.depth

                def bad(m, c):
                    x = self.verdict(tree, cur, m, c, defaults, cfg_first)
                    return not x["ok"] and x["cls"] == cls

                modes = [m for m in dict.fromkeys(["R" * depth, "O" * depth, mode]) if m == mode or bad(m, cur_channel)]
                chans = [c for c in channels(cur) if c == cur_channel or bad(mode, c)]
                mode_label = "*" if {"R" * depth, "O" * depth} <= set(modes) else mode
                exp, res = vm["exp"], vm["res"]
                chain = chain_in(tree, exp[1]) if exp[0] == "ok" else (chain_in(tree, res[1]) if res[0] == "ok" else ())
                shape = mechanism_of(cur, chain, cls, vm["detail"]) + ("~" + vm["detail"] if cls.endswith("rejected") else "")
                witness = "%s:%s:%s%s:%s:%s" % (tree.tid, mode_label, "+".join(chans), flags, sig(tree, cur), vm["detail"])
                case = dict(vm["case"])
                case.update(expected=exp[1], got=res[1] if res[0] == "ok" else list(res), found_from=rec["orig"], minimal_scenario=sig(tree, cur))
                rec.update(cls=cls, shape=shape, witness=witness, case=case,
                           what="result differs from the reference selection model: %s %s" % (cls, vm["detail"]))
            elif len(sc) >= 3 and res[0] == "ok":
                case = v["case"]
                rec["sample"] = {"scenario": rec["orig"], "call": case["call"], "env": case["env"], "dcf": case["default_config_files"], "result": res[1]}
            out.append(rec)
        return out


_STATE = {}


def work(job):
    """Pool worker: run a chunk of tasks (tree id, scenario, mode, defaults, cfg_first)."""
    tmp, chunk = job
    if "runner" not in _STATE:
        d = os.path.join(tmp, "w%d" % os.getpid())
        os.makedirs(d, exist_ok=True)
        _STATE["runner"] = Runner(d)
        _STATE["trees"] = trees()
    r, T = _STATE["runner"], _STATE["trees"]
    out = []
    with warnings.catch_warnings():
        warnings.simplefilter("ignore")
        for tid, sc, mode, defaults, cfg_first in chunk:
            out.extend(r.run(T[tid], sc, mode, defaults, cfg_first))
    if len(r.cache) > 20000:
        r.cache.clear()
    return out


# --------------------------------------------------------------------------------------------- enumeration
def combos(tree, max_atoms, unknown=True, keep=None):
    u = universe(tree, unknown)
    if keep is not None:
        u = [x for x in u if keep(x)]
    yield ()
    for n in range(1, max_atoms + 1):
        for sc in itertools.combinations(u, n):
            if valid(tree, sc):
                yield sc


def lift(tree, sc1, target, how, own_files):
    """Replay a scenario of the depth-1 tree k2 (root[a,b]) at the inner node `target` of `tree`, whose first two children
    play a and b.  `how` selects the outer chain: 'A' names it on the command line, 'B' names it in the config / --cfg,
    'I' leaves it implicit (it is then determined by the settings themselves)."""
    node = tree.by_path[target]
    ren = {"a": node.children[0].name, "b": node.children[1].name}
    out = []
    kinds = {src_kind(s) for s, _ in sc1}
    for s, a in sc1:
        k = src_kind(s)
        path = target + tuple(ren.get(p, p) for p in a[1])
        atom = ("s", path) if a[0] == "s" else ("n", path, ren.get(a[2], a[2]))
        if k == "C":
            s2 = "Cs:" + ".".join(target)
        elif k in ("Dc", "Cs"):
            s2 = k + ":" + ".".join(target + tuple(ren.get(p, p) for p in src_path(s)))
        elif k == "D" and own_files:
            s2 = "Dc:" + ".".join(target)
        else:
            s2 = s
        out.append((s2, atom))
    needs_argv_chain = bool(kinds & {"A", "C", "Cs"})
    if needs_argv_chain or how == "A":
        if "B" in kinds:
            return None
        src = "A"
    elif how == "B":
        src = "B" if "B" in kinds or not kinds & {"A", "C", "Cs"} else "C"
    else:
        src = None
    if src:
        cur = ()
        for p in target:
            out.append((src, ("n", cur, p)))
            cur = cur + (p,)
    out = tuple(dict.fromkeys(out))
    return out if valid(tree, out) else None


def mode_sensitive(tree, sc, defaults=True):
    depth = tree.depth
    base = None
    for m in itertools.product("RO", repeat=depth):
        for env_counts in (False, True):
            r = model(tree, sc, "".join(m), defaults, env_counts)
            if base is None:
                base = r
            elif r != base:
                return True
    return False


def tasks_for(thorough, rng):
    """The deterministic task list: (tree id, scenario, required-mode, defaults, cfg_first)."""
    T = trees()
    tasks = []
    counter = [0]

    def add(tid, sc, modes, defaults=True, cfg_first=True, all_modes=False):
        """modes = [all required, all optional, mixed...].  Every mode when asked; all-required + all-optional + one mixed
        when the model's answer depends on required/optional; else one mode (round robin)."""
        counter[0] += 1
        if all_modes:
            chosen = modes
        elif mode_sensitive(T[tid], sc, defaults):
            chosen = modes[:2] + ([modes[2 + counter[0] % (len(modes) - 2)]] if len(modes) > 2 else [])
        else:
            chosen = [modes[counter[0] % len(modes)]]
        for m in chosen:
            tasks.append((tid, tuple(sc), m, defaults, cfg_first))

    # ---- (1) depth 1, two subcommands: all scenarios with <= 3 atoms (4 thorough)
    n1 = 4 if thorough else 3
    k2 = list(combos(T["k2"], n1))
    for sc in k2:
        add("k2", sc, ["R", "O"], all_modes=len(sc) <= 1)
    for sc in k2:
        kinds = {src_kind(s) for s, _ in sc}
        if len(sc) <= 3 and not kinds & {"D", "Dc"}:
            add("k2", sc, ["R", "O"], defaults=False)
        if len(sc) <= 3 and kinds & {"C", "Cs"} and any(s == "A" and a[0] == "s" for s, a in sc):
            add("k2", sc, ["R", "O"], cfg_first=False)
    # ---- (1b) targeted 4-atom scenarios: a config / default config file names one subcommand and has sections for it and for
    # another one, the command line names the other one (its given settings must arrive)
    for tid in ("k2", "k3"):
        names = [c.name for c in T[tid].root.children]
        for src1 in ("C", "D"):
            for named in names:
                for other in names:
                    if other != named:
                        sc = ((src1, ("n", (), named)), (src1, ("s", (named,))), (src1, ("s", (other,))), ("A", ("n", (), other)))
                        add(tid, sc, ["R", "O"], all_modes=True)
                        if src1 == "C":
                            add(tid, sc, ["R", "O"], defaults=False)
    # ---- (2) one, three (and four) subcommands per level
    for tid, n in ((("k1", 3), ("k3", 2), ("k4", 2), ("k3", 3)) if thorough else (("k1", 2), ("k3", 2))):
        for sc in combos(T[tid], n):
            add(tid, sc, ["R", "O"])
    # three subcommands: settings for several subcommands from one source + a name from another (3-4 atoms)
    sets = [("s", (c,)) for c in "abc"]
    for src1 in ("D", "E", "B", "C"):
        for n_set in (2, 3):
            for chosen_sets in itertools.combinations(sets, n_set):
                for src2 in ("D", "E", "B", "C", "A"):
                    for name in "abc":
                        sc = tuple((src1, a) for a in chosen_sets) + ((src2, ("n", (), name)),)
                        if valid(T["k3"], sc):
                            add("k3", sc, ["R", "O"])
                            if src1 != "D" and src2 != "D":
                                add("k3", sc, ["R", "O"], defaults=False)
    # ---- (3) depth 2: all scenarios with <= 2 atoms (thorough: <= 3 on the basic depth-2 tree)
    n2 = 3 if thorough else 2
    for tid in ("d2", "rep") + (("d2s",) if thorough else ()):
        for sc in combos(T[tid], n2 if tid == "d2" else 2, unknown=(tid == "d2")):
            if tid == "rep" and not thorough and len(sc) == 2:
                tasks.append((tid, tuple(sc), ("RR", "OO")[len(tasks) % 2], True, True))  # quick: one mode for the repeated-names tree
                continue
            add(tid, sc, ["RR", "OO", "RO", "OR"] if len(sc) <= 1 or (thorough and len(sc) <= 2) else ["RR", "OO"], all_modes=(tid == "d2" and len(sc) <= 1))
            kinds = {src_kind(s) for s, _ in sc}
            if tid == "d2" and sc and len(sc) <= 2 and not kinds & {"D", "Dc"} and (thorough or kinds & {"B", "C", "Cs"}):
                add(tid, sc, ["RR", "OO", "RO", "OR"] if thorough else ["RR", "OO"], defaults=False)
    # ---- (4) every depth-1 scenario replayed at inner positions of deeper trees
    k2_small = [sc for sc in k2 if 1 <= len(sc) <= 3 and not any(a[0] == "n" and a[2] == UNKNOWN for s, a in sc)]
    targets = [("d2", ("a",)), ("d2s", ("b",)), ("rep", ("a",)), ("d3", ("a", "x"))]
    if thorough:
        targets.append(("d3", ("a",)))
    i = 0
    for tid, target in targets:
        for sc1 in k2_small:
            for own in (False, True):
                if own and not any(s == "D" for s, _ in sc1):
                    continue
                i += 1
                if len(sc1) == 3 and i % (2 if thorough else 5) != 0:
                    continue  # every fifth (thorough: second) 3-atom lift, deterministic
                # how the outer chain is selected: named on the command line / in the config / left implicit
                for how in (("A", "B", "I") if thorough or len(sc1) == 1 else ("ABI"[i % 3],)):
                    sc = lift(T[tid], sc1, target, how, own)
                    if sc is None:
                        continue
                    depth = T[tid].depth
                    add(tid, sc, ["R" * depth, "O" * depth, ("RO" * depth)[:depth], ("OR" * depth)[:depth]])
    # ---- (5) thorough: seeded random larger scenarios on the deepest / widest trees
    if thorough:
        for tid in ("d3", "d2s", "k4"):
            u = universe(T[tid], unknown=False)
            done = 0
            while done < 2000:
                sc = tuple(sorted(set(rng.sample(u, rng.randint(3, 6)))))
                if not valid(T[tid], sc):
                    continue
                done += 1
                mode = "".join(rng.choice("RO") for _ in range(T[tid].depth))
                d0 = rng.random() < 0.2 and not {src_kind(s) for s, _ in sc} & {"D", "Dc"}
                tasks.append((tid, sc, mode, not d0, True))
    return tasks, n1, n2


WITNESSES_PER_SHAPE = 3  # quick; thorough: 2


def main():
    h = Harness("b17_subcommands", rule="every scenario = set of <= N (source, atom) pairs over a subcommand tree (atoms: set the option of the parser at "
                "path P / name child C at path P; sources: root and sub-parser default config files, environment, parsed string/object, "
                "--cfg at root or sub level, command line), run through parse_args / parse_string / parse_object / parse_env on parsers "
                "with required and optional subcommands and compared with a reference selection+precedence model; non-trivial = distinct "
                "(tree, required-mode, channel, defaults flag, scenario) with a non-empty scenario; a violation is shrunk to a minimal "
                "scenario; key = c17:<class>:<shape of the minimal scenario>:<tree>:<modes>:<channels>:<minimal scenario>:<detail>, at most "
                "3 (thorough 2) witnesses per (class, shape) get their own key, further ones are attributed to the first")
    import multiprocessing

    import time
    t0 = time.time()
    tasks, n1, n2 = tasks_for(h.thorough, h.rng)
    t1 = time.time()
    per_shape = 2 if h.thorough else WITNESSES_PER_SHAPE
    size = 100
    workers = max(1, min(16, os.cpu_count() or 1))
    stats = {"accept": 0, "reject": 0, "env-ambiguous": 0, "stale-parser-only": 0}
    fail_types, shapes = {}, {}
    with tempfile.TemporaryDirectory() as tmp:
        jobs = [(tmp, tasks[i:i + size]) for i in range(0, len(tasks), size)]
        with multiprocessing.get_context("fork").Pool(workers) as pool:
            results = pool.map(work, jobs, chunksize=1)
    t2 = time.time()
    assert_order = "--assert-order" in h.extra
    groups, unasserted = {}, {}
    for recs in results:
        for rec in recs:
            if h.only and h.only not in rec["orig"] and h.only not in rec.get("witness", ""):
                continue
            stats["accept" if rec["res"] == "ok" else "reject"] += 1
            stats["env-ambiguous"] += rec["ambiguous"]
            stats["stale-parser-only"] += rec["stale"]
            if rec["fail"]:
                fail_types[rec["fail"]] = fail_types.get(rec["fail"], 0) + 1
            if rec["nontrivial"]:
                h.nontrivial(rec["orig"])
            if "sample" in rec:
                h.sample(rec["sample"], limit=3)
            if rec["ok"]:
                h.check(True, "")
                continue
            book = groups if assert_order or not rec["cls"].startswith("order-") else unasserted
            g = book.setdefault((rec["cls"], rec["shape"]), {"witnesses": [], "failing_evaluations": 0})
            g["failing_evaluations"] += 1
            if rec["witness"] not in g["witnesses"]:
                g["witnesses"].append(rec["witness"])
            if book is unasserted:
                # compatible with the statement when it is read without any override order between config / environment /
                # default-config sources: reported in the notes, not asserted (README rule 1); --assert-order asserts it
                h.check(True, "")
                continue
            w = rec["witness"] if g["witnesses"].index(rec["witness"]) < per_shape else g["witnesses"][0]
            h.check(False, "c17:%s:%s:%s" % (rec["cls"], rec["shape"], w), rec["what"], rec["case"])
    h.note("tasks: %d in %d jobs on %d worker processes; seconds: enumerate %.1f, run %.1f" % (len(tasks), len(jobs), workers, t1 - t0, t2 - t1))
    h.note("outcomes: %r" % stats)
    h.note("failure types seen (any exception counts as 'parsing fails' for C17; non-ArgumentError ones are C03 material): %r" % fail_types)
    h.note("violations by (class, shape): " + "; ".join(
        "%s:%s -> %d failing evaluations, %d minimal witnesses" % (k[0], k[1], v["failing_evaluations"], len(v["witnesses"]))
        for k, v in sorted(groups.items())))
    h.note("NOT asserted - differs from the documented override order (DOCUMENTATION.rst 'Override order') but compatible with the statement "
           "read without an order between config / environment / default-config sources: " + "; ".join(
               "%s:%s -> %d evaluations, e.g. %s" % (k[0], k[1], v["failing_evaluations"], v["witnesses"][0]) for k, v in sorted(unasserted.items())))
    for i, a in enumerate(h.extra):
        if a == "--dump-keys" and i + 1 < len(h.extra):
            with open(h.extra[i + 1], "w") as f:
                for book in (groups, unasserted):
                    for k, v in sorted(book.items()):
                        for w in v["witnesses"]:
                            f.write("c17:%s:%s:%s\n" % (k[0], k[1], w))
    if not h.only:
        h.check(stats["accept"] > 0 and stats["reject"] > 0, "c17:vacuity", "accepted and rejected inputs must both occur", stats)
    sys.exit(h.finish(exhaustive=True, bound=(
        "trees: 1-3 (thorough 4) subcommands at depth 1, depth 2 (incl. equal names in two branches and repeated names a.a.a), depth 3 via lifted "
        "scenarios (thorough: + random); scenarios: all with <= %d atoms on root[a,b], <= %d on the basic depth-2 tree (<= 2 on the other depth-2 trees), <= 2 (thorough 3) on 1/3/4 subcommands, every <=3-atom "
        "depth-1 scenario lifted to inner nodes of depth-2/3 trees (every second 3-atom one; quick: every fifth, one of three outer-selection styles); required/optional per level; defaults on/off" % (n1, n2))))


if __name__ == "__main__":
    main()
